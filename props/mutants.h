/* Mutation-closure harness shared by C06 (arbitrary bytes are safe / never falsely succeed) and
 * C11 (checksum verification catches corruption). Candidates are evaluated under several drivers
 * (one-shot, streaming, byte-at-a-time input, 1-byte output, every 2-split) and kernels; the oracle
 * is the independent reference decoder's verdict ON THE MUTATED BYTES. */
#ifndef MUTANTS_H
#define MUTANTS_H
#include "streams.h"

static long nfail;
static struct ri_result MR;
static uint8_t *mr_out;
#define MR_CAP (GS_MAXOUT)
static const int m_cpus[3] = { CPU_BASE, CPU_SSE, CPU_AVX2 };
static int M_CHECK_CRC_STATE; /* C11: compare state.crc after completion */

static int ret_documented(int r, int stateless)
{
	if (r == ISAL_DECOMP_OK || r == ISAL_NEED_DICT)
		return 1;
	if (stateless && (r == ISAL_END_INPUT || r == ISAL_OUT_OVERFLOW))
		return 1;
	return r <= ISAL_INVALID_BLOCK && r >= ISAL_INCORRECT_CHECKSUM;
}
static int crc_flag_to_ref(int crc_flag, struct ri_opts *o)
{
	memset(o, 0, sizeof *o);
	o->wrapper = (crc_flag == ISAL_GZIP || crc_flag == ISAL_GZIP_NO_HDR || crc_flag == ISAL_GZIP_NO_HDR_VER) ? RW_GZIP
		     : crc_flag == ISAL_DEFLATE ? RW_RAW : RW_ZLIB;
	o->no_header = crc_flag != ISAL_GZIP && crc_flag != ISAL_ZLIB;
	o->no_trailer = crc_flag == ISAL_DEFLATE || crc_flag == ISAL_GZIP_NO_HDR || crc_flag == ISAL_ZLIB_NO_HDR;
	return 0;
}

struct mres { int completed, ret, stuck, fault, calls, bstate; size_t out_len; uint32_t crc; };
/* streaming driver: input chunk size ci (0 = all), output chunk size co (0 = all of cap), split: first call gets `split` bytes (if >0) */
static void drive_stream(int crc_flag, const uint8_t *m, size_t mlen, uint8_t *outbuf, size_t cap, int ci, int co, size_t split, struct mres *r)
{
	static struct inflate_state *st;
	if (!st)
		st = g_persist(sizeof *st, G_END);
	memset(r, 0, sizeof *r);
	size_t ip = 0, op = 0;
	long horizon = 2 * (long)(mlen + cap) + 64;
	if (!V_TRY()) {
		r->fault = 1;
		return;
	}
	isal_inflate_init(st);
	st->crc_flag = crc_flag;
	size_t have = 0; /* bytes currently offered and not yet consumed start at ip */
	(void)have;
	for (;;) {
		size_t k = mlen - ip;
		if (split && r->calls == 0 && split < k)
			k = split;
		else if (ci && (size_t)ci < k)
			k = ci;
		size_t oc = cap - op;
		if (co && (size_t)co < oc)
			oc = co;
		uint8_t *in = g_alloc(k, G_END), *out = g_alloc(oc, G_END);
		memcpy(in, m + ip, k);
		st->next_in = in;
		st->avail_in = (uint32_t)k;
		st->next_out = out;
		st->avail_out = (uint32_t)oc;
		int bs = st->block_state;
		int ret = isal_inflate(st);
		r->calls++;
		size_t consumed = k - st->avail_in, produced = oc - st->avail_out;
		if ((size_t)(st->next_out - out) > oc || (size_t)(st->next_in - in) > k || (ret >= 0 && (st->avail_in > k || st->avail_out > oc))) {
			r->stuck = 2; /* bookkeeping corrupt */
			break;
		}
		if (ret < 0) { /* counters after an error are unspecified: take the pointer advance */
			consumed = (size_t)(st->next_in - in);
			produced = (size_t)(st->next_out - out);
		}
		memcpy(outbuf + op, out, produced);
		ip += consumed;
		op += produced;
		r->ret = ret;
		if (g_check()) {
			r->stuck = 4;
			break;
		}
		g_reset();
		if (ret < 0 || ret == ISAL_NEED_DICT)
			break;
		if (st->block_state == ISAL_BLOCK_FINISH) {
			r->completed = 1;
			break;
		}
		if (consumed == 0 && produced == 0 && (int)st->block_state == bs) {
			/* nothing happened: fine if the codec has everything and simply needs more input or output space */
			if (ip + k >= mlen && k == mlen - ip && st->avail_in == 0)
				break; /* all input consumed: needs more input */
			if (op >= cap)
				break; /* output space exhausted */
			if (k == mlen - ip && oc == cap - op && (st->avail_in > 0 && st->avail_out > 0)) {
				r->stuck = 1; /* input and output both available, no progress, no condition reported */
				break;
			}
			if (k < mlen - ip || oc < cap - op) {
				/* a small chunk was not enough to progress: offer everything once before judging */
				ci = 0;
				co = 0;
				split = 0;
			}
		}
		if (op >= cap && st->avail_out == 0 && produced == 0 && consumed == 0)
			break;
		if (r->calls > horizon) {
			r->stuck = 3;
			break;
		}
	}
	V_END();
	r->out_len = op;
	r->bstate = st->block_state;
	r->crc = st->crc;
}

static void drive_stateless(int crc_flag, const uint8_t *m, size_t mlen, uint8_t *outbuf, size_t cap, struct mres *r)
{
	struct inflate_state *st = g_alloc(sizeof *st, G_END);
	uint8_t *in = g_alloc(mlen, G_END), *out = g_alloc(cap, G_END);
	memcpy(in, m, mlen);
	g_readonly(in, 1);
	memset(r, 0, sizeof *r);
	if (!V_TRY()) {
		r->fault = 1;
		return;
	}
	isal_inflate_init(st);
	st->crc_flag = crc_flag;
	st->next_in = in;
	st->avail_in = (uint32_t)mlen;
	st->next_out = out;
	st->avail_out = (uint32_t)cap;
	r->ret = isal_inflate_stateless(st);
	V_END();
	r->calls = 1;
	/* on an error return the asm kernels leave avail_out in an adjusted (slop-subtracted) state; the property constrains memory
	 * writes and status codes, not the counters after an error, so they are only required to be consistent on non-error returns */
	size_t adv = (size_t)(st->next_out - out);
	r->out_len = adv <= cap ? adv : 0;
	if (adv > cap || (r->ret >= 0 && st->avail_out != cap - adv))
		r->stuck = 2;
	memcpy(outbuf, out, r->out_len);
	r->bstate = st->block_state;
	r->completed = r->ret == ISAL_DECOMP_OK && st->block_state == ISAL_BLOCK_FINISH;
	r->crc = st->crc;
}

/* judge one driver result against the reference verdict. expect_class: RC_* for single injected faults (0 = any) */
#define KF_GZHDR "isal_inflate: gzip header carrying FEXTRA/FNAME/FCOMMENT/FHCRC split across calls (isal_inflate re-initialises a local isal_gzip_header on every call, losing flags/hcrc/extra_len)"
static size_t J_FIRST_CHUNK; /* size of the first input chunk of the driver being judged (0 = whole input) */
static void judge(const char *desc, const char *drv, int crc_flag, int cpu, const uint8_t *m, size_t mlen, size_t cap, const struct mres *r, const uint8_t *got, int expect_class, int full_input)
{
	char key[700];
	snprintf(key, sizeof key, "%s mode=%s driver=%s cap=%zu cpu=%s", desc, cf_name[crc_flag], drv, cap, cpu_level_name[cpu]);
	/* known finding (see known_findings.txt): a gzip header with optional fields that is split across isal_inflate calls */
	if (crc_flag == ISAL_GZIP && mlen > 3 && (m[3] & 0x1e) && J_FIRST_CHUNK && J_FIRST_CHUNK < mlen) {
		size_t hdr_end = (MR.body_start && MR.body_start <= mlen) ? MR.body_start : mlen;
		if (J_FIRST_CHUNK < hdr_end)
			snprintf(key, sizeof key, "%s", KF_GZHDR);
	}
	int bad = 0;
	v_eval();
	if (r->fault) {
		v_violation(key, "fault at %s addr=%p (%s); bytes=%s", v_sym(v_fault_rip), (void *)v_fault_addr, v_fault_write ? "write" : "read", v_hex(m, mlen > 80 ? 80 : mlen));
		bad = 1;
	} else if (r->stuck) {
		v_violation(key, "%s after %d calls; bytes=%s", r->stuck == 1 ? "no progress although input and output space were available and no condition was reported" : r->stuck == 2 ? "avail_in/avail_out grew" : r->stuck == 4 ? g_last_damage() : "horizon exceeded (does not terminate)",
			    r->calls, v_hex(m, mlen > 80 ? 80 : mlen));
		bad = 1;
	} else if (!ret_documented(r->ret, !strcmp(drv, "stateless"))) {
		v_violation(key, "undocumented return code %d", r->ret);
		bad = 1;
	} else if (r->completed) {
		if (MR.verdict != RI_VALID) {
			v_violation(key, "reports completion (return %d, FINISH) but the reference decoder says: %s %s (%s); bytes=%s", r->ret, MR.verdict == RI_NEED_INPUT ? "incomplete stream" : "INVALID",
				    MR.verdict == RI_INVALID ? ri_class_name(MR.cls) : "", MR.why ? MR.why : "", v_hex(m, mlen > 80 ? 80 : mlen));
			bad = 1;
		} else if (r->out_len != MR.out_len || memcmp(got, mr_out, MR.out_len)) {
			v_violation(key, "completed with %zu bytes but the reference decodes %zu bytes / different content; bytes=%s", r->out_len, MR.out_len, v_hex(m, mlen > 80 ? 80 : mlen));
			bad = 1;
		} else if (M_CHECK_CRC_STATE && crc_flag != ISAL_DEFLATE) {
			int gz = crc_flag == ISAL_GZIP || crc_flag == ISAL_GZIP_NO_HDR || crc_flag == ISAL_GZIP_NO_HDR_VER;
			uint32_t want = gz ? ri_crc32(0, mr_out, MR.out_len) : ri_adler32(1, mr_out, MR.out_len);
			if (r->crc != want) {
				v_violation(key, "state.crc %08x after completion, reference checksum of the delivered bytes %08x", r->crc, want);
				bad = 1;
			}
		}
		v_count("completions_confirmed_by_reference", 1);
	} else {
		/* not completed */
		if (MR.verdict == RI_VALID && full_input && cap >= MR.out_len && r->ret >= 0 && r->ret != ISAL_NEED_DICT) {
			int complete_codes = 1;
			for (int b = 0; b < MR.nblocks; b++)
				complete_codes &= !MR.blk[b].ll_incomplete && !MR.blk[b].d_incomplete;
			if (complete_codes) {
				v_violation(key, "the reference decodes this as a valid stream (%zu bytes) but the codec neither completed nor reported an error (return %d state %d); bytes=%s", MR.out_len,
					    r->ret, r->bstate, v_hex(m, mlen > 80 ? 80 : mlen));
				bad = 1;
			}
		}
		if (!bad && r->ret < 0 && MR.verdict == RI_VALID && full_input) {
			int complete_codes = 1;
			for (int b = 0; b < MR.nblocks; b++)
				complete_codes &= !MR.blk[b].ll_incomplete && !MR.blk[b].d_incomplete;
			if (complete_codes) {
				v_violation(key, "error %d on a stream the reference decodes as valid with complete code sets; bytes=%s", r->ret, v_hex(m, mlen > 80 ? 80 : mlen));
				bad = 1;
			}
		}
		if (!bad && expect_class && full_input && cap >= MR.out_len) {
			static const int cls_ret[] = { 0, ISAL_INVALID_BLOCK, ISAL_INVALID_SYMBOL, ISAL_INVALID_LOOKBACK, ISAL_INVALID_WRAPPER, ISAL_UNSUPPORTED_METHOD, ISAL_INCORRECT_CHECKSUM, ISAL_NEED_DICT };
			if (expect_class == -1 ? r->ret >= 0 : r->ret != cls_ret[expect_class]) {
				v_violation(key, "single injected fault: expected %s, got return %d", expect_class == -1 ? "any error" : ri_class_name(expect_class), r->ret);
				bad = 1;
			}
			v_count("fault_classes_checked", 1);
		}
		if (r->ret < 0)
			v_count("rejections", 1);
	}
	if (!bad && g_check()) {
		v_violation(key, "%s", g_last_damage());
		bad = 1;
	}
	if (strcmp(key, KF_GZHDR))
		nfail += bad;
}

/* evaluate one candidate byte string under all drivers */
static void candidate(const char *desc, int crc_flag, const uint8_t *m, size_t mlen, int expect_class, uint64_t rot, int light)
{
	static uint8_t *got;
	if (!got) {
		got = malloc(MR_CAP + 1024);
		mr_out = malloc(MR_CAP);
	}
	struct ri_opts o;
	crc_flag_to_ref(crc_flag, &o);
	MR.out = mr_out;
	MR.out_cap = MR_CAP;
	ref_inflate(m, mlen, &o, &MR);
	if (MR.verdict == RI_OUT_FULL)
		return;
	size_t n = MR.out_len;
	if (MR.verdict != RI_VALID)
		v_nontrivial(v_hash(m, mlen, crc_flag));
	v_count(MR.verdict == RI_VALID ? "candidates_ref_valid" : MR.verdict == RI_NEED_INPUT ? "candidates_ref_truncated" : "candidates_ref_invalid", 1);
	size_t caps[6] = { 0, 1, n ? n - 1 : 0, n, n + 1, n + 300 };
	struct mres r;
	for (int ci = 0; ci < 3; ci++) {
		if (light && ci != (int)(rot % 3))
			continue;
		cpu_set_level(m_cpus[ci]);
		for (int c = 0; c < 6; c++) {
			if (light && c != 3 && c != 5 && c != 2)
				continue;
			J_FIRST_CHUNK = 0;
			drive_stateless(crc_flag, m, mlen, got, caps[c], &r);
			judge(desc, "stateless", crc_flag, m_cpus[ci], m, mlen, caps[c], &r, got, expect_class, 1);
			g_reset();
		}
		for (int c = 3; c < 6; c += 2) {
			J_FIRST_CHUNK = 0;
			drive_stream(crc_flag, m, mlen, got, caps[c], 0, 0, 0, &r);
			judge(desc, "isal_inflate", crc_flag, m_cpus[ci], m, mlen, caps[c], &r, got, expect_class, 1);
			g_reset();
		}
		if (nfail > 40)
			return;
	}
	int cpu = m_cpus[rot % 3];
	cpu_set_level(cpu);
	J_FIRST_CHUNK = 1;
	drive_stream(crc_flag, m, mlen, got, n + 300, 1, 0, 0, &r);
	judge(desc, "byte-at-a-time-input", crc_flag, cpu, m, mlen, n + 300, &r, got, expect_class, 1);
	g_reset();
	if (n <= 2000) {
		J_FIRST_CHUNK = 0;
		drive_stream(crc_flag, m, mlen, got, n + 300, 0, 1, 0, &r);
		judge(desc, "1-byte-output", crc_flag, cpu, m, mlen, n + 300, &r, got, expect_class, 1);
		g_reset();
	}
	if (!light)
		for (size_t s = 1; s < mlen && s <= 80; s++) {
			char d[32];
			snprintf(d, sizeof d, "split@%zu", s);
			J_FIRST_CHUNK = s;
			drive_stream(crc_flag, m, mlen, got, n + 300, 0, 0, s, &r);
			judge(desc, d, crc_flag, cpu, m, mlen, n + 300, &r, got, expect_class, 1);
			g_reset();
			if (nfail > 40)
				return;
		}
}

/* first-order mutation closure of one seed: every truncation, every single-bit flip, byte substitutions */
static void closure(const char *desc, int crc_flag, const uint8_t *seed, size_t slen, int all_values, uint64_t rot)
{
	static uint8_t *m;
	char d[420];
	if (!m)
		m = malloc(GS_MAXBODY + 4096);
	for (size_t t = 0; t < slen; t++) {
		snprintf(d, sizeof d, "%s truncated@%zu", desc, t);
		candidate(d, crc_flag, seed, t, 0, rot + t, 1);
		if (nfail > 40 || v_deadline_hit())
			return;
	}
	memcpy(m, seed, slen);
	for (size_t p = 0; p < slen; p++) {
		for (int b = 0; b < 8; b++) {
			m[p] = seed[p] ^ (uint8_t)(1 << b);
			snprintf(d, sizeof d, "%s bitflip@%zu.%d", desc, p, b);
			candidate(d, crc_flag, m, slen, 0, rot + p * 8 + b, 1);
		}
		int nv = all_values ? 256 : 5;
		for (int vi = 0; vi < nv; vi++) {
			uint8_t v = all_values ? (uint8_t)vi : vi == 0 ? 0x00 : vi == 1 ? 0xff : vi == 2 ? seed[p] ^ 0x01 : vi == 3 ? seed[p] ^ 0x80 : (uint8_t)(seed[p] + 1);
			if (v == seed[p] || (!all_values && (vi == 2 || vi == 3)))
				continue; /* ^01 and ^80 are already among the bit flips */
			m[p] = v;
			snprintf(d, sizeof d, "%s subst@%zu=%02x", desc, p, v);
			candidate(d, crc_flag, m, slen, 0, rot + p + vi, 1);
		}
		m[p] = seed[p];
		if (nfail > 40 || v_deadline_hit())
			return;
	}
}
#endif
