"""Property registry: which harness, which build flavours/parts, deadlines (quick, thorough) in seconds,
evidence level and the enumeration rule text written into the evidence file."""

PROPS = {}
NOT_APPLICABLE = {}
ENGINES = [
    {"name": "enum", "path": "engine/verif.c", "serves_properties": [], "kind_free_text": "bounded-exhaustive enumeration of named finite families, sharded over cores, guard-page arena, simulated CPU levels"},
]


def reg(pid, **kw):
    kw.setdefault("extra_src", [])
    kw.setdefault("assumptions", [])
    PROPS[pid] = kw


reg("C12", harness="c12_gf", level="exploration", deadline=(60, 300),
    technique="complete enumeration of a finite domain (all operand pairs/triples/table entries) against a bit-serial reference",
    level_text="The domain is finite (2^16 pairs, 2^24 triples, 256 constants x 32 entries, 256 GFNI matrices x 256 bytes) and is "
               "enumerated completely on the real gf_mul/gf_inv/gf_vect_mul_init/ec_init_tables code in the default and "
               "GF_LARGE_TABLES builds; exhaustive:true means exactly that.",
    level_note="trusted: the 20-line shift-and-xor reference multiply (ref/ref_gf.h) and, for GFNI, the SDM definition of GF2P8AFFINEQB "
               "(software model cross-checked with the real instruction on this host)",
    runs={"quick": [dict(flavour="sim"), dict(flavour="lgt")], "thorough": [dict(flavour="sim"), dict(flavour="lgt"), dict(flavour="rel")]},
    rule="complete enumeration of the finite domain: all 65536 (a,b) products and 256 inverses against a bit-serial carry-less "
         "reference, all 2^24 (a,b,c) triples for associativity/distributivity, all 256 constants x 32 table entries x 256 "
         "table-driven products, ec_init_tables over k x rows grids (base, dispatched under 7 simulated CPU levels, GFNI builder; "
         "GFNI matrices applied to all 256 bytes through a software model and the real vgf2p8affineqb); default and GF_LARGE_TABLES "
         "builds. distinct_nontrivial counts distinct (a,b) pairs and (grid,cpu-level) table builds.",
    assumptions=["reference multiply: shift-and-xor reduced by 0x11D, written independently (ref/ref_gf.h)"])


reg("C16", harness="c16_dispatch", level="model_checking", deadline=(120, 600), build_src=["isareq.c"], engine="simcpu",
    technique="explicit-state enumeration of every dependency-closed CPUID/XCR0 assignment, executing the real resolver code per state",
    level_text="The resolvers' complete observable input space (25 CPUID/XCR0 bits, SDM-closed: 45 400 assignments) is enumerated and every one "
               "of the 42 unmodified resolvers is executed in each state with cpuid/xgetbv answered by the harness; the selected "
               "implementation's instruction-set needs (classified from the built objects by recursive-descent disassembly) must be a subset "
               "of what the state offers; every distinct resolution vector is then materialised and a data-plane battery is run under it "
               "against independent references.",
    level_note="trusted: the SDM implication table in props/c16_dispatch.c, the hand-written mnemonic->extension table in engine/isaclass.py "
               "(fails closed on unknown mnemonics), objdump. Unexamined features (SSSE3, POPCNT, BMI1/2, LZCNT) fixed to co-generational values.",
    runs=[dict(flavour="sim")],
    rule="state = one dependency-closed assignment of the 25 examined CPUID.1:ECX/EAX, CPUID.7:EBX/ECX and XCR0 inputs; transition = one "
         "execution of a real <f>_dispatch_init under that assignment; invariants: executable, portable fallback, GFNI table/consumer pairing, "
         "no xgetbv without OSXSAVE; then each distinct 42-tuple of selections is materialised and the agreement battery (all public entries "
         "vs references) run. distinct_nontrivial = distinct resolution vectors materialised.")
