"""Property registry: which harness, which build flavours/parts, deadlines (quick, thorough) in seconds,
evidence level and the enumeration rule text written into the evidence file."""

PROPS = {}
NOT_APPLICABLE = {}
ENGINES = [
    {"name": "enum", "path": "engine/verif.c", "serves_properties": [], "kind_free_text": "bounded-exhaustive enumeration of named finite families, sharded over cores, guard-page arena, simulated CPU levels"},
]


def reg(pid, **kw):
    kw.setdefault("extra_src", [])
    kw.setdefault("assumptions", [])
    PROPS[pid] = kw


reg("C12", harness="c12_gf", level="exploration", deadline=(60, 300),
    technique="complete enumeration of a finite domain (all operand pairs/triples/table entries) against a bit-serial reference",
    level_text="The domain is finite (2^16 pairs, 2^24 triples, 256 constants x 32 entries, 256 GFNI matrices x 256 bytes) and is "
               "enumerated completely on the real gf_mul/gf_inv/gf_vect_mul_init/ec_init_tables code in the default and "
               "GF_LARGE_TABLES builds; exhaustive:true means exactly that. ec_init_tables grids reach k = 1024 and 67 600 / 75 000 coefficients (a value first met beyond entry 65536) "
               "and include rows with few distinct, constant and local-parity (zeros then ones) coefficients; the thorough tier builds a 16384 x 8193 grid (tables beyond 4 GiB).",
    level_note="trusted: the 20-line shift-and-xor reference multiply (ref/ref_gf.h) and, for GFNI, the SDM definition of GF2P8AFFINEQB "
               "(software model cross-checked with the real instruction on this host)",
    runs={"quick": [dict(flavour="sim"), dict(flavour="lgt")], "thorough": [dict(flavour="sim"), dict(flavour="lgt"), dict(flavour="rel")]},
    rule="complete enumeration of the finite domain: all 65536 (a,b) products and 256 inverses against a bit-serial carry-less "
         "reference, all 2^24 (a,b,c) triples for associativity/distributivity, all 256 constants x 32 table entries x 256 "
         "table-driven products, ec_init_tables over k x rows grids (base, dispatched under 7 simulated CPU levels, GFNI builder; "
         "GFNI matrices applied to all 256 bytes through a software model and the real vgf2p8affineqb); default and GF_LARGE_TABLES "
         "builds. distinct_nontrivial counts distinct (a,b) pairs and (grid,cpu-level) table builds.",
    assumptions=["reference multiply: shift-and-xor reduced by 0x11D, written independently (ref/ref_gf.h)"])


reg("C16", harness="c16_dispatch", level="model_checking", deadline=(120, 600), build_src=["isareq.c"], engine="simcpu",
    technique="explicit-state enumeration of every dependency-closed CPUID/XCR0 assignment, executing the real resolver code per state",
    level_text="The resolvers' complete observable input space (24 CPUID/XCR0 feature bits SDM-closed x 2 family/model signatures, the signature independent of the feature bits: 90 752 assignments) is enumerated and every one "
               "of the 42 unmodified resolvers is executed in each state with cpuid/xgetbv answered by the harness; the selected "
               "implementation's instruction-set needs (classified from the built objects by recursive-descent disassembly) must be a subset "
               "of what the state offers; every distinct resolution vector is then materialised and a data-plane battery is run under it "
               "against independent references.",
    level_note="trusted: the SDM implication table in props/c16_dispatch.c, the hand-written mnemonic->extension table in engine/isaclass.py "
               "(fails closed on unknown mnemonics), objdump. Unexamined features (SSSE3, POPCNT, BMI1/2, LZCNT) fixed to co-generational values; tzcnt (executes as bsf without BMI1) "
               "in a variant selectable without AVX2/AVX-512 must be in the reviewed list (function, count) in props/c16_dispatch.c.",
    runs=[dict(flavour="sim")],
    rule="state = one dependency-closed assignment of the 25 examined CPUID.1:ECX/EAX, CPUID.7:EBX/ECX and XCR0 inputs; transition = one "
         "execution of a real <f>_dispatch_init under that assignment; invariants: executable, portable fallback, GFNI table/consumer pairing, "
         "no xgetbv without OSXSAVE; then each distinct 42-tuple of selections is materialised and the agreement battery (all public entries "
         "vs references) run. distinct_nontrivial = distinct resolution vectors materialised.")


reg("C20", harness="c20_zero", level="exploration", deadline=(120, 900),
    technique="bounded-exhaustive enumeration of (variant x length x placement/alignment x non-zero position x value) with guard pages",
    level_text="Complete product over every ISA variant (5 direct symbols + the dispatcher under 6 simulated CPU levels), every length 0..600 "
               "(thorough 0..1100), 65 placements, every position of a single non-zero byte with 3 (thorough: up to 255) values; the region is "
               "flush against inaccessible pages so an out-of-range read faults, and neighbours are non-zero. Dense families on the same "
               "(variant, length, placement) grid: zeros + non-zero suffix, non-zero prefix + zeros, sliding 64- and 128-byte non-zero windows, "
               "every start, fill ff/01/80 (every byte lane of a vector block non-zero at once); cancelling pairs: a 1/2/4/8-byte word with one non-zero byte "
               "repeated or two's-complement negated at distance W, 2W, 16..128 at every offset (add / sub / xor accumulation would cancel); long regions of 64 KiB .. 4 MiB x 7 start "
               "alignments with a single non-zero byte at every offset of the first/last 640 bytes, around every power of two and every 4099th offset; watched regions: hardware data "
               "breakpoints on the byte in front of and the byte behind regions of 0..48 bytes at 16 interior offsets (an over-read that never crosses a page). Huge part: regions of 2^32-1 .. 2^32+16 MiB bytes "
               "(zero-page-backed mapping), all-zero and single non-zero bytes at the end / just beyond 4 GiB / in the middle, per variant.",
    level_note="lengths between N and 2^32-1 and multi-byte patterns other than runs (suffix/prefix/window) and cancelling pairs are not enumerated",
    runs=[dict(flavour="sim", part="sweep"), dict(flavour="sim", part="huge")],
    rule="case = (implementation, len, placement); for each: all-zero must give 0, a single non-zero byte at EVERY offset with each value "
         "and every member of the dense run families must give non-zero, with no access outside the region; distinct_nontrivial counts distinct (implementation, len) pairs completed; evaluations counts calls.")


reg("C04", harness="c04_crc", level="exploration", deadline=(240, 1500),
    technique="bounded-exhaustive enumeration (variant x length x alignment/placement x basis data x seeds x all split points) against bit-serial references",
    level_text="Every checksum variant (48 direct kernel symbols + 14 dispatched entries under 7 simulated CPU levels) is run over every length "
               "0..600 (thorough 0..2200), 65 guard-page placements/alignments, four designed data sets x four seeds, every unit impulse (each bit "
               "of each byte, len<=160/300), every single-bit seed, every split point (len<=200/400), every further length up to 6400 (thorough 20000: two periods of the 3072-byte / 5552-byte block structures, one placement and data set) and the large all-FF lengths, each compared "
               "with a bit-serial reference anchored to 10 published check values. Every kernel call is made with poisoned caller-saved registers. "
               "Huge part: messages of 2^32 .. 2^32+16 MiB bytes (zeros plus one non-zero byte at the end / just beyond 4 GiB / near the start) on "
               "every vector kernel and the dispatched entries; expected values from the reference via a zero-run operator measured from the reference.",
    level_note="lengths of 2^32 + k*5552 / + 2^18 / + 128 in the huge part (remaining counts that are multiples of 2^32 at a block end); the message buffer is write-protected during every call (a checksum only reads); every other call sets bits 63..32 of the registers that carry arguments narrower than 64 bits (unspecified by the psABI). CRCs are GF(2)-affine, Adler-32 affine mod 65521: the basis cases decide all data of those lengths only if the kernels have no "
               "data-dependent control flow (assumed; dense data checked). Lengths beyond the sweep are covered only by the listed large cases.",
    runs=[dict(flavour="sim", part="sweep"), dict(flavour="sim", part="huge")],
    rule="case = (implementation, len, placement, data, seed) or (implementation, len, impulse position/bit) or (implementation, len, split); "
         "distinct_nontrivial = distinct (implementation, len) pairs fully swept; evaluations = kernel calls compared with the reference.")


reg("C03", harness="c03_ec", level="exploration", deadline=(240, 1500),
    technique="bounded-exhaustive enumeration of kernel x shape (len, alignment, k, rows) sub-products + complete 256x256 multiplication table per kernel, guard pages",
    level_text="For each of the 46 dot-product/encode symbols and the dispatched ec_encode_data/gf_vect_dot_prod under 7 simulated CPU levels: "
               "(a) every len minlen..320 (thorough ..1100) x 64 source offsets x 5 destination offsets + end-flush placement at k=3, (b) 38 "
               "source counts up to 255, (c) rows 1..13 for the high-level entries, (d) all 256 coefficients x all 256 byte values through the "
               "kernel's main loop and tail (source and destination pointer arrays write-protected during the call), (g) special coefficient matrices (all 0 / all 1 / identity pattern / all 2 / one value per row / only the last column) at k in {1,4,10}, "
               "(e2) k = 32 / 40 with 1 MiB blocks and (e3) k = 171 / 200 / 255 x rows 4 / 7 / 10 x 8 KiB .. 32 KiB blocks for the high-level entries, (h) the high-level entries at the smallest shapes (k,rows) in {(1,1),(1,2),(2,1),(1,6)} x every length x 2 placements, (f) sparse sources: one source zero except a window of 1/8/24/32/64 bytes at every offset, the others zero or dense; "
               "outputs compared byte for byte with an independent GF(2^8) matrix product, sources read-only or "
               "compared, canaries and inaccessible pages around every buffer.",
    level_note="the full 5-way product is not claimed; the sub-products decide all data only under the no-data-dependent-branch assumption "
               "(kernels are linear maps); trusted: ref/ref_gf.h.",
    runs=[dict(flavour="sim")],
    rule="case = (implementation, len, k, rows, source placement, destination placement); distinct_nontrivial = distinct (implementation, len) / "
         "(implementation, k) / (implementation, rows) points completed; evaluations = kernel calls compared with the reference.")


reg("C13", harness="c13_update", level="exploration", deadline=(240, 1500),
    technique="bounded-exhaustive enumeration of update histories (all k! orders, k<=6) x kernel x shape, guard pages, vs independent full encode",
    level_text="For each of the 43 multiply-accumulate/update symbols and the dispatched ec_encode_data_update/gf_vect_mad under 7 CPU levels: every "
               "length minlen..320 (thorough ..1100) with accumulate onto non-zero parity at 17 placements, ALL k! update orders for k=1..6 (873 "
               "histories x 3 lengths) each ending with a doubled update that must cancel, k in {10,32,255} in three orders, rows 1..13, the "
               "full 256x256 multiplication table, k = 2^27 + 8 over a sparse table mapping for every assembly kernel, 64 / 65 / 100 / 200 parity rows at lengths 1..300 for the high-level entries, sparse sources (zero except a window of 1/8/24/32/64 bytes at every offset), special coefficient matrices; gf_vect_mul_{base,sse,avx,dispatched} for every len 0..700 (2200), also in place (source == destination) at every multiple of 32. Parity is compared with "
               "the reference after EVERY step of every history.",
    level_note="orders for k>6 are three designed ones; data-independence rests on the linearity assumption (dense xorshift data). trusted: ref/ref_gf.h",
    runs=[dict(flavour="sim")],
    rule="case = (implementation, len, k, rows, update history, placements); distinct_nontrivial = distinct (implementation, shape point) groups "
         "completed; evaluations = single update calls whose resulting parity was compared with the reference.")


reg("C08", harness="c08_raid", level="exploration", deadline=(300, 1500),
    technique="bounded-exhaustive enumeration (variant x vects x len x placement x basis data) and complete single-byte corruption closure, guard pages",
    level_text="Every RAID variant (13 direct symbols + 4 dispatched entries under 6 CPU levels): generation for vects=min..6 at every admissible "
               "length 0..600 (1200) in 3 placements with dense data and a unit impulse at every byte of every source (len<=256), vects up to 257; "
               "checks: consistent arrays give 0 and EVERY single-byte corruption (3 values) of EVERY vector incl. P and Q is reported for "
               "len<=256 (600), plus two-byte corruptions (first/last data, P, Q x same/other vector x distance 0,1,8,16,32,48,64,128 x equal or different deltas, "
               "the reference deciding per position whether the arrays are still consistent); below-minimum vects with unmapped arrays must be refused without a fault; every pair of lost data blocks is "
               "rebuilt from generated P/Q for vects<=10.",
    level_note="32767 / 32768 / 65535 / 65542 vectors (all but three sources one shared zero block) for every generation and check entry; sources and the pointer array are write-protected during generation; refresh cases pre-fill P/Q with the exact parity of data differing in one byte / one sector / nothing; during the check calls on consistent arrays all blocks and the pointer array are. Parity is GF(2)-linear in the sources: impulses + dense data decide all data under the no-data-dependent-branch assumption; "
               "trusted: ref/ref_gf.h (Q = Horner in 2 over 0x11D).",
    runs=[dict(flavour="sim")],
    rule="case = (implementation, vects, len, placement, data) / (implementation, vects, len, corrupted vector, position, value); "
         "distinct_nontrivial = distinct (implementation, vects, len) points completed; evaluations = calls compared with the reference.")


reg("C09", harness="c09_invert", level="exploration", deadline=(300, 1800),
    technique="bounded-exhaustive enumeration of matrix families, generator (m,k) pairs, survivor sets and parity-block minors against an independent rank/inverse",
    level_text="gf_invert_matrix on all 1x1, all 2x2 over a 16-element sub-alphabet (thorough: the full field, 2^32), all 3x3 over {0..3}, all 4x4 "
               "(thorough 5x5) over {0,1}, all scaled permutation matrices n<=6, rank-deficient constructions up to n=512, wide cyclic-shift families up to n=255 and "
               "n = 256, 257, 300, 520 (n is an int; zero pivots at every search distance); both generators for "
               "every (m,k), m<=255(256); Cauchy: every survivor set for m<=16 (20), all 1-,2-(3-)erasure minors for m in {64,128,255,256}, "
               "thorough all ~10^9 2x2 minors; Vandermonde: the documented safe table decided completely by enumerating every minor of its "
               "parity block; end-to-end encode/erase/invert/re-encode for all patterns m<=10 (12).",
    level_note="generator matrices are exact-size buffers ending at an inaccessible page (also the degenerate shapes m == k); end-to-end recovery also with 7, 8, 12, 13 and 19 erased fragments (m,k) = (14,7), (26,13), (32,13) at every simulated CPU level; general n x n (n>=5) and Cauchy survivor sets beyond the enumerated minors are theorems, not search results; trusted: ref/ref_gf.h "
               "Gaussian elimination.",
    runs={"quick": [dict(flavour="sim")], "thorough": [dict(flavour="sim"), dict(flavour="lgt")]},
    rule="case = one matrix / one (m,k) / one survivor set / one minor / one erasure pattern; distinct_nontrivial = distinct (m,k) and region "
         "groups completed; evaluations = inversions or determinants compared with the reference.")


reg("C01", harness="c01_deflate", level="exploration", deadline=(900, 2400), extra_src=["ref/ref_inflate.c"],
    technique="bounded-exhaustive enumeration of the full parameter product x simulated CPU levels x named input families, decoded by two independent decoders",
    level_text="Full product level x flush x wrapper x hist_bits x Huffman-table choice x level_buf size x API (one-shot, streaming one call, "
               "streaming 97/61-byte chunks) x 7 simulated CPU levels over the SHAPES family (~250 designed inputs) and, with a reduced "
               "wrapper set, ALL strings over {00,a,b} up to length 6 (8) and over {00,FF} up to length 10 (12); thorough adds BIG inputs "
               "(32 KiB..200 KB). Every distinct produced stream is decoded by the bit-serial reference AND zlib; both must return the input, "
               "consume the stream to its last byte and accept the trailer. Chunked calls hand every chunk over in its own buffer that is scribbled once "
               "consumed; a third of the cases puts the level buffer at an odd address. Reuse part: one stream object used for two one-shot calls "
               "(first call ample or refused at 5 output sizes, text/incompressible/mixed up to 2 MiB, levels x level buffers): the second call must "
               "decode to its input and equal a fresh object's output byte for byte. Encoder part: the ICF->bits kernels (base/_04/_06) on EVERY assignment "
               "of 16 token realisations (widths 2..48, dense around the per-lane limits) to the four lanes of a half-vector x both halves x bit "
               "phases 0..7, bit-exact against an independent concatenation of the codes. ADLEREDGE inputs (Adler-32 low word exactly 0, 1, 65520 at the end of the input "
               "or at a chunk boundary) go through the full product, so the zlib trailer is checked at the wrap-around points of the modulus. Many-blocks streams: 65 000 .. 131 060 flushed 8-byte calls followed by 2 MiB in one call (more than 2^16 / 2^17 blocks in ONE stream), levels 0-3, smallest and default level buffer, zlib-decoded. FIBDIST inputs (copies whose "
               "distance codes have Fibonacci frequencies) make the encoder's own distance trees exceed 15 levels; the evidence counts produced blocks with 15-bit "
               "distance and literal/length codes. Level-buffer sizes between the named constants on 300 000-byte inputs; a log-file-like data pattern next to the periodic text.",
    level_note="inputs outside the families are not covered; trusted: ref/ref_inflate.c (self-checked against zlib), zlib 1.2.13",
    runs={"quick": [dict(flavour="sim", part="sweep"), dict(flavour="sim", part="reuse"), dict(flavour="sim", part="encdf"), dict(flavour="lht", part="sweep")],
          "thorough": [dict(flavour="sim", part="sweep"), dict(flavour="sim", part="reuse"), dict(flavour="sim", part="encdf"), dict(flavour="h8k", part="sweep"), dict(flavour="lht", part="sweep")]},
    rule="case = (input, level, flush, wrapper, hist_bits, table, level_buf, api, cpu level); distinct_nontrivial = number of DISTINCT non-empty "
         "output streams (hash of bytes) that were produced and verified; evaluations = compress calls.")


reg("C02", harness="c02_inflate", level="exploration", deadline=(400, 2400), extra_src=["ref/ref_inflate.c"],
    technique="bounded-exhaustive enumeration of the deflate grammar (block sequences x token strings x code shapes x match length/distance sets) + foreign-encoder streams, x wrapper modes x APIs x decode kernels",
    level_text="Streams are generated from the grammar by an independent generator: all token strings of length <=2 (3) over an 8-token alphabet in "
               "fixed / balanced-dynamic / depth-15-dynamic blocks alone and after every kind of first block; a match sweep over 15 lengths x both "
               "ends of all 30 distance codes (thorough: all 256 lengths, all 32768 distances) after exact-length stored preambles; code shapes "
               "(depth-15 chains, 13-15-bit lit/len and 11-15-bit distance codes on the used symbols, single-code and empty alphabets, HLIT/HDIST "
               "at maximum, run-length coded headers incl. zero runs spelt with symbol 16 after a 17/18 run or an explicit 0, the LONGEST spelling (all 286+30 symbols coded, every length written with a 7-bit code-length code: ~286-byte headers), hand-made HCLEN=5; length 258 spelt as symbol 284 + extra bits 31 next to short-coded literals, in final and non-final blocks); >64 KiB outputs with distance-32768 matches; plus zlib-made streams "
               "(4 levels x 5 strategies x windowBits x memLevel). Each x up to 7 wrapper modes x {stateless, isal_inflate} x kernels "
               "{base,_01,_04} x 4 trailing-junk sizes; output, final state, status, reported input position and state.crc are compared with the reference. "
               "Window-edge part: every small token stream is placed behind a stored filler so that EVERY one of its output positions coincides "
               "in turn with isal_inflate's 65536-byte internal window edge and with the end of a large first caller buffer (direct-mode decode), "
               "with and without 5000 trailing bytes (multi-symbol lookup tables), on 3 kernels.",
    level_note="streams outside the enumerated grammar bound are not covered; trusted: ref/ref_gen.h generator + ref/ref_inflate.c, cross-checked "
               "against each other and zlib on every stream (gate).",
    runs={"quick": [dict(flavour="sim", part="streams"), dict(flavour="sim", part="edge"), dict(flavour="sim", part="neardefault"), dict(flavour="h8k", part="streams")],
          "thorough": [dict(flavour="sim", part="streams"), dict(flavour="sim", part="edge"), dict(flavour="h8k", part="streams"), dict(flavour="lht", part="streams"), dict(flavour="lht", part="edge"), dict(flavour="sim", part="neardefault")]},
    rule="case = (stream, wrapper mode, header variant, junk length, cpu level, api); distinct_nontrivial = distinct stream bodies (hash); "
         "evaluations = decode calls compared with the reference.")


ENGINES.append({"name": "explore", "path": "engine/explore.h", "serves_properties": ["C07", "C10", "C14", "C06", "C11", "C19"],
                "kind_free_text": "explicit-state DFS over the real isal_inflate/isal_deflate/header-reader transition function: memcpy snapshots of the context image, 128-bit keys over the normalised image, progress check from every state"})
ENGINES.append({"name": "simcpu", "path": "engine/simcpu.asm", "serves_properties": ["C16", "C01", "C02", "C03", "C04", "C08", "C13", "C20"],
                "kind_free_text": "cpuid/xgetbv inside the real resolvers answered by the harness (nasm pre-include); all dependency-closed configurations enumerated"})

reg("C07", harness="c07_stream", level="model_checking", deadline=(1000, 2400), extra_src=["ref/ref_inflate.c"], engine="explore",
    technique="explicit-state model checking of the real streaming codecs: DFS over all call histories from chunk/flush alphabets with state-image deduplication, plus single-split closure and uniform schedules",
    level_text="The state graph of the REAL isal_inflate (126 (in,out) choices per call) and isal_deflate (420 choices: in x out x flush x eos "
               "timing) is explored exhaustively with deduplication on the byte image of the context for short streams/inputs x levels x wrappers "
               "x CPU levels; on every transition bookkeeping, bytes written and output prefix are checked, at every terminal the result is "
               "compared with the one-shot/reference result, the SAME state object is recycled with isal_inflate_reset and must decode a next member (one call and 3-byte pieces) exactly, and from EVERY reachable state generous calls must terminate correctly (progress). "
               "Longer streams (up to >64 KiB output) are covered by the closure of all single split points and all uniform chunk-size pairs. "
               "Stored-fallback family: 300 000 (1 MiB) incompressible / mixed bytes x levels 1-3 x 8 level-buffer sizes (the named ones and the sizes half-way "
               "between them) x 6 (7) input piece sizes x 3 output piece sizes, every piece in its own mapping that is scribbled once consumed. Big-then-tiny histories "
               "on 150 000-byte inputs: a call given 2000..100 000 bytes (below and above the internal staging buffer) with 1..4000 bytes of output, then a call "
               "presenting 0/1/7/300 bytes with any flush kind, for every named level-buffer size; the stream object sits directly behind an inaccessible page every other run.",
    level_note="inflate tiny-then-big family: a 200 000-byte zlib-made stream fed one input byte per call until 33 000 / 40 000 / 70 001 bytes are out, then all input with 32638..32768 bytes of output space; the last-buffer flag end_of_stream takes the values 1, 2 and 0x100; the >4 GiB big-stream part of C11 (1 MiB input pieces, noise around offset 2^32, small output pieces) is run under this property as well; chunk sizes outside the alphabets and histories on long streams beyond single-split/uniform are not covered; flush budget <=1 (2) "
               "and <=2 consecutive empty calls bound the deflate graph; a graph that hits its state cap is reported (exhaustive:false).",
    runs={"quick": [dict(flavour="sim", part="inflate"), dict(flavour="sim", part="deflate"), dict(flavour="sim", part="deflate-layers"), dict(flavour="sim", harness="c11_checksum", part="isize")],
          "thorough": [dict(flavour="sim", part="inflate"), dict(flavour="sim", part="deflate"), dict(flavour="sim", part="deflate-layers"),
                       dict(flavour="h8k", part="inflate"), dict(flavour="lht", part="deflate-layers"), dict(flavour="sim", harness="c11_checksum", part="isize")]},
    rule="state = normalised image of inflate_state / isal_zstream+level_buf + cursor; transition = one real API call under one environment "
         "choice; traces_validated_against_impl = root-to-terminal paths (all are implementation executions); distinct_nontrivial = graphs and "
         "stream/cpu combinations completed.")


reg("C14", harness="c14_flush", level="model_checking", deadline=(540, 2400), extra_src=["ref/ref_inflate.c"], engine="explore",
    technique="explicit-state exploration of the real isal_deflate with flush requests as per-call choices (flush budget 2); every reachable flush point checked; flush-position sweeps; one-shot pair closure",
    level_text="Every flush point reachable in the deflate state graphs (all call histories over in/out/flush/eos alphabets, up to 2 flush requests "
               "at any position, SYNC/FULL in any mix) is checked: marker 00 00 FF FF on a byte boundary, the prefix decodes (reference, prefix "
               "mode) to exactly the input handed over so far, state NEW_HDR; at every terminal each FULL-flush suffix is decoded with an EMPTY "
               "window. Longer repetitive inputs: one or two flush requests at every call index / pair of indices; exact-fit histories: the flushing call offers "
               "exactly the room left in the internal staging buffer (read from the live object after 6 kinds of earlier calls) -2..+2 bytes; pending-flush histories: after a "
               "completed FULL_FLUSH segment of 3000..40000 bytes a short flushing call (1..8191 bytes) with 1..100 bytes of output, then draining calls with or without more "
               "input; bytewise-steered pending-marker histories (new input with FULL_FLUSH arriving exactly between end-of-block and marker); in histories whose flushes are all FULL the stream must "
               "decode from behind EVERY marker, also one completed in the middle of a later call; the stream object sits directly behind an inaccessible page every other run. One-shot: all ordered pairs "
               "from 48 inputs x levels x 3 CPU levels: FULL_FLUSH output is unterminated + byte aligned and concatenates into one valid stream.",
    level_note="flush budget 2 in graphs; positions sweep uses uniform input chunks; trusted: ref/ref_inflate.c window/distance accounting.",
    runs={"quick": [dict(flavour="sim", part="graphs"), dict(flavour="sim", part="positions"), dict(flavour="sim", part="stateless")],
          "thorough": [dict(flavour="sim", part="graphs"), dict(flavour="sim", part="positions"), dict(flavour="sim", part="stateless"), dict(flavour="h8k", part="positions")]},
    rule="state/transition as in C07; a flush point = SYNC/FULL call returning with avail_in==0 and avail_out>0; distinct_nontrivial = graphs, "
         "(input,level,cpu) position sweeps and (A,B) pairs completed.")


reg("C10", harness="c10_bound", level="model_checking", deadline=(720, 1800), extra_src=["ref/ref_inflate.c"], engine="explore",
    technique="bounded-exhaustive sweep of every avail_out value around and below the documented bound with guard pages + explicit-state exploration of all output-chunk sequences for termination + invalid-parameter enumeration",
    level_text="(i) one-shot compression for all strings over {00,a,b} up to length 4 (6) and the SHAPES/BIG inputs x levels x wrappers x flush x 3 CPU "
               "levels with EVERY avail_out from 0 to bound+16 (window around the bound for long inputs); the output buffer ends at an "
               "inaccessible page; success must be a complete decodable stream within the bound, failure must be STATELESS_OVERFLOW and only "
               "below the bound; counters must equal bytes moved. (ii) the state graph of isal_deflate with end_of_stream set under ALL "
               "sequences of non-empty output chunk sizes: every path reaches ZSTATE_END, every call progresses (level 0 also with the RFC "
               "fixed tables and with a hostile custom table that expands the input). (ii-a) big-then-tiny histories on 150 000-byte inputs (log-like / mixed data): a call "
               "given 2000..100 000 bytes with 1..4000 bytes of output, then a call presenting 0/1/7/300 bytes with any flush kind, all named level buffers: exact "
               "bookkeeping and termination; avail_out of 2^31-1 .. 2^32-1 (zero-page-backed mapping) for both compression and both decompression entry points must give the same "
               "bytes and exact counters as a small ample buffer; isal_deflate_stateless on runs of 1 MiB .. 1 GiB (thorough 4 GiB - 1) equal 00 / ff bytes x 11 output sizes in exact-size guarded mappings (COMP_OK only with a stream that fits and decodes, else STATELESS_OVERFLOW). (ii-b) the state graph with the input arriving in "
               "several pieces ({0,1,8,rest} x output {0,1,2,5,10,rest} x flush kinds x late end_of_stream): no call writes beyond avail_out "
               "(guard pages) and counters equal bytes moved on every transition. (ii-c) multi-block streams with block-type transitions "
               "(KiBs of text + incompressible + text, minimum level buffer): EVERY first-output-buffer size up to the stream size and every uniform "
               "buffer size up to 700, guard page behind each buffer, counters per call, final stream decoded. (iii) invalid level/flush/"
               "level_buf combinations are refused with a documented code before any output.",
    level_note="termination is decided for the listed inputs and chunk alphabet {1,2,7,8,9,15,16,17,rest}; trusted: ref/ref_inflate.c",
    runs=[dict(flavour="sim", part="oneshot"), dict(flavour="sim", part="termination"), dict(flavour="sim", part="space"), dict(flavour="sim", part="mixed"), dict(flavour="sim", part="params")],
    rule="case = (input, level, wrapper, flush, cpu, avail_out); state/transition as in C07 for the termination graphs; distinct_nontrivial = "
         "distinct successful streams, graphs and parameter cases.")


reg("C06", harness="c06_mutants", level="fault_enumeration", deadline=(360, 2400), extra_src=["ref/ref_inflate.c"],
    technique="complete first-order mutation closure (every truncation, single-bit flip, byte substitution) of grammar-generated seeds + all byte strings up to length 2 (3) + injected grammar faults, x drivers x kernels, judged by the reference decoder's verdict on the mutated bytes",
    level_text="For each seed stream (<=64 bytes, every block type / code shape, raw-gzip-zlib-NO_HDR_VER framing; plus ISA-L's default-header streams and the 35 longest-header streams of up to ~330 bytes) the COMPLETE closure of truncations, "
               "single-bit flips and byte substitutions {00,FF,+1} is decoded by the real inflate under one-shot (6 output capacities), streaming, "
               "byte-at-a-time input, 1-byte output and (seeds/faults) every 2-split, kernels base/_01/_04; plus ALL byte strings of length <=2 "
               "(thorough 3) in all 7 modes and ~70 single injected grammar/wrapper faults with their documented error class (incl. both alphabets over-subscribed by ONE extra code at every depth 2..15). Completion is "
               "accepted only if the independent decoder finds the mutated bytes valid with equal output; guard pages catch any write beyond "
               "avail_out; a driver horizon catches non-termination.",
    level_note="second-order mutants and seeds beyond 64 bytes are not enumerated; trusted: ref/ref_inflate.c verdict/classification.",
    runs={"quick": [dict(flavour="sim", part="faults"), dict(flavour="sim", part="short"), dict(flavour="sim", part="closure"), dict(flavour="sim", part="explore")],
          "thorough": [dict(flavour="sim", part="faults"), dict(flavour="sim", part="short"), dict(flavour="sim", part="closure"), dict(flavour="sim", part="explore"),
                       dict(flavour="h8k", part="closure")]},
    rule="case = (candidate bytes, mode, driver, output capacity, kernel); a candidate is non-trivial iff the reference verdict differs from "
         "VALID (truncated or invalid); distinct_nontrivial counts distinct such candidates (hash of bytes+mode).")


reg("C11", harness="c11_checksum", level="fault_enumeration", deadline=(600, 2400), extra_src=["ref/ref_inflate.c"],
    technique="complete single-bit/byte corruption and truncation closure at every offset (header, body, trailer) of wrapped seed streams x all drivers x kernels, judged by the independent decoder incl. its own CRC-32/Adler-32; producer trailers verified for every chunking",
    level_text="Verifier: seeds in gzip / zlib / *_NO_HDR_VER framing (empty, stored, fixed, dynamic payloads; a payload whose CRC-32 contains a zero "
               "byte; a gzip header with FEXTRA+FNAME+FCOMMENT+FHCRC) are closed under every truncation, every single-bit flip and {00,FF,+1} "
               "substitutions at EVERY offset and decoded under one-shot (6 capacities), streaming, byte-at-a-time, 1-byte-output and every "
               "2-split drivers on kernels base/_01/_04: success only if the reference accepts the mutated bytes with the same output, and "
               "state.crc must equal the reference checksum; also 1..8 bytes inserted in front of the trailer with 0 / 9 / 40 bytes appended (input that continues past the member). Producer: trailers of all levels x 4 wrapper modes x 5 chunkings x 4 CPU levels "
               "are recomputed independently. Streams of 2^32+77782 bytes (32-bit total_in/total_out and ISIZE wrap, 16-bit hash indices) go through "
               "isal_deflate in 1 MiB pieces (quick: levels 0-1 on constant data; thorough: all levels x constant / mixed data): trailer against the "
               "reference, then decoded again by isal_inflate (gzip verification) and zlib and compared with the input; two more kinds put 4 MiB of noise around offset 2^32 behind a flush that pins a "
               "block start just before it (ample output at level 3; 4096-byte output pieces and an in-between level buffer at level 1), so that a stored block straddles the wrap of the 32-bit "
               "offsets; the stream object sits directly behind an inaccessible page. One-shot producer with the output space swept from 12 bytes "
               "under the documented bound to the bound on incompressible inputs of 65535..131072 bytes (whatever returns COMP_OK must carry its trailer). Boundary part: a payload whose running Adler-32 "
               "halves pass through 0, 1, 65519, 65520 is split at EVERY position (output split for the verifier in 4 modes x 2 encodings, input "
               "split x 3 flush kinds x 4 levels for the producer) on the base/sse/avx2 Adler kernels, plus every boundary-valued prefix as a whole payload.",
    level_note="multi-bit corruptions that preserve CRC-32/Adler-32 are outside first-order closure (checksums are not collision-free); trusted: "
               "ref CRC-32/Adler-32 (bit-serial definition) and ref_inflate.",
    runs=[dict(flavour="sim", part="verifier"), dict(flavour="sim", part="producer"), dict(flavour="sim", part="boundary"), dict(flavour="sim", part="isize")],
    rule="case = (mutated wrapped stream, driver, capacity, kernel) / (input, level, wrapper, chunking, cpu); a candidate is non-trivial iff the "
         "reference verdict is not VALID; distinct_nontrivial counts those plus distinct produced streams.")


reg("C19", harness="c19_headers", level="model_checking", deadline=(300, 1500), extra_src=["ref/ref_inflate.c"], engine="explore",
    technique="full field-value product for the writers against an independent RFC producer + explicit-state exploration of the real header reader over all input chunkings and buffer-growth schedules",
    level_text="Writers: the complete product of gzip header fields (18 432 combinations) x 5 output sizes around the required size (and, for the reader-side capacity fields, exact / zero / roomy / huge values, "
               "which the writer must ignore) and all zlib "
               "header field combinations are compared byte for byte with an independent RFC 1952/1950 producer (itself cross-checked with zlib's "
               "inflateGetHeader); too-small output must return the required size and leave stream and buffer untouched. Readers: for every "
               "header of a field product the state graph of the real isal_read_gzip_header under ALL chunk sequences from {0,1,2,rest} and 7 "
               "buffer-size modes plus every proper subset of fields discarded (NULL) while the others are collected x 2 growth policies (overflow -> larger buffer keeping delivered bytes -> resume) is explored; recovered fields, "
               "stop position and statuses are checked; zlib reader under every composition of the header; all byte strings up to length 3 as headers; avail_in of 2^31-1 .. 2^32-1 (a whole mapped file "
               "handed over in one call, zero-page-backed mapping) for both header readers and both inflate entry points; at every terminal of the reader graphs a copy of the state "
               "continues (second header parse; empty / 1-byte / rest inflate calls) and must behave like a state that parsed the header in one call; recycled states: every prefix of 54 headers abandoned (header reader with/without buffers, isal_inflate) -> isal_inflate_reset -> a second header with all / exactly one optional field in one or two calls; likewise zlib and gzip headers abandoned at every byte followed, after the reset, by a zlib (with / without FDICT) or gzip header cut at every byte.",
    level_note="field values outside the product and chunk sizes outside {0,1,2,rest} are not covered; trusted: ref/ref_hdr.h",
    runs=[dict(flavour="sim", part="writer"), dict(flavour="sim", part="reader")],
    rule="writer case = (field combination, avail_out); reader state = image of inflate_state head + isal_gzip_header + caller buffers + cursor, "
         "transition = one real isal_read_gzip_header call; distinct_nontrivial = distinct headers written + reader graphs completed.")


reg("C18", harness="c18_huff", level="exploration", deadline=(600, 1800), extra_src=["ref/ref_inflate.c"],
    technique="bounded-exhaustive enumeration of histograms (all weight assignments over symbol subsets, depth-breaker families, collector outputs) with independent re-parse of the stored header and entry-by-entry decode of the packed tables; set_hufftables tried at every state of explored level-0 graphs",
    level_text="For 12 symbol subsets mixing literal/EOB/length/distance positions ALL 8^5 (8^6) weight assignments from {0,1,2,2^10,2^20,2^30,2^43,"
               "2^44-1}, Fibonacci and power-of-two prefixes (17..40 lit/len x 16..30 distance symbols), constants, single symbols and histograms "
               "from every collector variant on SHAPES, and the asymmetric family (each of the 30 distance symbols x chosen length symbols x a "
               "literal alone at the bottom of a chain of narrow symbols, everything else heavy), and the mixed-magnitude family (8..253 literals at 2^43 / 2^44-1 next to literals "
               "with counts 1..3, total beyond 2^48): both builders must succeed; the stored dynamic header is parsed by the independent decoder "
               "to complete codes <= 15 bits; every one of the 257+256+30(+dist table) packed entries, emitted as the encoder emits it, decodes to "
               "its symbol; worst-case payloads (incl. the widest literal directly before the match with the widest length and distance codes, "
               "derived from the parsed header, both parities) and the source data round-trip at level 0 (all flush modes, 3 kernels). Installing a table is "
               "attempted at every state of level-0 deflate graphs: accepted iff no block is open, refusals change nothing.",
    level_note="histograms outside the weight alphabet/subsets are not enumerated; entry emission re-states igzip/huffman.h getters; trusted: ref_inflate header parser.",
    runs={"quick": [dict(flavour="sim", part="weights"), dict(flavour="sim", part="shapes"), dict(flavour="sim", part="install"), dict(flavour="lht", part="shapes")],
          "thorough": [dict(flavour="sim", part="weights"), dict(flavour="sim", part="shapes"), dict(flavour="sim", part="install"), dict(flavour="lht", part="shapes"), dict(flavour="lht", part="weights"), dict(flavour="h8k", part="shapes")]},
    rule="case = (histogram, builder); distinct_nontrivial = distinct histograms; evaluations = builder calls + table decodes + round trips.")


reg("C17", harness="c17_window", level="exploration", deadline=(300, 1800), extra_src=["ref/ref_inflate.c"],
    technique="bounded-exhaustive enumeration of repeats at distances around 2^w and 32768/65536 x window sizes x levels x flush x APIs x CPU levels with a distance-measuring reference decoder and a window-limited foreign decoder; dictionary length/content/level/API products",
    level_text="Inputs with a repeat exactly at distances 2^w-2..2^w+2 (w=9..15 and default), periodic inputs of those periods and repeats around "
               "65536 are compressed for every level x flush x wrapper x API (one-shot, one call, 4 KiB chunks) x 6 CPU levels; the reference "
               "decoder measures the maximum match distance (<= 2^w, <= 32768, never before the start) and zlib with a 2^w window and 1-byte "
               "output chunks must accept the stream; the zlib header must advertise >= the window. Dictionaries of 10 lengths (1..70000) x 4 data "
               "shapes x levels x 3 CPU levels: stream(dict) decodes with the last 32 KiB as history, equals stream(last 32 KiB only) and the "
               "process_dict/reset_dict stream, round-trips through isal_inflate_set_dict and zlib, each x hist_bits {default, 9, 12} assigned before or "
               "after the dictionary call; dictionaries installed MID-STREAM after a completed SYNC/FULL flush (8 first-part lengths incl. 65535/65536/"
               "65537 x 3 dictionary lengths x both routes): the rest of the stream decoded with the dictionary as its only history must be the rest "
               "of the input with no match in front of the dictionary; window-edge family: period-2^w noise with a marker at the cut and two windows back "
               "(hash entry aliasing to distance exactly 2^w, real history byte different), history = earlier call or dictionary, w in {9,10,12,14,15}: "
               "the result must decode within a 2^w window; every other stream object is recycled (a 512-byte-window stream, then isal_deflate_reset) and starts directly behind an inaccessible page; zlib streams that announce their dictionary (FDICT, made by deflateSetDictionary, dictionaries up to 70 000 bytes) go through ISAL_NEED_DICT / isal_inflate_set_dict; every isal_deflate_reset_dict must leave the (shared) pre-processed dictionary object unchanged; length sweep: 16-symbol noise of period 2^w+1 (every position repeats just outside the window) at EVERY "
               "length in a range of 4300 consecutive values x levels 1-3 x 6 CPU levels; wrong-state calls are refused with the context image unchanged.",
    level_note="inputs beyond the designed families are not covered; h8k/lht builds are run in the thorough tier; trusted: ref_inflate distance accounting.",
    runs={"quick": [dict(flavour="sim", part="window"), dict(flavour="sim", part="dict")],
          "thorough": [dict(flavour="sim", part="window"), dict(flavour="sim", part="dict"), dict(flavour="h8k", part="window"), dict(flavour="lht", part="window")]},
    rule="case = (input, hist_bits, level, flush, wrapper, api, cpu) / (dictionary length, data shape, level, cpu, API); distinct_nontrivial = "
         "distinct verified streams / dictionary cases.")


ENGINES.append({"name": "pcall", "path": "engine/pcall.S", "serves_properties": ["C03", "C04", "C05", "C08", "C13", "C20"],
                "kind_free_text": "call trampoline that owns the register state at kernel entry: every caller-saved vector and opmask register, rax/r10/r11 and the arithmetic flags are set to a poison pattern (all-ones / a5) before each enumerated kernel call, so a result that depends on what an earlier call left in a register the ABI does not preserve fails deterministically"})
ENGINES.append({"name": "sched", "path": "engine/vsched.h", "serves_properties": ["C15"],
                "kind_free_text": "hook-free serialising scheduler: library-owned writable memory is PROT_NONE, every access faults, W-granule accesses are scheduling points, the instruction is single-stepped (TF); stateless DFS over schedules with iterative preemption bounding"})

reg("C15", harness="c15_reentrant", level="model_checking", deadline=(720, 2400), extra_src=["ref/ref_inflate.c"], engine="sched",
    technique="stateless model checking of thread interleavings under a controlled scheduler over page-fault-intercepted accesses to library-owned memory (all interleavings for single-slot cold starts, preemption-bounded for multi-slot), plus write-monitor, pre-fill and reuse-history enumeration",
    level_text="(b) For each of the 26 public dispatched entry points, 2 and 3 threads make their first call concurrently and ALL interleavings of "
               "their accesses to library-owned writable memory are executed on the real code (1680 schedules for 3 threads) under real CPUID and "
               "simulated CPU levels; codec/EC calls that resolve several slots are explored with preemption bound 2 (3); every thread must return "
               "the serial value, the final slots must equal the serial selection, nothing but dispatch slots may be written. (a) right after implementation "
               "selection - before the first data-plane call of the process, so lazily built state is caught too - the "
               "library's writable segment is made read-only and the whole battery + extra workload runs at 7 CPU levels. (c) contexts, level "
               "buffers, outputs and decoder states pre-filled with 5 patterns give identical results, with a dictionary (set_dict and process_dict+reset_dict, 3 lengths) "
               "also the caller's struct isal_dict, 6 patterns; the same input bytes at 9 start offsets (and 2 output offsets) must give identical streams (placement part); inflate (both APIs, 3 kernels) on the stale-decode-"
               "table fault streams gives the same verdict and output on states pre-filled with 5 patterns and on states left behind by decoding a "
               "valid sibling stream (then reset / re-init). (d) every operation history of depth <= 2 "
               "(3) over 21 operations followed by reset or init behaves like a fresh context.",
    level_note="interleavings are sequentially consistent at instruction granularity (TSO covered by the Promela slot model, models/slot_tso.pml); "
               "preemption bound <= 2/3 for multi-slot cold starts; the scheduler self-test (racy toy found, atomic toy silent) runs first.",
    runs=[dict(flavour="sim", part="sched"), dict(flavour="sim", part="tso", shards=1), dict(flavour="sim", part="writemon"), dict(flavour="sim", part="prefill"), dict(flavour="sim", part="reuse")],
    rule="state = scheduling point (a thread about to access a written granule), transition = one thread step on the real code, "
         "traces_validated_against_impl = complete schedules executed; plus (case x pre-fill pattern) and (history) enumerations; "
         "distinct_nontrivial = explorations, monitored levels and distinct compared outputs.")


reg("C05", harness="c05_memory", level="fault_enumeration", deadline=(1500, 3000), extra_src=["ref/ref_inflate.c"],
    technique="enumeration of (entry point x variant x length x placement) with every buffer flush against inaccessible pages, read-only inputs, per-chunk mappings revoked on recycle; portable-C build under AddressSanitizer; NDEBUG build",
    level_text="Every data-plane call is made with each source/destination/table/level buffer exactly sized and ending (or starting) at a "
               "PROT_NONE page, inputs mapped read-only, canaries on the other side: one-shot and single-call codecs over the SHAPES inputs x levels x "
               "wrappers x table choices x 7 CPU levels (level_buf exactly ISAL_DEF_LVLx_MIN, output exactly the documented bound, inflate input "
               "with no slop bytes); streaming with every chunk in its own exact-size mapping that is made inaccessible as soon as it is recycled "
               "(uniform (in,out) chunk pairs x levels x flush modes); large chunks (345 000 bytes in 2 or 3 pieces, incompressible and mixed, levels 1-3 x "
               "level-buffer classes) with the first-chunk length swept byte by byte behind every block boundary the codec chose, the consumed chunk "
               "inaccessible during the next call and the result decoded by the reference; the same large incompressible input in one chunk with the FIRST "
               "output buffer swept byte by byte around every block boundary p (p+d and p-65824+d: where a stored block is cut by the end of the "
               "output buffer), all objects exact-size; the same harness on the portable-C build under ASan/UBSan and on the NDEBUG "
               "build; and the complete kernel sweeps (CRC, erasure code, update, RAID, zero detect: every length x end-flush and start-flush "
               "placements x every ISA variant) re-run under this property; the gzip header writer with name / comment / extra in exact-size mappings ending at an inaccessible page, terminated and unterminated (C19 writer part).",
    level_note="abi probe (props/c05_abi.c): every EC / RAID / constant-multiply entry point once with clean registers and once with bits 63..32 of all int arguments set (84 assembly entry points fail: known finding, listed one by one); the >4 GiB big-stream part of C11 (stream object front-guarded, noise around offset 2^32) is run under this property as well; an out-of-range access that lands inside another live buffer of the same call needs an offset beyond the 1 MiB guard bands; "
               "intra-struct overflows are visible only in the ASan flavour (portable C code, not the assembly kernels).",
    runs=[dict(flavour="sim", part="exact"), dict(flavour="sim", part="revoke"), dict(flavour="sim", part="bigchunks"), dict(flavour="sim", part="bigout"), dict(flavour="rel", part="exact,revoke"), dict(flavour="noarch", part="exact,revoke,bigchunks"),
          dict(flavour="sim", harness="c20_zero"), dict(flavour="sim", harness="c04_crc"), dict(flavour="sim", harness="c03_ec"),
          dict(flavour="sim", harness="c13_update"), dict(flavour="sim", harness="c08_raid"), dict(flavour="sim", harness="c11_checksum", part="isize"),
          dict(flavour="sim", harness="c05_abi", part="abi", shards=1), dict(flavour="sim", harness="c19_headers", part="writer")],
    rule="case = (entry point, variant / CPU level, input or length, placement); a fault, canary damage or sanitizer report is a violation; "
         "distinct_nontrivial = distinct produced streams, chunk schedules and (implementation, length) sweep points completed.")
