/* C08 - RAID parity generation is exact; checks are sound and complete; below-minimum arguments are refused. */
#include "verif.h"
#include "ref_gf.h"
#include "raid.h"
#include <sys/mman.h>

typedef int (*raid_fn)(int, int, void **);
extern int xor_gen_avx512(int, int, void **), pq_gen_avx512(int, int, void **);
enum { R_XOR_GEN, R_PQ_GEN, R_XOR_CHECK, R_PQ_CHECK };
struct rimpl { const char *name; int op; raid_fn f; int align; int lenmult; int level; };
static struct rimpl impls[96] = {
	{ "xor_gen_base", R_XOR_GEN, xor_gen_base, 32, 1, -1 }, { "xor_gen_sse", R_XOR_GEN, xor_gen_sse, 16, 1, -1 },
	{ "xor_gen_avx", R_XOR_GEN, xor_gen_avx, 32, 1, -1 },   { "xor_gen_avx512", R_XOR_GEN, xor_gen_avx512, 32, 1, -1 },
	{ "pq_gen_base", R_PQ_GEN, pq_gen_base, 16, 16, -1 },   { "pq_gen_sse", R_PQ_GEN, pq_gen_sse, 16, 16, -1 },
	{ "pq_gen_avx", R_PQ_GEN, pq_gen_avx, 16, 16, -1 },     { "pq_gen_avx2", R_PQ_GEN, pq_gen_avx2, 32, 32, -1 },
	{ "pq_gen_avx512", R_PQ_GEN, pq_gen_avx512, 32, 32, -1 },
	{ "xor_check_base", R_XOR_CHECK, xor_check_base, 16, 1, -1 }, { "xor_check_sse", R_XOR_CHECK, xor_check_sse, 16, 1, -1 },
	{ "pq_check_base", R_PQ_CHECK, pq_check_base, 16, 16, -1 },   { "pq_check_sse", R_PQ_CHECK, pq_check_sse, 16, 16, -1 },
};
static int nimpl = 13;
#define VMAX 260
#define NMAX 4096
static uint8_t *M[VMAX];
static long nfail;

static int minv(int op) { return op == R_XOR_GEN ? 3 : op == R_XOR_CHECK ? 2 : 4; }

/* reference parity of sources arr[0..nsrc) into p,q */
static void ref_pq(uint8_t **src, int nsrc, int len, uint8_t *p, uint8_t *q)
{
	for (int j = 0; j < len; j++) {
		uint8_t pp = 0, qq = 0;
		for (int i = nsrc - 1; i >= 0; i--) {
			pp ^= src[i][j];
			qq = rgf_mul_slow(qq, 2) ^ src[i][j];
		}
		p[j] = pp;
		if (q)
			q[j] = qq;
	}
}

static void *place(int len, int align, int pl)
{
	return pl == 0 ? g_alloc_end_aligned(len, align) : g_alloc_off(len, pl == 1 ? 0 : align);
}

/* generation: data mode 0 xorshift, 1 zero + impulse (isrc, ipos, ival) */
static int GEN_REFRESH;
static void gen_case(const struct rimpl *im, int vects, int len, int pl, int imp_src, int imp_pos, uint8_t imp_val)
{
	char key[256];
	int npar = im->op == R_PQ_GEN ? 2 : 1, nsrc = vects - npar;
	void **arr = g_alloc((vects > 0 ? vects : 0) * sizeof(void *), G_END); /* exactly `vects` pointers, then an inaccessible page */
	uint8_t *src[VMAX];
	for (int i = 0; i < nsrc; i++) {
		src[i] = place(len, im->align, pl);
		if (imp_src < 0)
			memcpy(src[i], M[i], len);
		else {
			memset(src[i], 0, len);
			if (i == imp_src)
				src[i][imp_pos] = imp_val;
		}
		g_readonly(src[i], 1);
		arr[i] = src[i];
	}
	uint8_t *P = place(len, im->align, pl), *Q = npar == 2 ? place(len, im->align, pl) : NULL;
	memset(P, 0xAA, len);
	arr[nsrc] = P;
	if (Q) {
		memset(Q, 0x55, len);
		arr[nsrc + 1] = Q;
	}
	if (GEN_REFRESH && nsrc > 0 && len > 0) {
		/* parity refresh: the destination already holds the exact parity of ALMOST the same data (GEN_REFRESH 1: one source byte
		 * differs, 2: one 64-byte sector differs, 3: nothing differs) - whatever it holds, the call must leave the parity of the sources */
		static uint8_t op[NMAX], oq[NMAX];
		uint8_t *olds[VMAX], *tmp = malloc(len);
		for (int i = 0; i < nsrc; i++)
			olds[i] = src[i];
		memcpy(tmp, src[nsrc / 2], len);
		if (GEN_REFRESH == 1)
			tmp[(len * 5 / 7) % len] ^= 0x40;
		else if (GEN_REFRESH == 2)
			for (int j = (len / 2) & ~63; j < len && j < ((len / 2) & ~63) + 64; j++)
				tmp[j] ^= (uint8_t)(j | 1);
		olds[nsrc / 2] = tmp;
		ref_pq(olds, nsrc, len, op, Q ? oq : NULL);
		memcpy(P, op, len);
		if (Q)
			memcpy(Q, oq, len);
		free(tmp);
	}
	int r = -999;
	/* every kernel call is made with all caller-saved vector/mask registers poisoned (all-ones or a5, by placement): the result
	 * must not depend on what an earlier call left in a register the ABI does not preserve */
	v_pcall_mode = 1 + (pl == 1);
	if (vects > 0)
		g_readonly(arr, 1); /* the pointer array is the caller's and is only read */
	if (V_TRY()) {
		r = (int)PCALL(im->f, vects, len, arr);
		V_END();
	} else {
		snprintf(key, sizeof key, "%s fault vects=%d len=%d pl=%d", im->name, vects, len, pl);
		v_violation(key, "fault at %s addr=%p (%s)", v_sym(v_fault_rip), (void *)v_fault_addr, v_fault_write ? "write" : "read");
		nfail++;
		g_reset();
		return;
	}
	v_eval();
	static uint8_t ep[NMAX], eq[NMAX];
	ref_pq(src, nsrc, len, ep, Q ? eq : NULL);
	int bad = r != 0 || memcmp(P, ep, len) || (Q && memcmp(Q, eq, len));
	if (bad) {
		snprintf(key, sizeof key, "%s wrong vects=%d len=%d pl=%d", im->name, vects, len, pl);
		v_violation(key, "ret=%d P %s Q %s (impulse src=%d pos=%d val=%02x)", r, memcmp(P, ep, len) ? "WRONG" : "ok", Q && memcmp(Q, eq, len) ? "WRONG" : "ok",
			    imp_src, imp_pos, imp_val);
		nfail++;
	}
	if (g_check()) {
		snprintf(key, sizeof key, "%s wrote-outside vects=%d len=%d pl=%d", im->name, vects, len, pl);
		v_violation(key, "%s", g_last_damage());
		nfail++;
	}
	g_reset();
}

/* checks: consistent -> 0, every single-byte corruption of every vector (incl. parity) -> non-zero */
static void check_case(const struct rimpl *im, int vects, int len, int pl, int closure)
{
	char key[256];
	int npar = im->op == R_PQ_CHECK ? 2 : 1, nsrc = vects - npar;
	void **arr = g_alloc((vects > 0 ? vects : 0) * sizeof(void *), G_END); /* exactly `vects` pointers, then an inaccessible page */
	uint8_t *v[VMAX];
	for (int i = 0; i < vects; i++) {
		v[i] = place(len, im->align, pl);
		arr[i] = v[i];
		if (i < nsrc)
			memcpy(v[i], M[i], len);
	}
	ref_pq(v, nsrc, len, v[nsrc], npar == 2 ? v[nsrc + 1] : NULL);
	int r = -999;
	/* a check only reads: for the first call every block (data and parity) and the pointer array are write-protected */
	for (int i = 0; i < vects; i++)
		g_readonly(v[i], 1);
	if (vects > 0)
		g_readonly(arr, 1);
	if (V_TRY()) {
		r = (int)PCALL(im->f, vects, len, arr);
		for (int i = 0; i < vects; i++)
			g_readonly(v[i], 0);
		v_eval();
		if (r != 0) {
			snprintf(key, sizeof key, "%s false-alarm vects=%d len=%d pl=%d", im->name, vects, len, pl);
			v_violation(key, "returned %d on a parity-consistent array", r);
			nfail++;
		}
		if (closure) {
			static const uint8_t flips[] = { 0x01, 0x80, 0xff };
			for (int i = 0; i < vects; i++)
				for (int pos = 0; pos < len; pos++)
					for (int fi = 0; fi < 3; fi++) {
						v[i][pos] ^= flips[fi];
						r = (int)PCALL(im->f, vects, len, arr);
						v[i][pos] ^= flips[fi];
						v_eval();
						if (r == 0) {
							snprintf(key, sizeof key, "%s missed vects=%d len=%d vector=%d pos=%d", im->name, vects, len, i, pos);
							v_violation(key, "corruption ^%02x of vector %d (%s) byte %d not reported", flips[fi], i,
								    i < nsrc ? "data" : i == nsrc ? "P" : "Q", pos);
							if (++nfail > 50) {
								V_END();
								g_reset();
								return;
							}
						}
					}
			v_count("corruptions_checked", (int64_t)vects * len * 3);
		}
		if (closure && len <= 320) {
			/* two-byte corruptions: vectors from {first data, last data, P, Q} x {same, other} at byte distance 0 (other vector), 1, 8, 16, 32,
			 * 48, 64, 128, deltas equal (01, ff) or different (01 / 80): residues of different vector lanes / unrolled iterations must be
			 * OR-ed, never combined so that they cancel. Whether the damaged arrays are still consistent is decided by the reference
			 * at the two positions (a data byte and the P byte at the same position with the same delta IS consistent for xor_check). */
			int cand[4] = { 0, nsrc - 1, nsrc, vects - 1 }, nc = 0, cset[4];
			for (int c = 0; c < 4; c++) {
				int dup = 0;
				for (int e = 0; e < nc; e++)
					dup |= cset[e] == cand[c];
				if (!dup && cand[c] >= 0)
					cset[nc++] = cand[c];
			}
			static const int dd[] = { 0, 1, 8, 16, 32, 48, 64, 128 };
			static const uint8_t d1[] = { 0x01, 0xff, 0x01 }, d2[] = { 0x01, 0xff, 0x80 };
			for (int a = 0; a < nc; a++)
				for (int b = 0; b < nc; b++)
					for (int di = 0; di < 8; di++)
						for (int pos = 0; pos + dd[di] < len; pos++)
							for (int xi = 0; xi < 3; xi++) {
								int va = cset[a], vb = cset[b], p2 = pos + dd[di];
								if (va == vb && dd[di] == 0)
									continue;
								v[va][pos] ^= d1[xi];
								v[vb][p2] ^= d2[xi];
								int consistent = 1;
								for (int w = 0; w < 2; w++) {
									int j = w ? p2 : pos;
									uint8_t pp = 0, qq = 0;
									for (int i = nsrc - 1; i >= 0; i--) {
										pp ^= v[i][j];
										qq = rgf_mul_slow(qq, 2) ^ v[i][j];
									}
									if (pp != v[nsrc][j] || (npar == 2 && qq != v[nsrc + 1][j]))
										consistent = 0;
								}
								r = (int)PCALL(im->f, vects, len, arr);
								v[va][pos] ^= d1[xi];
								v[vb][p2] ^= d2[xi];
								v_eval();
								if ((r == 0) != consistent) {
									snprintf(key, sizeof key, "%s two-byte vects=%d len=%d", im->name, vects, len);
									v_violation(key, "corruption ^%02x of vector %d byte %d together with ^%02x of vector %d byte %d: arrays are %s, check returned %d", d1[xi], va, pos, d2[xi], vb, p2,
										    consistent ? "still consistent" : "inconsistent", r);
									if (++nfail > 50) {
										V_END();
										g_reset();
										return;
									}
								}
								v_count("two_byte_corruptions_checked", 1);
							}
		}
		V_END();
	} else {
		snprintf(key, sizeof key, "%s fault vects=%d len=%d pl=%d", im->name, vects, len, pl);
		v_violation(key, "fault at %s addr=%p (%s)", v_sym(v_fault_rip), (void *)v_fault_addr, v_fault_write ? "write" : "read");
		nfail++;
	}
	if (g_check()) {
		snprintf(key, sizeof key, "%s wrote-outside vects=%d len=%d", im->name, vects, len);
		v_violation(key, "%s", g_last_damage());
	}
	g_reset();
}

/* very many vectors (32767, 32768, 65535, 65542: the counts where a 15- or 16-bit view of `vects` changes): all sources are one shared
 * zero block except three real ones (first, middle, last), so the reference parity is cheap; generation must give P and Q, the checks
 * must accept the consistent array and report one changed byte in the last source, in P and in Q */
static void many_vectors(const struct rimpl *im)
{
	static const int Vs[] = { 32767, 32768, 65535, 65542 };
	char key[256];
	enum { L = 64 };
	int npar = im->op == R_PQ_GEN || im->op == R_PQ_CHECK ? 2 : 1;
	for (int vi = 0; vi < 4; vi++) {
		int V = Vs[vi], nsrc = V - npar;
		void **arr = g_alloc((size_t)V * sizeof(void *), G_END);
		uint8_t *Z = place(L, im->align, 0), *real[3], *P = place(L, im->align, 0), *Q = place(L, im->align, 0), wp[L], wq[L];
		int at[3] = { 0, nsrc / 2, nsrc - 1 };
		memset(Z, 0, L);
		for (int i = 0; i < nsrc; i++)
			arr[i] = Z;
		memset(wp, 0, L); memset(wq, 0, L);
		for (int t = 0; t < 3; t++) {
			real[t] = place(L, im->align, 0);
			fill_xorshift(real[t], L, 500 + t + vi);
			arr[at[t]] = real[t];
			uint8_t g = 1; /* 2^at[t] */
			for (int e = 0; e < at[t]; e++)
				g = rgf_mul_slow(g, 2);
			for (int j = 0; j < L; j++) {
				wp[j] ^= real[t][j];
				wq[j] ^= rgf_mul_slow(g, real[t][j]);
			}
		}
		arr[nsrc] = P;
		if (npar == 2)
			arr[nsrc + 1] = Q;
		int gen = im->op == R_XOR_GEN || im->op == R_PQ_GEN;
		if (gen) {
			memset(P, 0xAA, L); memset(Q, 0x55, L);
		} else {
			memcpy(P, wp, L); memcpy(Q, wq, L);
		}
		snprintf(key, sizeof key, "%s many-vectors vects=%d len=%d", im->name, V, L);
		if (V_TRY()) {
			int r = (int)PCALL(im->f, V, L, arr);
			v_eval();
			if (gen) {
				if (r != 0 || memcmp(P, wp, L) || (npar == 2 && memcmp(Q, wq, L)))
					v_violation(key, "ret=%d P %s Q %s", r, memcmp(P, wp, L) ? "WRONG" : "ok", npar == 2 && memcmp(Q, wq, L) ? "WRONG" : "ok");
			} else {
				if (r != 0)
					v_violation(key, "returned %d on a parity-consistent array", r);
				uint8_t *tgt[3] = { real[2], P, npar == 2 ? Q : P };
				for (int t = 0; t < 3; t++) {
					tgt[t][L / 2] ^= 0x10;
					r = (int)PCALL(im->f, V, L, arr);
					tgt[t][L / 2] ^= 0x10;
					v_eval();
					if (r == 0)
						v_violation(key, "one changed byte in %s not reported", t == 0 ? "the last source" : t == 1 ? "P" : "Q");
				}
			}
			V_END();
		} else
			v_violation(key, "%s", v_fault_desc());
		if (g_check())
			v_violation(key, "%s", g_last_damage());
		g_reset();
		v_count("many_vector_cases", 1);
	}
}

/* below the documented minimum: must return non-zero without touching memory (pointer array and buffers unmapped) */
static void below_min(const struct rimpl *im)
{
	char key[256];
	static void **nowhere;
	if (!nowhere)
		nowhere = mmap(NULL, 8192, PROT_NONE, MAP_PRIVATE | MAP_ANONYMOUS, -1, 0);
	for (int vects = 0; vects < minv(im->op); vects++)
		for (int len = 0; len <= 64; len += 32) {
			int r = -999;
			if (V_TRY()) {
				r = (int)PCALL(im->f, vects, len, nowhere);
				V_END();
				v_eval();
				if (r == 0) {
					snprintf(key, sizeof key, "%s accepts vects=%d", im->name, vects);
					v_violation(key, "returned 0 for vects=%d (documented minimum %d) len=%d", vects, minv(im->op), len);
				}
			} else {
				snprintf(key, sizeof key, "%s touches-memory vects=%d", im->name, vects);
				v_violation(key, "fault at %s addr=%p with vects=%d below the documented minimum", v_sym(v_fault_rip), (void *)v_fault_addr, vects);
			}
		}
}

/* any two lost data blocks are recoverable from P and Q generated by the implementation */
static void recovery(const struct rimpl *im, int vects, int len)
{
	char key[256];
	int nsrc = vects - 2;
	void **arr = g_alloc((vects > 0 ? vects : 0) * sizeof(void *), G_END); /* exactly `vects` pointers, then an inaccessible page */
	uint8_t *src[VMAX];
	for (int i = 0; i < nsrc; i++) {
		src[i] = place(len, im->align, 0);
		memcpy(src[i], M[i], len);
		arr[i] = src[i];
	}
	uint8_t *P = place(len, im->align, 0), *Q = place(len, im->align, 0);
	arr[nsrc] = P;
	arr[nsrc + 1] = Q;
	if (!V_TRY()) {
		g_reset();
		return;
	}
	(void)PCALL(im->f, vects, len, arr);
	V_END();
	uint8_t g[VMAX];
	g[0] = 1;
	for (int i = 1; i < nsrc; i++)
		g[i] = rgf_mul_slow(g[i - 1], 2);
	for (int x = 0; x < nsrc; x++)
		for (int y = x + 1; y < nsrc; y++) {
			int ok = 1;
			for (int j = 0; j < len && ok; j++) {
				uint8_t pxy = P[j], qxy = Q[j];
				for (int i = 0; i < nsrc; i++)
					if (i != x && i != y) {
						pxy ^= src[i][j];
						qxy ^= rgf_mul_slow(g[i], src[i][j]);
					}
				/* Dx ^ Dy = pxy ; g^x Dx ^ g^y Dy = qxy */
				uint8_t den = g[x] ^ g[y];
				uint8_t dx = rgf_mul_slow(rgf_mul_slow(g[y], pxy) ^ qxy, rgf_inv(den));
				uint8_t dy = pxy ^ dx;
				ok = dx == src[x][j] && dy == src[y][j];
			}
			v_eval();
			if (!ok) {
				snprintf(key, sizeof key, "%s unrecoverable vects=%d lost=%d,%d", im->name, vects, x, y);
				v_violation(key, "data blocks %d and %d cannot be rebuilt from the generated P and Q", x, y);
			}
			v_count("double_erasures_rebuilt", 1);
		}
	g_reset();
}

/* long stripes: loop counters and offsets beyond 64 KiB and 1 MiB, 5 vectors, xorshift data, reference computed on the fly */
static void gen_big(const struct rimpl *im, int len, int start_aligned)
{
	char key[256];
	int vects = 5, npar = im->op == R_PQ_GEN ? 2 : 1, nsrc = vects - npar;
	void **arr = g_alloc(vects * sizeof(void *), G_END);
	uint8_t *src[8];
	for (int i = 0; i < nsrc; i++) {
		src[i] = start_aligned ? g_alloc_off(len, 0) : g_alloc_end_aligned(len, im->align);
		fill_xorshift(src[i], len, 500 + i);
		arr[i] = src[i];
	}
	/* start_aligned: every vector starts on a page boundary (64-byte and more aligned) instead of ending at a guard page */
	uint8_t *P = start_aligned ? g_alloc_off(len, 0) : g_alloc_end_aligned(len, im->align), *Q = npar == 2 ? (start_aligned ? g_alloc_off(len, 0) : g_alloc_end_aligned(len, im->align)) : NULL;
	memset(P, 0xAA, len);
	arr[nsrc] = P;
	if (Q) {
		memset(Q, 0x55, len);
		arr[nsrc + 1] = Q;
	}
	int r = -999;
	v_pcall_mode = 2;
	if (V_TRY()) {
		r = (int)PCALL(im->f, vects, len, arr);
		V_END();
	} else {
		snprintf(key, sizeof key, "%s fault vects=5 len=%d big %s", im->name, len, start_aligned ? "page-aligned" : "end-flush");
		v_violation(key, "%s", v_fault_desc());
		nfail++;
		g_reset();
		return;
	}
	v_eval();
	int bad = r != 0;
	for (int j = 0; j < len && !bad; j++) {
		uint8_t pp = 0, qq = 0;
		for (int i = nsrc - 1; i >= 0; i--) {
			pp ^= src[i][j];
			qq = rgf_mul_slow(qq, 2) ^ src[i][j];
		}
		if (P[j] != pp || (Q && Q[j] != qq)) {
			snprintf(key, sizeof key, "%s wrong vects=5 len=%d big %s", im->name, len, start_aligned ? "page-aligned" : "end-flush");
			v_violation(key, "byte %d: P %02x (expected %02x) Q %02x (expected %02x)", j, P[j], pp, Q ? Q[j] : 0, qq);
			nfail++;
			bad = 2;
		}
	}
	if (bad == 1) {
		snprintf(key, sizeof key, "%s return vects=5 len=%d big", im->name, len);
		v_violation(key, "returned %d", r);
		nfail++;
	}
	if (g_check()) {
		snprintf(key, sizeof key, "%s wrote-outside vects=5 len=%d big", im->name, len);
		v_violation(key, "%s", g_last_damage());
		nfail++;
	}
	g_reset();
	v_count("big_length_cases", 1);
}

int main(int argc, char **argv)
{
	v_init(argc, argv, "C08");
	rgf_init();
	for (int i = 0; i < VMAX; i++) {
		M[i] = malloc(NMAX);
		fill_xorshift(M[i], NMAX, 300 + i);
	}
	static char names[64][48];
	int nn = 0;
	static struct { const char *n; int op; raid_fn f; int al; int lm; } ent[] = { { "xor_gen", R_XOR_GEN, xor_gen, 32, 1 }, { "pq_gen", R_PQ_GEN, pq_gen, 32, 32 },
										     { "xor_check", R_XOR_CHECK, xor_check, 16, 1 }, { "pq_check", R_PQ_CHECK, pq_check, 16, 16 } };
	for (int lvl = 0; lvl < CPU_NLEVELS; lvl++) {
		if (lvl == CPU_AVX2G2)
			continue;
		for (int e = 0; e < 4; e++) {
			snprintf(names[nn], 48, "%s@%s", ent[e].n, cpu_level_name[lvl]);
			impls[nimpl++] = (struct rimpl){ names[nn++], ent[e].op, ent[e].f, ent[e].al, ent[e].lm, lvl };
		}
	}
	int N = v_thorough ? 1200 : 600;
	int NCL = v_thorough ? 600 : 256;
	static const int vbig[] = { 7, 8, 9, 10, 11, 12, 13, 14, 15, 16, 17, 18, 19, 20, 33, 64, 129, 257 };
	static const int lsel[] = { 0, 1, 7, 8, 9, 31, 32, 33, 127, 128, 129, 600 };
	int curlevel = -2;
	uint64_t unit = 0;
	for (int ii = 0; ii < nimpl; ii++) {
		const struct rimpl *im = &impls[ii];
		if (im->level >= 0 && im->level != curlevel) {
			cpu_set_level(im->level);
			curlevel = im->level;
		}
		int mv = minv(im->op);
		if (v_mine(unit++))
			below_min(im);
		if (v_mine(unit++))
			many_vectors(im);
		if (im->op == R_XOR_GEN || im->op == R_PQ_GEN) {
			/* small vects: every length, three placements, dense data; impulses at every byte for len <= 256 */
			for (int vects = mv; vects <= 6; vects++)
				for (int len = 0; len <= N; len += im->lenmult) {
					if (!v_mine(unit++))
						continue;
					if (v_deadline_hit() || nfail > 50)
						goto out;
					for (int pl = 0; pl < 3; pl++)
						gen_case(im, vects, len, pl, -1, 0, 0);
					for (GEN_REFRESH = 1; GEN_REFRESH <= 3; GEN_REFRESH++)
						gen_case(im, vects, len, 0, -1, 0, 0);
					GEN_REFRESH = 0;
					if (len <= 256 && im->level < 0) {
						int nsrc = vects - (im->op == R_PQ_GEN ? 2 : 1);
						for (int s = 0; s < nsrc; s++)
							for (int pos = 0; pos < len; pos++)
								gen_case(im, vects, len, 0, s, pos, (uint8_t)(1 << (pos & 7)));
						v_count("impulse_cases", (int64_t)nsrc * len);
					}
					v_nontrivial(v_mix(ii, vects * 10000 + len));
				}
			/* long stripes */
			{
				/* every residue of the 128-byte main loop at 64 KiB and 1 MiB (and 16 MiB in thorough), vectors page-aligned and end-flush */
				static const int bigb[] = { 65536, 1 << 20, 1 << 24 }, bigr[] = { 0, 32, 64, 96, 160 };
				for (int bi = 0; bi < (v_thorough ? 3 : 2); bi++)
					for (int ri = 0; ri < 5; ri++)
						for (int sa = 0; sa < 2; sa++)
							if (v_mine(unit++) && im->level < 0)
								gen_big(im, bigb[bi] + bigr[ri], sa);
			}
			/* many vectors */
			for (unsigned vi = 0; vi < sizeof vbig / sizeof vbig[0]; vi++) {
				if (!v_mine(unit++))
					continue;
				for (unsigned li = 0; li < sizeof lsel / sizeof lsel[0]; li++) {
					int len = lsel[li];
					if (len % im->lenmult)
						len -= len % im->lenmult;
					gen_case(im, vbig[vi], len, 0, -1, 0, 0);
				}
				if (im->op == R_PQ_GEN) {
					gen_case(im, vbig[vi], 2048, 0, -1, 0, 0);
					gen_case(im, vbig[vi], 4096, 0, -1, 0, 0);
				}
				v_nontrivial(v_mix(ii + 1000, vbig[vi]));
			}
			/* recovery of any two lost data blocks */
			if (im->op == R_PQ_GEN)
				for (int vects = 4; vects <= 10; vects++)
					if (v_mine(unit++))
						recovery(im, vects, 96);
		} else {
			for (int vects = mv; vects <= 6; vects++)
				for (int len = 0; len <= N; len += im->lenmult) {
					if (!v_mine(unit++))
						continue;
					if (v_deadline_hit() || nfail > 50)
						goto out;
					check_case(im, vects, len, 0, len <= NCL);
					check_case(im, vects, len, 1, 0);
					v_nontrivial(v_mix(ii, vects * 10000 + len));
				}
			for (unsigned vi = 0; vi < sizeof vbig / sizeof vbig[0]; vi++) {
				if (!v_mine(unit++))
					continue;
				for (unsigned li = 0; li < sizeof lsel / sizeof lsel[0]; li++) {
					int len = lsel[li] - lsel[li] % im->lenmult;
					check_case(im, vbig[vi], len, 0, len <= 64);
				}
				v_nontrivial(v_mix(ii + 1000, vbig[vi]));
			}
		}
	}
out:
	if (v_shard == 0) {
		v_sample("pq_gen_avx2 vects=6 len=96: P = D0^..^D3, Q = sum 2^i Di (0x11D) byte for byte; sources read-only; canaries intact");
		v_sample("xor_check_sse vects=4 len=37: consistent -> 0; every byte of every vector ^{01,80,ff} -> non-zero");
		v_sample("pq_gen vects=3 with an unmapped pointer array -> non-zero, no fault");
		v_count("implementations", nimpl);
		v_note("documented alignment honoured: pointers 32B (xor_gen, pq_gen, avx2/avx512) or 16B (sse/avx/check); pq lengths multiples of 32 (16 for sse/avx/base/check)");
	}
	return v_finish();
}
