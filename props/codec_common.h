/* Shared helpers for the igzip codec harnesses (C01, C02, C05, C06, C07, C10, C11, C14, C15, C17, C18). */
#ifndef CODEC_COMMON_H
#define CODEC_COMMON_H
#include "verif.h"
#include "ref_inflate.h"
#include "ref_gen.h"
#include "ref_hdr.h"
#include "igzip_lib.h"
#include <zlib.h>

static const uint32_t lvl_min[4] = { ISAL_DEF_LVL0_MIN, ISAL_DEF_LVL1_MIN, ISAL_DEF_LVL2_MIN, ISAL_DEF_LVL3_MIN };
static const uint32_t lvl_small[4] = { ISAL_DEF_LVL0_SMALL, ISAL_DEF_LVL1_SMALL, ISAL_DEF_LVL2_SMALL, ISAL_DEF_LVL3_SMALL };
static const uint32_t lvl_medium[4] = { ISAL_DEF_LVL0_MEDIUM, ISAL_DEF_LVL1_MEDIUM, ISAL_DEF_LVL2_MEDIUM, ISAL_DEF_LVL3_MEDIUM };
static const uint32_t lvl_default[4] = { ISAL_DEF_LVL0_DEFAULT, ISAL_DEF_LVL1_DEFAULT, ISAL_DEF_LVL2_DEFAULT, ISAL_DEF_LVL3_DEFAULT };
static const uint32_t lvl_xl[4] = { ISAL_DEF_LVL0_EXTRA_LARGE, ISAL_DEF_LVL1_EXTRA_LARGE, ISAL_DEF_LVL2_EXTRA_LARGE, ISAL_DEF_LVL3_EXTRA_LARGE };
enum { LB_MIN, LB_DEFAULT, LB_SMALL, LB_MEDIUM, LB_XL, LB_NULL };
static const char *lb_name[] = { "MIN", "DEFAULT", "SMALL", "MEDIUM", "XL", "NULL" };
static uint32_t lb_size(int level, int which)
{
	switch (which) {
	case LB_MIN: return lvl_min[level];
	case LB_DEFAULT: return lvl_default[level];
	case LB_SMALL: return lvl_small[level];
	case LB_MEDIUM: return lvl_medium[level];
	case LB_XL: return lvl_xl[level];
	default: return 0;
	}
}
static const char *gz_name[] = { "raw", "gzip", "gzip_no_hdr", "zlib", "zlib_no_hdr" };
static const char *flush_name[] = { "NO_FLUSH", "SYNC_FLUSH", "FULL_FLUSH" };
static const char *cf_name[] = { "DEFLATE", "GZIP", "GZIP_NO_HDR", "ZLIB", "ZLIB_NO_HDR", "ZLIB_NO_HDR_VER", "GZIP_NO_HDR_VER" };

/* documented output bound of one-shot compression (DESIGN C10; matches igzip_lib.h "input size plus the header size of a stored block") */
static size_t stateless_bound(size_t len, int gzip_flag)
{
	size_t b = len + 5 * (len ? (len + 65534) / 65535 : 1);
	if (gzip_flag == IGZIP_GZIP) b += 18;
	else if (gzip_flag == IGZIP_GZIP_NO_HDR) b += 8;
	else if (gzip_flag == IGZIP_ZLIB) b += 6;
	else if (gzip_flag == IGZIP_ZLIB_NO_HDR) b += 4;
	return b;
}

/* ---------- reference-side verification of a produced stream ---------- */
struct vstream { int ok; char why[256]; };
static uint8_t *vs_buf;
static size_t vs_cap;
static void vs_need(size_t n)
{
	if (vs_cap < n) {
		vs_cap = n * 2 + 1024;
		vs_buf = realloc(vs_buf, vs_cap);
	}
}
static struct ri_result vs_res;
/* gzip_flag: ISA-L compress flag. prefix: stream is an unterminated, byte-aligned prefix (flush). window: max distance allowed (0 = 32768) */
static int verify_deflate_output(const uint8_t *strm, size_t slen, int gzip_flag, const uint8_t *in, size_t len, int prefix, uint32_t window,
				 const uint8_t *hist, size_t hist_len, char *why, size_t whylen)
{
	struct ri_opts o;
	memset(&o, 0, sizeof o);
	o.wrapper = (gzip_flag == IGZIP_GZIP || gzip_flag == IGZIP_GZIP_NO_HDR) ? RW_GZIP : (gzip_flag == IGZIP_ZLIB || gzip_flag == IGZIP_ZLIB_NO_HDR) ? RW_ZLIB : RW_RAW;
	o.no_header = gzip_flag == IGZIP_GZIP_NO_HDR || gzip_flag == IGZIP_ZLIB_NO_HDR;
	o.prefix_mode = prefix;
	o.no_trailer = prefix;
	o.window = window;
	o.hist = hist;
	o.hist_len = hist_len;
	o.zlib_accept_dict = hist_len != 0;
	vs_need(len + 64);
	vs_res.out = vs_buf;
	vs_res.out_cap = len + 64;
	ref_inflate(strm, slen, &o, &vs_res);
	if (vs_res.verdict != RI_VALID) {
		snprintf(why, whylen, "reference decoder: %s (%s) after %zu output bytes at input bit %zu", vs_res.verdict == RI_NEED_INPUT ? "stream incomplete" : vs_res.verdict == RI_OUT_FULL ? "more output than input" : ri_class_name(vs_res.cls),
			 vs_res.why ? vs_res.why : "", vs_res.out_len, vs_res.end_bit);
		return 0;
	}
	if (vs_res.out_len != len || memcmp(vs_buf, in, len)) {
		size_t i = 0;
		while (i < len && i < vs_res.out_len && vs_buf[i] == in[i])
			i++;
		snprintf(why, whylen, "reference decoder output differs from the input at byte %zu (decoded %zu bytes, input %zu)", i, vs_res.out_len, len);
		return 0;
	}
	if (vs_res.end_byte != slen) {
		snprintf(why, whylen, "stream has %zu bytes but the reference decoder consumed %zu", slen, vs_res.end_byte);
		return 0;
	}
	if (!prefix && !vs_res.saw_bfinal) {
		snprintf(why, whylen, "no final block");
		return 0;
	}
	return 1;
}
/* foreign decoder: zlib. Only for complete streams with header (raw / gzip / zlib). returns 1 ok, 0 mismatch, -1 not applicable */
static int verify_with_zlib(const uint8_t *strm, size_t slen, int gzip_flag, const uint8_t *in, size_t len, char *why, size_t whylen)
{
	int wb;
	size_t body = slen;
	if (gzip_flag == IGZIP_GZIP) wb = 15 + 16;
	else if (gzip_flag == IGZIP_ZLIB) wb = 15;
	else {
		wb = -15;
		if (gzip_flag == IGZIP_GZIP_NO_HDR) body = slen >= 8 ? slen - 8 : 0;
		if (gzip_flag == IGZIP_ZLIB_NO_HDR) body = slen >= 4 ? slen - 4 : 0;
	}
	z_stream z;
	memset(&z, 0, sizeof z);
	if (inflateInit2(&z, wb) != Z_OK)
		v_broken("zlib inflateInit2");
	vs_need(2 * len + 128);
	uint8_t *zb = vs_buf + len + 64;
	z.next_in = (Bytef *)strm;
	z.avail_in = body;
	z.next_out = zb;
	z.avail_out = len + 32;
	int r = inflate(&z, Z_FINISH);
	size_t tot = z.total_out, left = z.avail_in;
	const char *msg = z.msg;
	inflateEnd(&z);
	if (r != Z_STREAM_END) {
		snprintf(why, whylen, "zlib inflate returned %d (%s) after %zu bytes", r, msg ? msg : "", tot);
		return 0;
	}
	if (left) {
		snprintf(why, whylen, "zlib left %zu bytes unconsumed", left);
		return 0;
	}
	if (tot != len || memcmp(zb, in, len)) {
		snprintf(why, whylen, "zlib output differs from the input (%zu vs %zu bytes)", tot, len);
		return 0;
	}
	return 1;
}

/* ---------- input families ---------- */
static const int shape_lens[] = { 0, 1, 2, 3, 4, 7, 8, 9, 15, 16, 17, 31, 32, 33, 257, 258, 259, 287, 288, 289, 290, 300, 600, 1000, 4095, 4096, 8191, 8192, 8193 };
#define N_SHAPE_LENS (int)(sizeof shape_lens / sizeof shape_lens[0])
static const int big_lens[] = { 32767, 32768, 32769, 65535, 65536, 65537, 70000, 131077, 200000 };
#define N_BIG_LENS (int)(sizeof big_lens / sizeof big_lens[0])
static const uint8_t sigma3[3] = { 0x00, 'a', 'b' };
static const uint8_t sigma2[2] = { 0x00, 0xff };

/* mixed content for BIG: text, then incompressible, then repetitive, with a far repeat */
static void fill_mixed(uint8_t *p, size_t n, uint64_t seed)
{
	size_t a = n / 3, b = 2 * n / 3;
	fill_pattern(p, a, PAT_TEXT, seed);
	fill_xorshift(p + a, b - a, seed + 1);
	fill_pattern(p + b, n - b, PAT_P258, seed + 2);
	if (n > 40000)
		memcpy(p + n - 300, p + n - 300 - 32768, 300); /* repeat at distance exactly 32768 */
}

/* FARMIX: mostly copies from 16K..32K back with assorted lengths 3..258, a few literals in between: produces the widest
 * encoded symbols (long length + 13 distance extra bits) back to back - the bit-buffer budget of the vector encoders */
static void fill_farmix(uint8_t *p, size_t n, uint64_t seed)
{
	uint64_t s = seed * 0x9e3779b97f4a7c15ull + 12345;
	size_t pos = n < 32768 ? n : 32768;
	fill_xorshift(p, pos, seed + 1);
	while (pos < n) {
		uint64_t r = xs_next(&s);
		size_t len = 3 + r % 256, dist = 16385 + (r >> 16) % 16384;
		if ((r >> 40) % 8 == 0) {
			size_t nl = 1 + (r >> 44) % 3;
			for (size_t i = 0; i < nl && pos < n; i++)
				p[pos++] = (uint8_t)(r >> (48 + 4 * i));
		}
		for (size_t i = 0; i < len && pos < n; i++, pos++)
			p[pos] = p[pos - dist];
	}
}

/* ---------- ISA-L deflate driver ---------- */
struct cparams { int level, flush, gzip_flag, hist_bits, huff, lbuf, api, cin, cout; };
enum { API_STATELESS, API_ONECALL, API_CHUNKED };
enum { HUFF_DEFAULT, HUFF_STATIC, HUFF_CUSTOM };
static struct isal_hufftables c_custom_ht;
/* the last-buffer flag is documented as "non-zero": 1, 2 or 0x100 by input length */
#define C_EOS(len) ((len) % 3 == 0 ? 1 : (len) % 3 == 1 ? 2 : 0x100)
static uint32_t C_LB_BYTES; /* non-zero: level_buf_size to use instead of the named size (sizes between the named ones are legal too) */
static int C_LB_OFF; /* 0: level_buf ends at a guard page; else its offset from the start of its mapping (multiples of 16) */

static const char *cparams_str(const struct cparams *p)
{
	static char s[4][200];
	static int si;
	char *o = s[si++ & 3];
	snprintf(o, 200, "level=%d flush=%s wrapper=%s hist_bits=%d huff=%d level_buf=%s api=%s", p->level, flush_name[p->flush], gz_name[p->gzip_flag], p->hist_bits, p->huff,
		 lb_name[p->lbuf], p->api == API_STATELESS ? "stateless" : p->api == API_ONECALL ? "deflate-one-call" : "deflate-chunked");
	return o;
}

/* returns ISA-L return code (or -1000 on fault); stream struct kept in *sp (in guard arena) */
static int c_deflate(const struct cparams *p, uint8_t *in, size_t len, uint8_t *out, size_t cap, size_t *outlen, struct isal_zstream **sp)
{
	struct isal_zstream *s = g_alloc(sizeof *s, G_END);
	uint8_t *lb = NULL;
	uint32_t lbs = 0;
	if (p->level > 0 && p->lbuf != LB_NULL) {
		lbs = C_LB_BYTES ? C_LB_BYTES : lb_size(p->level, p->lbuf);
		/* the level buffer is "generic memory" (igzip_lib.h): C_LB_OFF != 0 puts it at that offset of its mapping (16-byte aligned only) instead of end-flush */
		lb = C_LB_OFF ? g_alloc_off(lbs, C_LB_OFF) : g_alloc(lbs, G_END);
	}
	int r = -1000;
	*outlen = 0;
	if (sp)
		*sp = s;
	if (!V_TRY())
		return -1000;
	if (p->api == API_STATELESS)
		isal_deflate_stateless_init(s);
	else
		isal_deflate_init(s);
	s->avail_in = 0; /* the init functions leave next_in/avail_in alone and the object may be a recycled arena slot: the chunk loop below tests avail_in */
	s->next_in = NULL;
	s->level = p->level;
	s->level_buf = lb;
	s->level_buf_size = lbs;
	s->flush = p->flush;
	s->gzip_flag = p->gzip_flag;
	s->hist_bits = p->hist_bits;
	if (p->huff == HUFF_STATIC)
		isal_deflate_set_hufftables(s, NULL, IGZIP_HUFFTABLE_STATIC);
	else if (p->huff == HUFF_CUSTOM)
		isal_deflate_set_hufftables(s, &c_custom_ht, IGZIP_HUFFTABLE_CUSTOM);
	s->next_out = out;
	s->avail_out = cap;
	if (p->api == API_STATELESS) {
		s->next_in = in;
		s->avail_in = len;
		s->end_of_stream = C_EOS(len);
		r = isal_deflate_stateless(s);
	} else if (p->api == API_ONECALL) {
		s->next_in = in;
		s->avail_in = len;
		s->end_of_stream = C_EOS(len);
		r = isal_deflate(s);
	} else {
		size_t ip = 0, op = 0, cur_len = 0;
		uint8_t *cur_in = NULL;
		int guard = 0;
		r = COMP_OK;
		for (;;) {
			size_t ci = len - ip < (size_t)p->cin ? len - ip : (size_t)p->cin;
			size_t co = cap - op < (size_t)p->cout ? cap - op : (size_t)p->cout;
			if (s->avail_in == 0) {
				/* every chunk is handed over in its own buffer; once it is consumed the caller reuses that memory (scribbled here),
				 * so a codec that reads consumed input again produces wrong output instead of getting away with it */
				if (cur_in)
					memset(cur_in, 0xA5, cur_len);
				if (ci) {
					cur_in = g_alloc(ci, G_END);
					cur_len = ci;
					memcpy(cur_in, in + ip, ci);
					s->next_in = cur_in;
					s->avail_in = ci;
					ip += ci;
				} /* else: nothing more to offer; next_in keeps pointing behind the consumed (now reused) chunk */
			}
			s->end_of_stream = ip >= len ? C_EOS(len) : 0;
			s->next_out = out + op;
			s->avail_out = co;
			r = isal_deflate(s);
			op += co - s->avail_out;
			if (r != COMP_OK || s->internal_state.state == ZSTATE_END)
				break;
			if (++guard > 2000000) {
				r = -2000;
				break;
			}
			if (op >= cap && s->avail_out == 0) {
				r = -3000;
				break;
			}
		}
		V_END();
		*outlen = op;
		return r;
	}
	V_END();
	*outlen = cap - s->avail_out;
	return r;
}

/* ---------- ISA-L inflate driver ---------- */
struct dres { int ret, block_state, fault, calls; size_t out_len, in_pos; uint32_t crc; uint32_t total_out; };
enum { DAPI_STATELESS, DAPI_STREAM };
/* in: whole stream (+junk) in one buffer; out: capacity outcap. For DAPI_STREAM isal_inflate is called until FINISH / error / no progress. */
static void c_inflate(int api, int crc_flag, int hist_bits, uint8_t *in, size_t inlen, uint8_t *out, size_t outcap, struct dres *r, struct inflate_state **stp)
{
	struct inflate_state *st = g_alloc(sizeof *st, G_END);
	memset(r, 0, sizeof *r);
	if (stp)
		*stp = st;
	if (!V_TRY()) {
		r->fault = 1;
		return;
	}
	isal_inflate_init(st);
	st->crc_flag = crc_flag;
	st->hist_bits = hist_bits;
	st->next_in = in;
	st->avail_in = (uint32_t)inlen;
	st->next_out = out;
	st->avail_out = (uint32_t)outcap;
	if (api == DAPI_STATELESS) {
		r->ret = isal_inflate_stateless(st);
		r->calls = 1;
	} else {
		for (;;) {
			uint32_t ai = st->avail_in, ao = st->avail_out;
			int bs = st->block_state;
			r->ret = isal_inflate(st);
			r->calls++;
			if (r->ret < 0 || st->block_state == ISAL_BLOCK_FINISH || r->ret == ISAL_NEED_DICT)
				break;
			if ((st->avail_in == ai && st->avail_out == ao && (int)st->block_state == bs) || r->calls > 64)
				break;
		}
	}
	V_END();
	r->block_state = st->block_state;
	r->out_len = outcap - st->avail_out;
	r->total_out = st->total_out;
	r->in_pos = (inlen - st->avail_in) - (st->read_in_length > 0 ? st->read_in_length / 8 : 0);
	r->crc = st->crc;
}

/* wrap a raw deflate body for an ISA-L inflate crc_flag mode. returns total length; *true_end = position a conforming reader stops at */
static size_t wrap_stream(int crc_flag, const uint8_t *body, size_t blen, size_t end_bit, const uint8_t *x, size_t xlen, const struct rh_gzip *gh, uint8_t *o, size_t *true_end)
{
	size_t p = 0;
	static const struct rh_gzip plain = { 0, 0, 0, 0xff, NULL, -1, NULL, NULL, 0 };
	if (crc_flag == ISAL_GZIP)
		p += rh_gzip_write(o, gh ? gh : &plain);
	else if (crc_flag == ISAL_ZLIB) {
		struct rh_zlib zh = { 7, 2, 0, 0 };
		p += rh_zlib_write(o, &zh);
	}
	memcpy(o + p, body, blen);
	size_t body_end = p + (end_bit + 7) / 8;
	p += blen;
	if (crc_flag == ISAL_GZIP || crc_flag == ISAL_GZIP_NO_HDR || crc_flag == ISAL_GZIP_NO_HDR_VER)
		p += rh_gzip_trailer(o + p, ri_crc32(0, x, xlen), (uint32_t)xlen);
	else if (crc_flag != ISAL_DEFLATE)
		p += rh_zlib_trailer(o + p, ri_adler32(1, x, xlen));
	*true_end = (crc_flag == ISAL_DEFLATE || crc_flag == ISAL_GZIP_NO_HDR || crc_flag == ISAL_ZLIB_NO_HDR) ? body_end : p;
	return p;
}
#endif
