/* Explicit-state exploration of the real streaming codecs (shared by C07, C10, C14). */
#ifndef STREAM_EXPLORE_H
#define STREAM_EXPLORE_H
#include "streams.h"
#include "explore.h"
static int SE_IN_START; /* 1: every input chunk STARTS right behind an inaccessible page (a read in front of it faults); 0: it ENDS at one */

static long nfail;
static char ctxdesc[512];

/* =====================================================================================
 *                                   I N F L A T E
 * ===================================================================================== */
static struct inflate_state *IST;
static struct { uint32_t in_off, out_off; int last_ret; int tainted; } ICUR;
static size_t IHDRLEN; /* > 0: gzip header with optional fields / FHCRC of this many bytes */
#define KF_GZHDR "isal_inflate: gzip header carrying FEXTRA/FNAME/FCOMMENT/FHCRC split across calls (isal_inflate re-initialises a local isal_gzip_header on every call, losing flags/hcrc/extra_len)"
static const uint8_t *IS;   /* wrapped stream */
static size_t ISLEN, ITRUE_END;
static const uint8_t *IX;
static size_t IXLEN;
static int ICRC;
static int I_INVALID; /* the byte string is NOT a valid stream (reference verdict): under every schedule isal_inflate must never report completion, must terminate and stay in bounds */
static const int IA_IN[] = { 0, 1, 2, 3, 4, 7, 8, 9, -1 };
static const int IA_OUT[] = { 0, 1, 2, 3, 7, 8, 9, 257, 258, 259, 273, 274, 275, -1 };
#define NIA_IN 9
#define NIA_OUT 14

static void inf_reset(void)
{
	isal_inflate_init(IST);
	IST->crc_flag = ICRC;
	memset(&ICUR, 0, sizeof ICUR);
}
static void inf_save(uint8_t *d)
{
	memcpy(d, IST, sizeof *IST);
	memcpy(d + sizeof *IST, &ICUR, sizeof ICUR);
}
static void inf_restore(const uint8_t *s)
{
	memcpy(IST, s, sizeof *IST);
	memcpy(&ICUR, s + sizeof *IST, sizeof ICUR);
}
static void inf_key(uint64_t k[2])
{
	static struct inflate_state tmp;
	size_t head = offsetof(struct inflate_state, tmp_in_buffer);
	memcpy(&tmp, IST, head);
	tmp.next_in = NULL;
	tmp.next_out = NULL;
	tmp.avail_in = 0;
	tmp.avail_out = 0;
	uint64_t a = v_hash(&tmp, head, 1), b = v_hash(&tmp, head, 2);
	int tis = IST->tmp_in_size > 0 ? IST->tmp_in_size : 0;
	a = v_mix(a, v_hash(IST->tmp_in_buffer, tis, 3));
	int tov = IST->tmp_out_valid > 0 ? IST->tmp_out_valid : 0;
	b = v_mix(b, v_hash(IST->tmp_out_buffer, tov, 4));
	a = v_mix(a, ICUR.in_off);
	b = v_mix(b, ICUR.out_off);
	k[0] = a;
	k[1] = b;
}
static const char *inf_describe(int c)
{
	static char s[8][48];
	static int si;
	char *o = s[si++ & 7];
	snprintf(o, 48, "in=%d out=%d", IA_IN[c / NIA_OUT], IA_OUT[c % NIA_OUT]);
	return o;
}
/* next member: at every newly discovered state and every terminal of an inflate graph (FINISH on a valid stream, an error on an invalid one) the SAME state object is
 * recycled with isal_inflate_reset() - what a reader of concatenated members does - and a second, fixed member in the same wrapper mode
 * is decoded in one call and in 3-byte input pieces: it must finish with exactly its own output, checksum and input position, whatever
 * history led to the terminal. The state image is put back afterwards, so the exploration itself is unaffected. */
static uint8_t nm_x[40];
static size_t nm_xlen;
static struct { uint8_t s[96]; size_t len, true_end; int ready; } nm_member[16];
static void nm_build(int mode)
{
	static const struct tok T[] = { { 0, 'n', 0 }, { 0, 'e', 0 }, { 0, 'x', 0 }, { 0, 't', 0 }, { 0, '-', 0 }, { 4, 0, 5 }, { 0, '!', 0 }, { 9, 0, 1 }, { 3, 0, 14 } };
	uint8_t body[64];
	struct bw w;
	bw_init(&w, body, sizeof body);
	gen_fixed(&w, 1, T, 9);
	nm_xlen = 0;
	for (int i = 0; i < 9; i++) {
		if (!T[i].len)
			nm_x[nm_xlen++] = (uint8_t)T[i].lit;
		else
			for (int j = 0; j < T[i].len; j++, nm_xlen++)
				nm_x[nm_xlen] = nm_x[nm_xlen - T[i].dist];
	}
	nm_member[mode].len = wrap_stream(mode, body, bw_bytes(&w), w.bit, nm_x, nm_xlen, NULL, nm_member[mode].s, &nm_member[mode].true_end);
	nm_member[mode].ready = 1;
}
static int inf_next_member(const char *key, const struct ex_model *m)
{
	static uint8_t *img;
	int mode = ICRC, bad = 0;
	if (mode < 0 || mode >= 16)
		return 0;
	if (!nm_member[mode].ready)
		nm_build(mode);
	if (!img)
		img = malloc(sizeof *IST + sizeof ICUR);
	inf_save(img);
	for (int pieces = 0; pieces < 2 && !bad; pieces++) {
		inf_restore(img);
		size_t len = nm_member[mode].len, off = 0, produced = 0;
		uint8_t *out = g_alloc(nm_xlen + 8, G_END);
		int ret = 0, calls = 0;
		if (V_TRY()) {
			isal_inflate_reset(IST);
			IST->next_out = out;
			IST->avail_out = (uint32_t)nm_xlen + 8;
			while (off < len && calls++ < 64) {
				size_t k = pieces ? (len - off < 3 ? len - off : 3) : len;
				uint8_t *in = g_alloc(k, G_END);
				memcpy(in, nm_member[mode].s + off, k);
				IST->next_in = in;
				IST->avail_in = (uint32_t)k;
				ret = isal_inflate(IST);
				off += k - IST->avail_in;
				if (ret != ISAL_DECOMP_OK || IST->block_state == ISAL_BLOCK_FINISH || IST->avail_in)
					break;
			}
			produced = nm_xlen + 8 - IST->avail_out;
			V_END();
		} else {
			v_violation(key, "next member after isal_inflate_reset: fault %s; first member's schedule [%s]", v_fault_desc(), m ? ex_path_str(m) : "");
			bad = 1;
			break;
		}
		size_t pos = off - (IST->read_in_length > 0 ? IST->read_in_length / 8 : 0);
		int gz = mode == ISAL_GZIP || mode == ISAL_GZIP_NO_HDR || mode == ISAL_GZIP_NO_HDR_VER;
		uint32_t want = mode == ISAL_DEFLATE ? 0 : gz ? ri_crc32(0, nm_x, nm_xlen) : ri_adler32(1, nm_x, nm_xlen);
		if (ret != ISAL_DECOMP_OK || IST->block_state != ISAL_BLOCK_FINISH || produced != nm_xlen || memcmp(out, nm_x, nm_xlen) || pos != nm_member[mode].true_end || (mode != ISAL_DEFLATE && IST->crc != want) ||
		    IST->total_out != nm_xlen) {
			v_violation(key, "next member (%s) after isal_inflate_reset on the same state: return %d, block_state %d, %zu of %zu bytes%s, input position %zu (member ends at %zu), crc %08x (want %08x), total_out %u; first member's schedule [%s]",
				    pieces ? "3-byte pieces" : "one call", ret, IST->block_state, produced, nm_xlen, produced == nm_xlen && memcmp(out, nm_x, nm_xlen) ? " (wrong bytes)" : "", pos, nm_member[mode].true_end, IST->crc, want,
				    IST->total_out, m ? ex_path_str(m) : "");
			bad = 1;
		}
		if (!bad && g_check()) {
			v_violation(key, "next member: %s", g_last_damage());
			bad = 1;
		}
		g_reset();
		v_count("next_member_decodes", 1);
	}
	g_reset();
	inf_restore(img);
	return bad;
}
/* one real isal_inflate call offering ci input bytes and co output bytes (-1 = everything / ample) */
static int inf_call(int ci, int co, const struct ex_model *m)
{
	char key[600];
	size_t rem_in = ISLEN - ICUR.in_off;
	size_t k = ci < 0 || (size_t)ci > rem_in ? rem_in : (size_t)ci;
	size_t cap = co < 0 ? (I_INVALID ? IXLEN + 600 : IXLEN - ICUR.out_off + 64) : (size_t)co;
	if (IHDRLEN && ICUR.in_off < IHDRLEN && ICUR.in_off + k < IHDRLEN && (ICUR.in_off + k) > 0)
		ICUR.tainted = 1; /* this history splits a rich gzip header across calls: known finding, see known_findings.txt */
	uint8_t *in = g_alloc(k, SE_IN_START ? G_START : G_END), *out = g_alloc(cap, G_END);
	memcpy(in, IS + ICUR.in_off, k);
	IST->next_in = in;
	IST->avail_in = (uint32_t)k;
	IST->next_out = out;
	IST->avail_out = (uint32_t)cap;
	uint32_t total_before = IST->total_out;
	int ret;
	snprintf(key, sizeof key, "inflate %s", ctxdesc);
	if (ICUR.tainted)
		snprintf(key, sizeof key, "%s", KF_GZHDR);
	if (V_TRY()) {
		ret = isal_inflate(IST);
		V_END();
	} else {
		v_violation(key, "fault at %s addr=%p (%s) after schedule [%s]", v_sym(v_fault_rip), (void *)v_fault_addr, v_fault_write ? "write" : "read", m ? ex_path_str(m) : "");
		g_reset();
		nfail += !ICUR.tainted;
		return EX_VIOLATION;
	}
	size_t consumed = k - IST->avail_in, produced = cap - IST->avail_out;
	int bad = 0;
	if (IST->avail_in > k || IST->avail_out > cap || IST->next_in != in + consumed || IST->next_out != out + produced) {
		v_violation(key, "pointer/count bookkeeping inconsistent: avail_in %u of %zu, avail_out %u of %zu; schedule [%s]", IST->avail_in, k, IST->avail_out, cap, m ? ex_path_str(m) : "");
		bad = 1;
	} else if (IST->total_out - total_before != produced) {
		v_violation(key, "total_out advanced by %u but %zu bytes were written; schedule [%s]", IST->total_out - total_before, produced, m ? ex_path_str(m) : "");
		bad = 1;
	} else if (!I_INVALID && (ICUR.out_off + produced > IXLEN || memcmp(out, IX + ICUR.out_off, produced))) {
		v_violation(key, "output deviates from the one-shot result at offset %u (+%zu); schedule [%s]", ICUR.out_off, produced, m ? ex_path_str(m) : "");
		bad = 1;
	} else if (!I_INVALID && ret != ISAL_DECOMP_OK) {
		v_violation(key, "isal_inflate returned %d on a valid stream; schedule [%s]", ret, m ? ex_path_str(m) : "");
		bad = 1;
	} else if (I_INVALID && ret >= 0 && ret != ISAL_NEED_DICT && IST->block_state == ISAL_BLOCK_FINISH) {
		v_violation(key, "reports completion (return %d, FINISH, %zu bytes) on bytes the reference decoder rejects; schedule [%s]", ret, ICUR.out_off + produced, m ? ex_path_str(m) : "");
		bad = 1;
	}
	if (!bad && g_check()) {
		v_violation(key, "%s; schedule [%s]", g_last_damage(), m ? ex_path_str(m) : "");
		bad = 1;
	}
	g_reset();
	if (bad) {
		nfail += !ICUR.tainted;
		return EX_VIOLATION;
	}
	ICUR.in_off += consumed;
	ICUR.out_off += produced;
	ICUR.last_ret = ret;
	if (I_INVALID) {
		if (ret < 0 || ret == ISAL_NEED_DICT) {
			v_outcome(v_mix(0xbad, (uint64_t)(int64_t)ret));
			if (inf_next_member(key, m)) {
				nfail++;
				return EX_VIOLATION;
			}
			return EX_TERMINAL;
		}
		return EX_NEXT;
	}
	if (IST->block_state == ISAL_BLOCK_FINISH) {
		size_t pos = ICUR.in_off - (IST->read_in_length > 0 ? IST->read_in_length / 8 : 0);
		if (ICUR.out_off != IXLEN || pos != ITRUE_END) {
			v_violation(key, "FINISH with %u of %zu output bytes, input position %zu (stream ends at %zu); schedule [%s]", ICUR.out_off, IXLEN, pos, ITRUE_END, m ? ex_path_str(m) : "");
			nfail += !ICUR.tainted;
			return EX_VIOLATION;
		}
		if (ICRC) {
			int gz = ICRC == ISAL_GZIP || ICRC == ISAL_GZIP_NO_HDR || ICRC == ISAL_GZIP_NO_HDR_VER;
			uint32_t want = gz ? ri_crc32(0, IX, IXLEN) : ri_adler32(1, IX, IXLEN);
			if (IST->crc != want) {
				v_violation(key, "state.crc %08x != %08x at FINISH; schedule [%s]", IST->crc, want, m ? ex_path_str(m) : "");
				nfail += !ICUR.tainted;
				return EX_VIOLATION;
			}
		}
		v_outcome(v_mix(IST->crc, ICUR.out_off));
		if (inf_next_member(key, m)) {
			nfail += !ICUR.tainted;
			return EX_VIOLATION;
		}
		return EX_TERMINAL;
	}
	return EX_NEXT;
}
static const struct ex_model inf_model;
static int inf_step(int c) { return inf_call(IA_IN[c / NIA_OUT], IA_OUT[c % NIA_OUT], &inf_model); }
/* progress: from the current state, generous calls must reach FINISH within a small horizon */
static int inf_finish_generously(const struct ex_model *m, int horizon)
{
	for (int i = 0; i < horizon; i++) {
		uint32_t io = ICUR.in_off, oo = ICUR.out_off;
		int bs = IST->block_state;
		int r = inf_call(-1, -1, m);
		if (r == EX_TERMINAL)
			return 0;
		if (r == EX_VIOLATION)
			return -1;
		if (I_INVALID && ICUR.in_off == io && ICUR.out_off == oo && ICUR.in_off == ISLEN)
			return 0; /* everything consumed, the codec waits for more input: a legitimate end for a truncated/invalid stream */
		if (ICUR.in_off == io && ICUR.out_off == oo && (int)IST->block_state == bs) {
			char key[600];
			snprintf(key, sizeof key, "inflate no-progress %s", ctxdesc);
			if (ICUR.tainted)
				snprintf(key, sizeof key, "%s", KF_GZHDR);
			v_violation(key, "all remaining input (%zu bytes) and ample output offered, nothing consumed or produced, state %d unchanged; reached by [%s]",
				    ISLEN - ICUR.in_off, bs, m ? ex_path_str(m) : "");
			nfail += !ICUR.tainted;
			return -1;
		}
	}
	char key[600];
	snprintf(key, sizeof key, "inflate horizon %s", ctxdesc);
	if (ICUR.tainted)
		snprintf(key, sizeof key, "%s", KF_GZHDR);
	v_violation(key, "FINISH not reached within %d generous calls; reached by [%s]", horizon, m ? ex_path_str(m) : "");
	nfail += !ICUR.tainted;
	return -1;
}
static uint8_t *inf_tmpimg;
static void inf_on_state(int depth)
{
	(void)depth;
	if (!inf_tmpimg)
		inf_tmpimg = malloc(sizeof *IST + sizeof ICUR);
	inf_save(inf_tmpimg);
	inf_finish_generously(&inf_model, 6);
	inf_restore(inf_tmpimg);
	v_count("progress_checks", 1);
	/* abandoning the stream HERE (a reader that seeks away, or gives up on a member) and recycling the state object must work from every state */
	char key[600];
	snprintf(key, sizeof key, "inflate %s", ctxdesc);
	if (inf_next_member(key, &inf_model))
		nfail++;
}
static const struct ex_model inf_model = { sizeof(struct inflate_state) + sizeof ICUR, inf_save, inf_restore, inf_key, NIA_IN *NIA_OUT, inf_step, inf_on_state, inf_describe, NULL };

struct ostream { uint8_t *s; size_t slen, true_end, hdrlen; uint8_t *x; size_t xlen; int crc_flag; char desc[240]; };
static struct ostream *OS;
static int nOS, capOS;
static int collect_mode; /* wrapper mode used when collecting */
static size_t collect_max_s, collect_min_s;
static uint64_t collect_ctr, collect_every;
static uint8_t *wrapbuf;
static const uint8_t gz_extra[5] = { 'a', 'p', 1, 0, 'X' };
static const struct rh_gzip rich_hdr = { 1, 0x01020304, 2, 3, gz_extra, 5, "file.name", "a comment", 1 };
/* headers with ONE optional field: these survive any split in isal_inflate's automatic header handling (the known finding needs two) */
static const struct rh_gzip one_field_hdr[3] = { { 0, 0x01020304, 0, 3, gz_extra, 5, NULL, NULL, 0 }, { 0, 0x01020304, 0, 3, NULL, -1, "file.name", NULL, 0 }, { 0, 0x01020304, 0, 3, NULL, -1, NULL, "a comment", 0 } };

static void collect_cb(const struct gstream *g, void *ctx)
{
	(void)ctx;
	if (g->blen > collect_max_s || g->blen < collect_min_s)
		return;
	if (collect_every && !(collect_min_s && strstr(g->desc, "long-header")) && (collect_ctr++ % collect_every))
		return; /* (the long-header streams are all taken in the long pass: layer 1 cuts each at every byte of its header) */
	struct ri_opts o;
	memset(&o, 0, sizeof o);
	static struct ri_result rr;
	static uint8_t *tmp;
	if (!tmp)
		tmp = malloc(GS_MAXOUT);
	rr.out = tmp;
	rr.out_cap = GS_MAXOUT;
	ref_inflate(g->body, g->blen, &o, &rr);
	if (rr.verdict != RI_VALID || rr.out_len != g->xlen || memcmp(tmp, g->x, g->xlen))
		v_broken("reference gate failed for '%s'", g->desc);
	static const int modes[] = { ISAL_DEFLATE, ISAL_GZIP, ISAL_ZLIB, ISAL_GZIP_NO_HDR_VER, ISAL_ZLIB_NO_HDR };
	int mode = modes[(nOS + collect_mode) % 5];
	if (nOS >= capOS) {
		capOS = capOS ? capOS * 2 : 64;
		OS = realloc(OS, capOS * sizeof *OS);
	}
	struct ostream *s = &OS[nOS++];
	size_t te;
	const struct rh_gzip *gh = mode != ISAL_GZIP ? NULL : nOS % 4 == 1 ? &rich_hdr : nOS % 4 == 3 ? &one_field_hdr[(nOS / 4) % 3] : NULL;
	size_t wl = wrap_stream(mode, g->body, (rr.end_bit + 7) / 8, rr.end_bit, g->x, g->xlen, gh, wrapbuf, &te);
	/* the streaming API is given exactly the stream (no junk): trailers of the non-verifying NO_HDR modes stay unread */
	if (mode == ISAL_ZLIB_NO_HDR)
		wl = te;
	s->s = malloc(wl + 1);
	memcpy(s->s, wrapbuf, wl);
	s->slen = wl;
	s->true_end = te;
	s->x = malloc(g->xlen + 1);
	memcpy(s->x, g->x, g->xlen);
	s->xlen = g->xlen;
	s->crc_flag = mode;
	s->hdrlen = 0;
	if (gh == &rich_hdr) {
		uint8_t hb[512];
		s->hdrlen = rh_gzip_write(hb, &rich_hdr);
	}
	snprintf(s->desc, sizeof s->desc, "%s mode=%s%s", g->desc, cf_name[mode], gh == &rich_hdr ? "+rich-header" : gh ? (gh->extra_len >= 0 ? "+extra-only-header" : gh->name ? "+name-only-header" : "+comment-only-header") : "");
}
static int all_mine(uint64_t id) { (void)id; return 1; }

static void inf_select(const struct ostream *s, int cpu)
{
	IS = s->s; ISLEN = s->slen; ITRUE_END = s->true_end; IX = s->x; IXLEN = s->xlen; ICRC = s->crc_flag; IHDRLEN = s->hdrlen;
	snprintf(ctxdesc, sizeof ctxdesc, "%s cpu=%s", s->desc, cpu_level_name[cpu]);
	cpu_set_level(cpu);
}

static void inflate_part(void)
{
	static const int cpus[] = { CPU_BASE, CPU_SSE, CPU_AVX2 };
	IST = g_persist(sizeof *IST, G_END);
	wrapbuf = malloc(GS_MAXBODY + 4096);
	uint64_t idx = 0;
	/* ---- streams for the free-schedule layer: short members of the grammar closure ---- */
	collect_max_s = v_thorough ? 300 : 64;
	collect_min_s = 0;
	collect_every = v_thorough ? 29 : 9;
	gs_family_shapes(all_mine, &idx, collect_cb, NULL);
	collect_every = v_thorough ? 67 : 19;
	gs_family_tokens(2, 1, all_mine, &idx, collect_cb, NULL);
	int nshort = nOS;
	/* ---- longer streams for layers 1 and 2 ---- */
	collect_max_s = GS_MAXBODY;
	collect_min_s = 65;
	collect_every = v_thorough ? 11 : 19;
	gs_family_shapes(all_mine, &idx, collect_cb, NULL);
	collect_every = v_thorough ? 400 : 900;
	collect_min_s = 300;
	gs_family_matches(0, all_mine, &idx, collect_cb, NULL);
	collect_every = v_thorough ? 150 : 400;
	gs_family_zlib(0, all_mine, &idx, collect_cb, NULL);
	/* streams made by ISA-L itself (level 0 ones carry its default dynamic header, which the decoder recognises by a
	 * byte-wise comparison shortcut): short ones, so that layer 1 tries EVERY split point inside that header */
	collect_every = 0;
	collect_min_s = 100;
	collect_max_s = 590;
	gs_family_isal(0, all_mine, &idx, collect_cb, NULL);
	v_count("inflate_streams_short", nshort);
	v_count("inflate_streams_long", nOS - nshort);
	uint64_t unit = 0;
	/* ---- layer 3: all call histories over the alphabets (explicit-state, deduplicated) ---- */
	for (int si = 0; si < nshort; si++)
		for (int ci = 0; ci < 3; ci++) {
			if (!v_mine(unit++))
				continue;
			if (nfail > 20 || v_deadline_hit())
				return;
			inf_select(&OS[si], cpus[ci]);
			g_strict_free = 1;
			SE_IN_START = (si + ci) & 1; /* alternate graphs guard the front / the end of every input chunk */
			inf_reset();
			struct ex_stats st = { 0 };
			ex_run(&inf_model, &st, v_thorough ? 3000000 : 400000);
			g_strict_free = 0;
			SE_IN_START = 0;
			v_count("states", st.states);
			v_count("transitions", st.transitions);
			v_count("traces_validated_against_impl", st.terminals);
			v_count("inflate_graphs", 1);
			v_count("dedup_hits", st.dedup_hits);
			v_max("max_depth", st.max_depth);
			if (st.capped) {
				v_count("graphs_capped", 1);
				v_not_exhaustive("an inflate state graph hit its state cap or the deadline");
			}
			v_nontrivial(v_hash(ctxdesc, strlen(ctxdesc), 9));
			v_eval_n(st.transitions);
			if (st.states > 2000 && si % 7 == 0)
				v_sample("inflate graph %s: %llu states %llu transitions %llu terminal paths max depth %llu", ctxdesc, (unsigned long long)st.states,
					 (unsigned long long)st.transitions, (unsigned long long)st.terminals, (unsigned long long)st.max_depth);
		}
	/* ---- layers 1 and 2 on every stream (short and long) ---- */
	for (int si = 0; si < nOS; si++)
		for (int ci = 0; ci < 3; ci++) {
			if (!v_mine(unit++))
				continue;
			if (nfail > 20 || v_deadline_hit())
				return;
			inf_select(&OS[si], cpus[ci]);
			g_strict_free = 1;
			/* layer 1: every single split of the input x every single split of the output space, then generous calls */
			size_t S = ISLEN, N = IXLEN;
			for (size_t a = 0; a <= S; a++) {
				if (S > 600 && !(a <= 24 || S - a <= 24 || a % 997 == 0 || (a >= 65530 && a <= 65560)))
					continue;
				for (size_t o = 0; o <= N; o++) {
					if (N > 600 && !(o <= 20 || N - o <= 20 || (o >= 256 && o <= 276) || o % 4099 == 0 || (o >= 32766 && o <= 32770) || (o >= 65534 && o <= 65538)))
						continue;
					if (S * N > 90000 && a > 24 && o > 20 && (a * 31 + o) % 7)
						continue;
					inf_reset();
					ex_depth = 0;
					int r = inf_call((int)a, (int)o, NULL);
					if (r == EX_NEXT)
						r = inf_finish_generously(NULL, 8);
					v_count("layer1_single_split_runs", 1);
					v_eval();
					if ((r == EX_VIOLATION || r < 0) && !ICUR.tainted) {
						char key[600];
						snprintf(key, sizeof key, "inflate layer1 %s", ctxdesc);
						v_violation(key, "first call with %zu input bytes and %zu output bytes, then generous calls", a, o);
						if (nfail > 20)
							return;
					}
				}
			}
			/* layer 2: uniform (c_in, c_out) on every call */
			for (int ia = 1; ia < NIA_IN; ia++)
				for (int oa = 1; oa < NIA_OUT; oa++) {
					if ((S + N) / 2 > 20000 && (IA_IN[ia] >= 0 && IA_IN[ia] < 7) && (IA_OUT[oa] >= 0 && IA_OUT[oa] < 257))
						continue; /* tiny x tiny chunks on long streams: quadratic, skipped (covered on short ones) */
					inf_reset();
					int r = EX_NEXT, guard = 0;
					while (r == EX_NEXT && guard++ < 400000) {
						uint32_t io = ICUR.in_off, oo = ICUR.out_off;
						int bs = IST->block_state;
						r = inf_call(IA_IN[ia], IA_OUT[oa], NULL);
						if (r == EX_NEXT && io == ICUR.in_off && oo == ICUR.out_off && bs == (int)IST->block_state) {
							char key[600];
							snprintf(key, sizeof key, "inflate layer2 no-progress %s", ctxdesc);
							v_violation(key, "uniform chunks in=%d out=%d: a call changed nothing at in=%u out=%u state=%d", IA_IN[ia], IA_OUT[oa], io, oo, bs);
							nfail++;
							break;
						}
					}
					v_count("layer2_uniform_runs", 1);
					v_eval();
				}
			g_strict_free = 0;
			v_nontrivial(v_hash(ctxdesc, strlen(ctxdesc), 10));
		}
}

/* =====================================================================================
 *                                   D E F L A T E
 * ===================================================================================== */
static struct isal_zstream *DST;
static uint8_t *DLB;
static uint32_t DLBS;
#define DOUT_MAX 200000
static struct dcur { uint32_t in_off, out_len, flush_budget, zero_budget; uint8_t eos_announced, pad[3]; uint32_t nflush; uint32_t flush_at[8], flush_kind[8], flush_in[8]; uint8_t out[DOUT_MAX]; } DCUR;
static const uint8_t *DIN;
static size_t DINLEN;
static int DLEVEL, DGZ;
static const int DA_IN_FULL[] = { 0, 1, 2, 7, 8, 9, -1 };
static const int DA_OUT_FULL[] = { 0, 1, 2, 7, 8, 9, 15, 16, 17, -1 };
static const int *DA_IN = DA_IN_FULL, *DA_OUT = DA_OUT_FULL;
static int NDA_IN = 7, NDA_OUT = 10;
static int DA_NFLUSH = 3, DA_NEOS = 2;
#define KF_FLUSH_REFILL "isal_deflate: SYNC/FULL flush call that first has to finish output pending from an earlier call buffers the newly offered input without compressing it, yet returns with avail_in==0, avail_out>0 and ZSTATE_NEW_HDR (flush-point guarantee of igzip_lib.h not met)"
static uint32_t SE_IN_BEFORE; static int SE_ST_BEFORE; static size_t SE_CONSUMED; /* facts about the call being judged at a flush point */
static int SE_CONTIG; /* 1: chunks are cut from ONE contiguous caller buffer (the common caller discipline) instead of a fresh mapping per call */
static uint8_t *se_contig_buf; static size_t se_contig_cap; static const uint8_t *se_contig_src;
static void (*SE_STATE_HOOK)(void); /* called for every newly discovered deflate state (on a scratch copy) */
static int SE_REQUIRE_PROGRESS; /* C10: a call with end_of_stream, all input offered and avail_out>=1 must consume, produce or change state */ /* flush choices {NO,SYNC,FULL} and eos timing {with last chunk, late} */
/* choice = ((ia * NDA_OUT + oa) * 3 + flush) * 2 + eos_timing */
#define NDCHOICE (NDA_IN * NDA_OUT * 3 * 2)

static struct isal_hufftables *SE_HUFFTABLES; /* optional: table installed right after init (type SE_HUFF_TYPE) */
static int SE_HUFF_TYPE;
static struct isal_zstream *DST_E, *DST_S;
static unsigned se_dst_flip;
static void def_reset(int flush_budget)
{
	/* the stream object alternates between a mapping that ENDS at an inaccessible page and one that STARTS right behind one: the codec
	 * keeps its history inside the object, and a look-back that strays in front of it must fault instead of reading neighbouring memory */
	if (!DST_E)
		DST_E = DST;
	if (!DST_S)
		DST_S = g_persist(sizeof *DST, G_START);
	DST = (se_dst_flip++ & 1) ? DST_S : DST_E;
	isal_deflate_init(DST);
	DST->level = DLEVEL;
	DST->level_buf = DLEVEL ? DLB : NULL;
	DST->level_buf_size = DLEVEL ? DLBS : 0;
	DST->gzip_flag = DGZ;
	if (SE_HUFF_TYPE)
		isal_deflate_set_hufftables(DST, SE_HUFFTABLES, SE_HUFF_TYPE);
	memset(&DCUR, 0, offsetof(struct dcur, out));
	se_contig_src = NULL; /* the contiguous copy is keyed by pointer: refresh it per run (callers refill the same buffer with new data) */
	DCUR.flush_budget = flush_budget;
	DCUR.zero_budget = 2;
}
static size_t def_img_size(void) { return sizeof *DST + DLBS + sizeof DCUR; }
static void def_save(uint8_t *d)
{
	memcpy(d, DST, sizeof *DST);
	memcpy(d + sizeof *DST, DLB, DLBS);
	memcpy(d + sizeof *DST + DLBS, &DCUR, offsetof(struct dcur, out) + DCUR.out_len);
}
static void def_restore(const uint8_t *s)
{
	memcpy(DST, s, sizeof *DST);
	memcpy(DLB, s + sizeof *DST, DLBS);
	memcpy(&DCUR, s + sizeof *DST + DLBS, offsetof(struct dcur, out));
	memcpy(DCUR.out, s + sizeof *DST + DLBS + offsetof(struct dcur, out), DCUR.out_len);
}
static void def_key(uint64_t k[2])
{
	static struct isal_zstream tmp;
	size_t head = offsetof(struct isal_zstream, internal_state) + offsetof(struct isal_zstate, buffer);
	memcpy(&tmp, DST, head);
	tmp.next_in = NULL; tmp.next_out = NULL; tmp.avail_in = 0; tmp.avail_out = 0;
	tmp.end_of_stream = 0; tmp.flush = 0; /* per-call inputs chosen afresh by the caller */
	tmp.internal_state.bitbuf.m_out_buf = tmp.internal_state.bitbuf.m_out_end = tmp.internal_state.bitbuf.m_out_start = NULL;
	struct isal_zstate *zs = &DST->internal_state;
	uint32_t te = zs->tmp_out_end <= 16 ? zs->tmp_out_end : 16;
	memset(tmp.internal_state.tmp_out_buff + te, 0, 16 - te);
	uint64_t a = v_hash(&tmp, head, 11), b = v_hash(&tmp, head, 12);
	uint32_t bv = zs->b_bytes_valid <= sizeof zs->buffer ? zs->b_bytes_valid : sizeof zs->buffer;
	a = v_mix(a, v_hash(zs->buffer, bv, 13));
	b = v_mix(b, v_hash(zs->head, sizeof zs->head, 14));
	if (DLEVEL)
		a = v_mix(a, v_hash(DLB, DLBS, 15));
	a = v_mix(a, v_hash(&DCUR, offsetof(struct dcur, out), 16));
	b = v_mix(b, v_hash(DCUR.out, DCUR.out_len, 17));
	k[0] = a;
	k[1] = b;
}
static const char *def_describe(int c)
{
	static char s[8][64];
	static int si;
	char *o = s[si++ & 7];
	int et = c & 1, fl = (c >> 1) % 3, io = (c >> 1) / 3;
	snprintf(o, 64, "in=%d out=%d %s%s", DA_IN[io / NDA_OUT], DA_OUT[io % NDA_OUT], flush_name[fl], et ? " eos-late" : "");
	return o;
}
static struct ex_model def_model;
static int def_verify_final(const struct ex_model *m, const char *what);

/* one real isal_deflate call. ci/co: -1 = everything / ample. eos_late: do not announce end_of_stream together with the last bytes */
static int def_call(int ci, int co, int flush, int eos_late, const struct ex_model *m)
{
	char key[600];
	snprintf(key, sizeof key, "deflate %s", ctxdesc);
	size_t rem = DINLEN - DCUR.in_off;
	size_t k = ci < 0 || (size_t)ci > rem ? rem : (size_t)ci;
	size_t cap = co < 0 ? 2 * DINLEN + 600 : (size_t)co;
	if (DCUR.out_len + cap > DOUT_MAX)
		cap = DOUT_MAX > DCUR.out_len ? DOUT_MAX - DCUR.out_len : 0;
	if (DCUR.eos_announced) {
		/* contract: end_of_stream was announced with the last buffer; until it is consumed the caller keeps presenting
		 * ALL remaining bytes with the flag set (presenting less while claiming end-of-stream would be a caller error) */
		if (ci >= 0 || eos_late)
			return EX_SKIP;
		k = rem;
	}
	int last = DCUR.in_off + k == DINLEN;
	int eos = last && (DCUR.eos_announced || !eos_late);
	if (flush != NO_FLUSH) {
		if (!DCUR.flush_budget)
			return EX_SKIP;
	}
	uint8_t *in, *out = g_alloc(cap, G_END);
	if (SE_CONTIG) {
		if (!se_contig_buf || se_contig_cap < DINLEN + 1) {
			se_contig_cap = DINLEN + 1 > 70001 ? DINLEN + 1 : 70001;
			se_contig_buf = g_persist(se_contig_cap, G_END);
			se_contig_src = NULL;
		}
		if (se_contig_src != DIN) {
			uint8_t *base = se_contig_buf + se_contig_cap - DINLEN; /* input ends at the inaccessible page */
			memcpy(base, DIN, DINLEN);
			se_contig_src = DIN;
		}
		in = se_contig_buf + se_contig_cap - DINLEN + DCUR.in_off;
	} else {
		in = g_alloc(k, SE_IN_START ? G_START : G_END);
		memcpy(in, DIN + DCUR.in_off, k);
	}
	DST->next_in = in;
	DST->avail_in = (uint32_t)k;
	DST->next_out = out;
	DST->avail_out = (uint32_t)cap;
	/* "non-zero if this is the last input buffer" (igzip_lib.h): the last-buffer flag is 1, 2 or 0x100, by input position */
	{
		static const uint16_t eosv[3] = { 1, 2, 0x100 };
		DST->end_of_stream = eos ? eosv[(DCUR.in_off + DINLEN + DLEVEL) % 3] : 0;
	}
	DST->flush = flush;
	uint32_t tin = DST->total_in, tout = DST->total_out;
	int st_before = DST->internal_state.state;
	int ret;
	if (V_TRY()) {
		ret = isal_deflate(DST);
		V_END();
	} else {
		v_violation(key, "fault at %s addr=%p (%s) after schedule [%s]", v_sym(v_fault_rip), (void *)v_fault_addr, v_fault_write ? "write" : "read", m ? ex_path_str(m) : "");
		g_reset();
		nfail++;
		return EX_VIOLATION;
	}
	size_t consumed = k - DST->avail_in, produced = cap - DST->avail_out;
	int bad = 0;
	if (ret != COMP_OK) {
		v_violation(key, "isal_deflate returned %d; schedule [%s]", ret, m ? ex_path_str(m) : "");
		bad = 1;
	} else if (DST->avail_in > k || DST->avail_out > cap || DST->next_in != in + consumed || DST->next_out != out + produced || DST->total_in - tin != consumed ||
		   DST->total_out - tout != produced) {
		v_violation(key, "bookkeeping: consumed %zu (total_in +%u) produced %zu (total_out +%u); schedule [%s]", consumed, DST->total_in - tin, produced, DST->total_out - tout,
			    m ? ex_path_str(m) : "");
		bad = 1;
	}
	if (!bad && g_check()) {
		v_violation(key, "%s; schedule [%s]", g_last_damage(), m ? ex_path_str(m) : "");
		bad = 1;
	}
	if (!bad)
		memcpy(DCUR.out + DCUR.out_len, out, produced);
	g_reset();
	if (bad) {
		nfail++;
		return EX_VIOLATION;
	}
	DCUR.in_off += consumed;
	DCUR.out_len += produced;
	if (eos)
		DCUR.eos_announced = 1;
	if (flush != NO_FLUSH)
		DCUR.flush_budget--;
	if (flush == SYNC_FLUSH)
		DCUR.pad[0] = 1; /* a SYNC flush was requested somewhere in this history */
	/* pad[2]: a FULL flush has been requested and has not completed yet (completion = a FULL_FLUSH call returning with all input consumed
	 * and output space left). A caller that stops asking before that (NO_FLUSH while the request is open) has withdrawn it: what the
	 * marker the codec may still emit means is then not defined by the interface, and the history is not judged marker by marker */
	if (flush != FULL_FLUSH && DCUR.pad[2])
		DCUR.pad[0] = 1;
	if (flush == FULL_FLUSH) {
		DCUR.pad[1] = 1;
		DCUR.pad[2] = !(DST->avail_in == 0 && DST->avail_out > 0);
	}
	/* C14: a flush point is a SYNC/FULL call returning with all input consumed and output space left */
	if (flush != NO_FLUSH && DST->avail_in == 0 && DST->avail_out > 0 && DST->internal_state.state != ZSTATE_END && DCUR.nflush < 8) {
		DCUR.flush_at[DCUR.nflush] = DCUR.out_len;
		DCUR.flush_kind[DCUR.nflush] = flush;
		DCUR.flush_in[DCUR.nflush] = DCUR.in_off;
		DCUR.nflush++;
		SE_IN_BEFORE = DCUR.in_off - (uint32_t)consumed;
		SE_ST_BEFORE = st_before;
		SE_CONSUMED = consumed;
		int fr = def_verify_final(m, "flush-point");
		if (fr == 2)
			DCUR.nflush--; /* known finding: this was not a real flush point, do not use it for the suffix checks */
		else if (fr)
			return EX_VIOLATION;
	}
	if (DST->internal_state.state == ZSTATE_END) {
		if (def_verify_final(m, "end"))
			return EX_VIOLATION;
		return EX_TERMINAL;
	}
	if (SE_REQUIRE_PROGRESS && eos && cap >= 1 && consumed == 0 && produced == 0 && (int)DST->internal_state.state == st_before) {
		v_violation(key, "C10: end_of_stream set, all remaining input offered, %zu bytes of output space, yet the call consumed nothing, produced nothing and left state %d unchanged "
			    "(an endless loop for this caller); schedule [%s]", cap, st_before, m ? ex_path_str(m) : "");
		nfail++;
		return EX_VIOLATION;
	}
	if (consumed == 0 && produced == 0 && (int)DST->internal_state.state == st_before) {
		if (!DCUR.zero_budget)
			return EX_SKIP; /* horizon for consecutive empty calls: keeps the graph finite */
		DCUR.zero_budget--;
	} else
		DCUR.zero_budget = 2;
	if (DCUR.out_len >= DOUT_MAX) {
		v_violation(key, "output exceeded %d bytes for a %zu-byte input; schedule [%s]", DOUT_MAX, DINLEN, m ? ex_path_str(m) : "");
		nfail++;
		return EX_VIOLATION;
	}
	return EX_NEXT;
}
static int def_skip(const uint8_t *img, int c)
{
	const struct dcur *cur = (const struct dcur *)(img + sizeof *DST + DLBS);
	int et = c & 1, fl = (c >> 1) % 3, io = (c >> 1) / 3;
	if (fl != NO_FLUSH && !cur->flush_budget)
		return 1;
	if (fl >= DA_NFLUSH || et >= DA_NEOS)
		return 1;
	if (cur->eos_announced && (DA_IN[io / NDA_OUT] >= 0 || et))
		return 1;
	return 0;
}
static int def_step(int c)
{
	int et = c & 1, fl = (c >> 1) % 3, io = (c >> 1) / 3;
	return def_call(DA_IN[io / NDA_OUT], DA_OUT[io % NDA_OUT], fl, et, &def_model);
}
/* oracle: at END the whole output decodes (ref + zlib) to the whole input; at a flush point the prefix decodes to the input
 * handed over so far, ends with 00 00 FF FF on a byte boundary; FULL flush suffixes decode on their own. returns 1 on violation */
static int def_verify_final(const struct ex_model *m, const char *what)
{
	char key[600], why[300];
	snprintf(key, sizeof key, "deflate %s %s", what, ctxdesc);
	/* identical (output bytes, input consumed, flush record) were already verified in this graph: skip the decoders */
	{
		static struct ex_kset vdone;
		static char vctx[512];
		if (strcmp(vctx, ctxdesc)) {
			ex_kfree(&vdone);
			snprintf(vctx, sizeof vctx, "%s", ctxdesc);
		}
		uint64_t k[2] = { v_hash(DCUR.out, DCUR.out_len, what[0]), v_hash(&DCUR, offsetof(struct dcur, out), 77) ^ (uint64_t)DST->internal_state.state };
		if (!ex_kadd(&vdone, k)) {
			v_count("verifications_cached", 1);
			return 0;
		}
	}
	if (!strcmp(what, "end")) {
		if (DCUR.in_off != DINLEN) {
			v_violation(key, "ZSTATE_END with %u of %zu input bytes consumed; schedule [%s]", DCUR.in_off, DINLEN, m ? ex_path_str(m) : "");
			nfail++;
			return 1;
		}
		if (!verify_deflate_output(DCUR.out, DCUR.out_len, DGZ, DIN, DINLEN, 0, 0, NULL, 0, why, sizeof why) ||
		    !verify_with_zlib(DCUR.out, DCUR.out_len, DGZ, DIN, DINLEN, why, sizeof why)) {
			v_violation(key, "%s; stream=%s; schedule [%s]", why, v_hex(DCUR.out, DCUR.out_len), m ? ex_path_str(m) : "");
			nfail++;
			return 1;
		}
		v_outcome(v_hash(DCUR.out, DCUR.out_len, 5));
		/* histories whose flush requests were ALL full flushes and were never withdrawn (every call between a FULL_FLUSH request and its
		 * completion carried FULL_FLUSH too): every flush marker in the stream - also one written in the MIDDLE of a later call, after the
		 * call that requested it had run out of output space - belongs to a completed full flush, so the stream must decode on its own
		 * from behind each of them */
		if (DCUR.pad[1] && !DCUR.pad[0]) {
			size_t mk_off[16], mk_in[16];
			int nmk = 0;
			for (int b = 0; b < vs_res.nblocks && b < RI_MAXBLK && nmk < 16; b++)
				if (vs_res.blk[b].type == 0 && !vs_res.blk[b].bfinal && vs_res.blk[b].out_start == vs_res.blk[b].out_end) {
					mk_off[nmk] = vs_res.blk[b].bit_end / 8; /* bit offsets count from the start of the buffer, wrapper header included */
					mk_in[nmk++] = vs_res.blk[b].out_end;
				}
			size_t trail = DGZ == IGZIP_GZIP || DGZ == IGZIP_GZIP_NO_HDR ? 8 : DGZ == IGZIP_ZLIB || DGZ == IGZIP_ZLIB_NO_HDR ? 4 : 0;
			for (int i = 0; i < nmk; i++) {
				struct ri_opts o;
				memset(&o, 0, sizeof o);
				vs_need(DINLEN + 64);
				vs_res.out = vs_buf;
				vs_res.out_cap = DINLEN + 64;
				if (mk_off[i] + trail > DCUR.out_len)
					continue;
				ref_inflate(DCUR.out + mk_off[i], DCUR.out_len - trail - mk_off[i], &o, &vs_res);
				size_t want = DINLEN - mk_in[i];
				if (vs_res.verdict != RI_VALID || vs_res.out_len != want || memcmp(vs_buf, DIN + mk_in[i], want)) {
					v_violation(key, "C14: only FULL flushes were requested, yet the stream does not decode on its own from behind the flush marker at output offset %zu (input offset %zu): %s %s; schedule [%s]",
						    mk_off[i], mk_in[i], vs_res.verdict == RI_INVALID ? ri_class_name(vs_res.cls) : "wrong data", vs_res.why ? vs_res.why : "", m ? ex_path_str(m) : "");
					nfail++;
					return 1;
				}
				v_count("full_flush_markers_decoded_from", 1);
			}
		}
		/* FULL flush independence: each suffix starting at a completed full-flush point decodes with an EMPTY window */
		for (uint32_t i = 0; i < DCUR.nflush; i++) {
			if (DCUR.flush_kind[i] != FULL_FLUSH)
				continue;
			size_t trail = DGZ == IGZIP_GZIP || DGZ == IGZIP_GZIP_NO_HDR ? 8 : DGZ == IGZIP_ZLIB || DGZ == IGZIP_ZLIB_NO_HDR ? 4 : 0;
			struct ri_opts o;
			memset(&o, 0, sizeof o);
			vs_need(DINLEN + 64);
			vs_res.out = vs_buf;
			vs_res.out_cap = DINLEN + 64;
			ref_inflate(DCUR.out + DCUR.flush_at[i], DCUR.out_len - trail - DCUR.flush_at[i], &o, &vs_res);
			size_t want = DINLEN - DCUR.flush_in[i];
			if (vs_res.verdict != RI_VALID || vs_res.out_len != want || memcmp(vs_buf, DIN + DCUR.flush_in[i], want)) {
				v_violation(key, "C14: suffix after the FULL flush at output offset %u does not decode on its own (%s %s); schedule [%s]", DCUR.flush_at[i],
					    vs_res.verdict == RI_INVALID ? ri_class_name(vs_res.cls) : "wrong data", vs_res.why ? vs_res.why : "", m ? ex_path_str(m) : "");
				nfail++;
				return 1;
			}
			v_count("full_flush_suffixes_decoded", 1);
		}
		return 0;
	}
	/* flush point */
	size_t hdr = 0;
	uint32_t n = DCUR.out_len;
	if (n < 4 || DCUR.out[n - 4] != 0 || DCUR.out[n - 3] != 0 || DCUR.out[n - 2] != 0xff || DCUR.out[n - 1] != 0xff) {
		v_violation(key, "C14: output at a flush point does not end with 00 00 FF FF: ...%s; schedule [%s]", v_hex(DCUR.out + (n > 8 ? n - 8 : 0), n > 8 ? 8 : n), m ? ex_path_str(m) : "");
		nfail++;
		return 1;
	}
	(void)hdr;
	if (!verify_deflate_output(DCUR.out, DCUR.out_len, DGZ == IGZIP_GZIP_NO_HDR || DGZ == IGZIP_ZLIB_NO_HDR ? IGZIP_DEFLATE : DGZ, DIN, DCUR.in_off, 1, 0, NULL, 0, why, sizeof why)) {
		/* known finding (known_findings.txt): exactly this history - the call entered with output pending (not at NEW_HDR), took new input,
		 * and the prefix is a valid flush of input consumed BEFORE this call (the input taken by calls that entered with output pending is still only buffered) */
		if (SE_ST_BEFORE != ZSTATE_NEW_HDR && SE_CONSUMED > 0 && vs_res.verdict == RI_VALID && vs_res.out_len <= SE_IN_BEFORE && !memcmp(vs_buf, DIN, vs_res.out_len)) {
			v_violation(KF_FLUSH_REFILL, "%s: fed %u bytes, output decodes to %zu; schedule [%s]", ctxdesc, DCUR.in_off, vs_res.out_len, m ? ex_path_str(m) : "");
			return 2;
		}
		v_violation(key, "C14: prefix at a flush point: %s; schedule [%s]", why, m ? ex_path_str(m) : "");
		nfail++;
		return 1;
	}
	if (DST->internal_state.state != ZSTATE_NEW_HDR) {
		v_violation(key, "C14: state %d after a completed flush (ZSTATE_NEW_HDR documented); schedule [%s]", DST->internal_state.state, m ? ex_path_str(m) : "");
		nfail++;
		return 1;
	}
	v_count("flush_points_checked", 1);
	return 0;
}
static int def_finish_generously(const struct ex_model *m, int horizon)
{
	for (int i = 0; i < horizon; i++) {
		uint32_t io = DCUR.in_off, oo = DCUR.out_len;
		int st = DST->internal_state.state;
		DCUR.flush_budget += 0;
		int r = def_call(-1, -1, NO_FLUSH, 0, m);
		if (r == EX_TERMINAL)
			return 0;
		if (r == EX_VIOLATION)
			return -1;
		if (DCUR.in_off == io && DCUR.out_len == oo && (int)DST->internal_state.state == st) {
			char key[600];
			snprintf(key, sizeof key, "deflate no-progress %s", ctxdesc);
			v_violation(key, "end_of_stream set, all input and ample output offered, nothing happened in state %d; reached by [%s]", st, m ? ex_path_str(m) : "");
			nfail++;
			return -1;
		}
	}
	char key[600];
	snprintf(key, sizeof key, "deflate horizon %s", ctxdesc);
	v_violation(key, "ZSTATE_END not reached within %d generous calls; reached by [%s]", horizon, m ? ex_path_str(m) : "");
	nfail++;
	return -1;
}
/* big-then-tiny histories on LONG inputs: one call is given a large piece of input but little output space (it returns with the
 * output full, possibly with tokens and look-ahead state pending inside the codec), the next call presents only 0 / 1 / 7 / 300
 * of the remaining bytes, with ample or tiny output space and any flush kind; then generous calls must finish the stream
 * correctly. Level buffers of every named size. The usual per-call checks (bookkeeping, guard pages, flush points) apply. */
static void def_big_then_tiny(const uint8_t *data, size_t len, const char *name, int level, int gz, int cpu, int lbi)
{
	/* first pieces below and ABOVE the size of the internal staging buffer (65824): above it the call cannot take everything in */
	static const int as[] = { 2000, 20000, 70000, 100000 }, os[] = { 1, 1000, 4000 }, bs[] = { 0, 1, 7, 300 }, bos[] = { -1, 100 };
	static uint8_t *biglb;
	static const char *lbn[] = { "MIN", "SMALL", "MEDIUM", "DEFAULT" };
	if (!DST)
		DST = g_persist(sizeof *DST, G_END);
	if (!biglb)
		biglb = g_persist(ISAL_DEF_LVL3_DEFAULT, G_END);
	uint8_t *keep = DLB;
	uint32_t named[4] = { lvl_min[level], lvl_small[level], lvl_medium[level], lvl_default[level] };
	DLB = biglb;
	DIN = data; DINLEN = len; DLEVEL = level; DGZ = gz; DLBS = named[lbi];
	cpu_set_level(cpu);
	for (int ai = 0; ai < 4; ai++)
		for (int oi = 0; oi < 3; oi++)
			for (int bi = 0; bi < 4; bi++)
				for (int boi = 0; boi < 2; boi++)
					for (int fl = 0; fl < 3; fl++) {
						if (nfail > 20)
							goto done;
						snprintf(ctxdesc, sizeof ctxdesc, "big-then-tiny input=%s:%zu level=%d level_buf=%s wrapper=%s cpu=%s call1(in=%d,out=%d) call2(in=%d,out=%d,%s)", name, len, level, lbn[lbi], gz_name[gz],
							 cpu_level_name[cpu], as[ai], os[oi], bs[bi], bos[boi], flush_name[fl]);
						g_strict_free = 1;
						def_reset(4);
						ex_depth = 0;
						int r = def_call(as[ai], os[oi], NO_FLUSH, 0, NULL);
						if (r == EX_NEXT)
							r = def_call(bs[bi], bos[boi], fl, 0, NULL);
						if (r == EX_NEXT || r == EX_SKIP)
							def_finish_generously(NULL, 16);
						g_strict_free = 0;
						v_count("big_then_tiny_runs", 1);
						v_eval();
					}
done:
	DLB = keep;
	v_nontrivial(v_hash(ctxdesc, strlen(ctxdesc), 33));
}
static uint8_t *def_tmpimg;
static size_t def_tmpcap;
static void def_on_state(int depth)
{
	(void)depth;
	if (def_tmpcap < def_img_size()) {
		def_tmpcap = def_img_size();
		def_tmpimg = realloc(def_tmpimg, def_tmpcap);
	}
	def_save(def_tmpimg);
	if (SE_STATE_HOOK) {
		SE_STATE_HOOK();
		def_restore(def_tmpimg);
	}
	def_finish_generously(&def_model, 8);
	def_restore(def_tmpimg);
	v_count("progress_checks", 1);
}
static int def_skip(const uint8_t *img, int c);
static struct ex_model def_model = { 0, def_save, def_restore, def_key, 0, def_step, def_on_state, def_describe, def_skip };

/* explore one deflate graph; returns 1 if capped */
static int deflate_graph(const char *name, const uint8_t *p, int len, int level, int gz, int cpu, int F, uint64_t max_states)
{
	if (!DST) {
		DST = g_persist(sizeof *DST, G_END);
		DLB = g_persist(ISAL_DEF_LVL3_MIN, G_END);
	}
	DIN = p;
	DINLEN = len;
	DLEVEL = level;
	DGZ = gz;
	DLBS = lvl_min[level];
	cpu_set_level(cpu);
	static unsigned graph_no;
	SE_IN_START = !SE_CONTIG && (graph_no++ & 1); /* alternate graphs guard the front / the end of every fresh input chunk */
	snprintf(ctxdesc, sizeof ctxdesc, "input=%s level=%d wrapper=%s level_buf=MIN cpu=%s flush_budget=%d%s", name, level, gz_name[gz], cpu_level_name[cpu], F, SE_IN_START ? " input-chunks=start-flush" : "");
	def_model.image_size = def_img_size();
	def_model.nchoices = NDCHOICE;
	g_strict_free = 1;
	def_reset(F);
	struct ex_stats st = { 0 };
	ex_run(&def_model, &st, max_states);
	g_strict_free = 0;
	SE_IN_START = 0;
	v_count("states", st.states);
	v_count("transitions", st.transitions);
	v_count("traces_validated_against_impl", st.terminals);
	v_count("deflate_graphs", 1);
	v_count("dedup_hits", st.dedup_hits);
	v_max("max_depth", st.max_depth);
	if (st.capped) {
		v_count("graphs_capped", 1);
		v_not_exhaustive("a deflate state graph hit its state cap or the deadline");
	}
	v_eval_n(st.transitions);
	v_nontrivial(v_hash(ctxdesc, strlen(ctxdesc), 19));
	if (level == 0 || st.capped)
		v_sample("deflate graph %s: %llu states %llu transitions %llu terminal paths%s", ctxdesc, (unsigned long long)st.states, (unsigned long long)st.transitions,
			 (unsigned long long)st.terminals, st.capped ? " (CAPPED)" : "");
	return (int)st.capped;
}
static uint8_t se_in17[17];
static const uint8_t se_abc18[] = "abcabcabcabcabcabc";
static const struct { const char *name; const uint8_t *p; int len; } se_din[] = {
	{ "empty", (const uint8_t *)"", 0 }, { "a", (const uint8_t *)"a", 1 }, { "abcab", (const uint8_t *)"abcab", 5 }, { "a*9", (const uint8_t *)"aaaaaaaaa", 9 },
	{ "00*9", (const uint8_t *)"\0\0\0\0\0\0\0\0\0", 9 }, { "00*8+a", (const uint8_t *)"\0\0\0\0\0\0\0\0a", 9 }, { "xorshift17", se_in17, 17 }, { "abc*6", se_abc18, 18 } };
#endif
