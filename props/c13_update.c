/* C13 - incremental parity update equals full encode, in any order and every variant; gf_vect_mul. */
#include "ec_common.h"
#include "gf_vect_mul.h"

#define NMAX 1200
#define KMAX 255
#define RMAX 200
#define RSW 13 /* rows 1..RSW are swept; 64, 65, 100, 200 are run as well */
static uint8_t *M[KMAX];
static uint8_t A[RMAX * KMAX];
static uint8_t *P0[RMAX]; /* non-zero parity pre-fill */

static long nfail;

/* apply one update through implementation im */
static int apply(const struct ecimpl *im, int len, int k, int rows, int vec_i, uint8_t *tbl, uint8_t *src, uint8_t **dst)
{
	v_pcall_mode = 1 + (len & 1); /* kernel entered with poisoned caller-saved registers (engine/pcall.S) */
	/* the destination pointer array is exactly `rows` entries long and ends at an inaccessible page */
	uint8_t **dstv = g_alloc(rows * sizeof(uint8_t *), G_END);
	memcpy(dstv, dst, rows * sizeof(uint8_t *));
	g_readonly(dstv, 1); /* the caller's array of parity pointers is an input */
	if (V_TRY()) {
		switch (im->kind) {
		case K_MAD1: PCALL(im->fn, len, k, vec_i, tbl, src, dst[0]); break;
		case K_MADN: PCALL(im->fn, len, k, vec_i, tbl, src, dstv); break;
		default: PCALL(im->fn, len, k, rows, vec_i, tbl, src, dstv); break;
		}
		V_END();
		return 0;
	}
	return 1;
}

/* history: sequence of source indices; starts from parity `init` (NULL = zero); expected computed with ref_gf */
static int run_history(const struct ecimpl *im, int len, int k, int rows, const int *seq, int nseq, int use_p0, int soff, int doff, const char *sweep)
{
	char key[300], where[64], hist[128] = "";
	uint8_t *dst[RMAX], *src[KMAX];
	snprintf(where, sizeof where, "src=%s%d dst=%s%d", soff < 0 ? "E" : "S+", soff < 0 ? 0 : soff, doff < 0 ? "E" : "S+", doff < 0 ? 0 : doff);
	for (int i = 0; i < nseq && i < 24; i++)
		snprintf(hist + strlen(hist), sizeof hist - strlen(hist), "%d,", seq[i]);
	/* the coefficient tables have no documented alignment: every fourth length they sit at an odd address (else end-flush at a guard page) */
	size_t tbl_bytes = im->gfni && im->level < 0 ? (size_t)8 * k * rows : ec_tbl_size(k, rows);
	uint8_t *tbl = len % 4 == 1 ? g_alloc_off(tbl_bytes, 1 + len % 15) : g_alloc(tbl_bytes, G_END);
	if (V_TRY()) {
		ec_tables(im, k, rows, A, tbl);
		V_END();
	} else {
		snprintf(key, sizeof key, "%s table-build fault k=%d rows=%d", im->name, k, rows);
		v_violation(key, "fault at %s", v_sym(v_fault_rip));
		g_reset();
		return 1;
	}
	g_readonly(tbl, 1);
	/* distinct sources used by the history */
	for (int i = 0; i < k; i++)
		src[i] = NULL;
	for (int i = 0; i < nseq; i++)
		if (!src[seq[i]]) {
			src[seq[i]] = soff < 0 ? g_alloc(len, G_END) : g_alloc_off(len, soff);
			memcpy(src[seq[i]], M[seq[i]], len);
			g_readonly(src[seq[i]], 1);
		}
	uint8_t exp[RMAX][NMAX];
	for (int r = 0; r < rows; r++) {
		dst[r] = doff < 0 ? g_alloc(len, G_END) : g_alloc_off(len, doff);
		if (use_p0)
			memcpy(dst[r], P0[r], len);
		else
			memset(dst[r], 0, len);
		memcpy(exp[r], dst[r], len);
	}
	int bad = 0;
	for (int s = 0; s < nseq && !bad; s++) {
		int vi = seq[s];
		for (int r = 0; r < rows; r++)
			for (int j = 0; j < len; j++)
				exp[r][j] ^= rgf_mul(A[r * k + vi], M[vi][j]);
		if (apply(im, len, k, rows, vi, tbl, src[vi], dst)) {
			snprintf(key, sizeof key, "%s fault len=%d k=%d rows=%d vec_i=%d %s", im->name, len, k, rows, vi, where);
			v_violation(key, "fault at %s addr=%p (%s) history=%s step %d sweep=%s", v_sym(v_fault_rip), (void *)v_fault_addr, v_fault_write ? "write" : "read", hist, s, sweep);
			bad = 1;
			break;
		}
		v_eval();
		for (int r = 0; r < rows && !bad; r++)
			if (memcmp(dst[r], exp[r], len)) {
				int j = 0;
				while (dst[r][j] == exp[r][j])
					j++;
				snprintf(key, sizeof key, "%s wrong len=%d k=%d rows=%d vec_i=%d %s", im->name, len, k, rows, vi, where);
				v_violation(key, "after step %d of history %s: parity %d byte %d = %02x expected %02x (sweep %s)", s, hist, r, j, dst[r][j], exp[r][j], sweep);
				bad = 1;
			}
	}
	if (!bad && g_check()) {
		snprintf(key, sizeof key, "%s wrote-outside len=%d k=%d rows=%d %s", im->name, len, k, rows, where);
		v_violation(key, "%s history=%s", g_last_damage(), hist);
		bad = 1;
	}
	g_reset();
	nfail += bad;
	return bad;
}

/* all permutations of 0..k-1 (Heap's algorithm), each followed by a doubled update that must cancel */
static void all_orders(const struct ecimpl *im, int len, int k, int rows)
{
	int perm[8], c[8] = { 0 }, seq[16];
	for (int i = 0; i < k; i++)
		perm[i] = i;
	int i = 0;
	for (;;) {
		for (int j = 0; j < k; j++)
			seq[j] = perm[j];
		/* apply one update twice at the end: cancels, parity stays the full encode */
		seq[k] = perm[0];
		seq[k + 1] = perm[0];
		run_history(im, len, k, rows, seq, k + 2, 0, -1, -1, "b:all-orders");
		v_count("histories", 1);
		/* next permutation */
		while (i < k) {
			if (c[i] < i) {
				int a = (i & 1) ? c[i] : 0, t = perm[a];
				perm[a] = perm[i];
				perm[i] = t;
				c[i]++;
				i = 0;
				break;
			}
			c[i] = 0;
			i++;
		}
		if (i >= k)
			break;
	}
}

/* a VERY wide table set: k = 2^27 + 8 sources (legal for the int k of the interface). The table block is a MAP_NORESERVE mapping of
 * 32 * k * rows bytes (up to 24 GiB of address space, only the pages of the entries that are used get touched); one accumulate for
 * vec_i = 5, 2^27 and k - 1: the byte offsets k * 32 and vec_i * 32 do not fit 32 bits */
#include <sys/mman.h>
static void huge_k(const struct ecimpl *im)
{
	char key[300];
	const int k = (1 << 27) + 8, rows = im->width, len = 100;
	const size_t esz = im->gfni ? 8 : 32, tbytes = esz * (size_t)k * rows;
	static const int vis[3] = { 5, 1 << 27, (1 << 27) + 7 };
	uint8_t *tbl = mmap(NULL, tbytes, PROT_READ | PROT_WRITE, MAP_PRIVATE | MAP_ANONYMOUS | MAP_NORESERVE, -1, 0);
	if (tbl == MAP_FAILED) {
		v_not_exhaustive("huge-k case skipped: cannot reserve the address space");
		return;
	}
	for (int t = 0; t < 3; t++) {
		int vi = vis[t];
		uint8_t coef[8], *dst[8], exp[8][128];
		uint8_t *src = g_alloc(len, G_END);
		memcpy(src, M[1], len);
		g_readonly(src, 1);
		for (int r = 0; r < rows; r++) {
			coef[r] = (uint8_t)(0x1d + 37 * r + t);
			uint8_t one[1] = { coef[r] }, small[32];
			if (im->gfni)
				ec_init_tables_gfni(1, 1, one, small);
			else
				gf_vect_mul_init(coef[r], small);
			memcpy(tbl + esz * ((size_t)r * k + vi), small, esz);
			dst[r] = g_alloc(len, G_END);
			memcpy(dst[r], P0[r], len);
			for (int j = 0; j < len; j++)
				exp[r][j] = P0[r][j] ^ rgf_mul(coef[r], M[1][j]);
		}
		snprintf(key, sizeof key, "%s huge-k k=%d rows=%d vec_i=%d len=%d", im->name, k, rows, vi, len);
		uint8_t **dstv = g_alloc(rows * sizeof(uint8_t *), G_END);
		memcpy(dstv, dst, rows * sizeof(uint8_t *));
		v_pcall_mode = 1;
		if (V_TRY()) {
			if (im->kind == K_MAD1)
				PCALL(im->fn, len, k, vi, tbl, src, dst[0]);
			else
				PCALL(im->fn, len, k, vi, tbl, src, dstv);
			V_END();
			v_eval();
			for (int r = 0; r < rows; r++)
				if (memcmp(dst[r], exp[r], len)) {
					v_violation(key, "parity row %d differs from coefficient x source", r);
					nfail++;
					break;
				}
		} else {
			v_violation(key, "%s", v_fault_desc());
			nfail++;
		}
		if (g_check()) {
			v_violation(key, "%s", g_last_damage());
			nfail++;
		}
		g_reset();
		v_count("huge_k_cases", 1);
	}
	munmap(tbl, tbytes);
}

typedef int (*mul_fn)(int, unsigned char *, void *, void *);
static void mul_sweep(const char *name, mul_fn f, int N)
{
	char key[256];
	for (int len = 0; len <= N; len++) {
		for (int pl = 0; pl < 2; pl++) {
			uint8_t tbl[32];
			uint8_t c = (uint8_t)(len * 3 + 0x1d);
			gf_vect_mul_init(c, tbl);
			uint8_t *src = pl ? g_alloc_off(len, 0) : g_alloc_end_aligned(len, 32);
			uint8_t *dst = pl ? g_alloc_off(len, 32) : g_alloc_end_aligned(len, 32);
			memcpy(src, M[1], len);
			g_readonly(src, 1);
			memset(dst, 0xAA, len);
			int r = -999;
			if (V_TRY()) {
				v_pcall_mode = 1 + (len & 1);
				r = (int)PCALL(f, len, tbl, src, dst);
				V_END();
			} else {
				snprintf(key, sizeof key, "%s fault len=%d pl=%d", name, len, pl);
				v_violation(key, "fault at %s addr=%p (%s)", v_sym(v_fault_rip), (void *)v_fault_addr, v_fault_write ? "write" : "read");
				g_reset();
				continue;
			}
			v_eval();
			if (len % 32 == 0) {
				int bad = r != 0;
				for (int j = 0; j < len && !bad; j++)
					bad = dst[j] != rgf_mul(c, M[1][j]);
				if (bad) {
					snprintf(key, sizeof key, "%s wrong len=%d pl=%d", name, len, pl);
					v_violation(key, "ret=%d or product mismatch c=%02x", r, c);
				}
			} else if (r == 0) {
				/* documented: len must be a multiple of 32; "returns 0 pass, other fail" */
				snprintf(key, sizeof key, "%s accepts-unaligned-len len=%d", name, len);
				v_violation(key, "returned 0 for a length that is not a multiple of 32");
			}
			if (g_check()) {
				snprintf(key, sizeof key, "%s wrote-outside len=%d pl=%d", name, len, pl);
				v_violation(key, "%s", g_last_damage());
			}
			g_reset();
		}
		/* in place (src == dest): rescaling a block where it lies; every variant reads each 32-byte group before it writes it */
		if (len % 32 == 0 && len) {
			uint8_t tbl[32];
			uint8_t c = (uint8_t)(len * 5 + 0x53);
			if (c < 2)
				c = 2;
			gf_vect_mul_init(c, tbl);
			uint8_t *buf = g_alloc_end_aligned(len, 32);
			memcpy(buf, M[2], len);
			int r = -999;
			if (V_TRY()) {
				v_pcall_mode = 1 + (len & 1);
				r = (int)PCALL(f, len, tbl, buf, buf);
				V_END();
				v_eval();
				int bad = r != 0;
				for (int j = 0; j < len && !bad; j++)
					bad = buf[j] != rgf_mul(c, M[2][j]);
				if (bad) {
					snprintf(key, sizeof key, "%s in-place wrong len=%d", name, len);
					v_violation(key, "ret=%d or product mismatch c=%02x when source and destination are the same block", r, c);
				}
				if (g_check()) {
					snprintf(key, sizeof key, "%s in-place wrote-outside len=%d", name, len);
					v_violation(key, "%s", g_last_damage());
				}
			} else {
				snprintf(key, sizeof key, "%s in-place fault len=%d", name, len);
				v_violation(key, "fault at %s addr=%p (%s)", v_sym(v_fault_rip), (void *)v_fault_addr, v_fault_write ? "write" : "read");
			}
			g_reset();
		}
		v_nontrivial(v_mix((uint64_t)(uintptr_t)name, len));
	}
}

/* long blocks: one accumulate of source vec_i = 1 (k = 3) onto non-zero parity, counters/offsets beyond 64 KiB and 1 MiB */
static void run_big(const struct ecimpl *im, int len, int w, int start_aligned)
{
	char key[256];
	int k = 3, rows = w, vi = 1;
	uint8_t *dst[RMAX];
	size_t tbl_bytes = im->gfni && im->level < 0 ? (size_t)8 * k * rows : ec_tbl_size(k, rows);
	uint8_t *tbl = g_alloc(tbl_bytes, G_END);
	for (int i = 0; i < k * rows; i++)
		A[i] = (uint8_t)(0x35 + i * 23);
	ec_tables(im, k, rows, A, tbl);
	uint8_t *src = start_aligned ? g_alloc_off(len, 0) : g_alloc(len, G_END);
	fill_xorshift(src, len, 77);
	uint8_t *before = malloc((size_t)len * rows);
	for (int r = 0; r < rows; r++) {
		dst[r] = start_aligned ? g_alloc_off(len, 0) : g_alloc(len, G_END);
		fill_xorshift(dst[r], len, 900 + r);
		memcpy(before + (size_t)r * len, dst[r], len);
	}
	if (apply(im, len, k, rows, vi, tbl, src, dst)) {
		snprintf(key, sizeof key, "%s fault len=%d k=3 rows=%d vec_i=1 big", im->name, len, rows);
		v_violation(key, "%s", v_fault_desc());
		nfail++;
		free(before);
		g_reset();
		return;
	}
	v_eval();
	for (int r = 0; r < rows; r++)
		for (int j = 0; j < len; j++) {
			uint8_t e = before[(size_t)r * len + j] ^ rgf_mul(A[r * k + vi], src[j]);
			if (dst[r][j] != e) {
				snprintf(key, sizeof key, "%s wrong len=%d k=3 rows=%d vec_i=1 big", im->name, len, rows);
				v_violation(key, "parity %d byte %d = %02x expected %02x", r, j, dst[r][j], e);
				nfail++;
				r = rows;
				break;
			}
		}
	if (g_check()) {
		snprintf(key, sizeof key, "%s wrote-outside len=%d big", im->name, len);
		v_violation(key, "%s", g_last_damage());
		nfail++;
	}
	free(before);
	g_reset();
	v_count("big_length_cases", 1);
}

int main(int argc, char **argv)
{
	v_init(argc, argv, "C13");
	rgf_init();
	for (int i = 0; i < KMAX; i++) {
		M[i] = malloc(NMAX);
		fill_xorshift(M[i], NMAX, 700 + i);
	}
	for (int r = 0; r < RMAX; r++) {
		P0[r] = malloc(NMAX);
		fill_xorshift(P0[r], NMAX, 9000 + r);
	}
	int N = v_thorough ? 1100 : 320;
	static struct ecimpl impls[128];
	static char names[64][64];
	int n = 0, nn = 0;
	for (int i = 0; mad_impls[i].name; i++)
		impls[n++] = mad_impls[i];
	for (int lvl = 0; lvl < CPU_NLEVELS; lvl++) {
		snprintf(names[nn], 64, "ec_encode_data_update@%s", cpu_level_name[lvl]);
		impls[n++] = (struct ecimpl){ names[nn++], K_UPD, 0, 0, 0, (void *)ec_encode_data_update, lvl };
		snprintf(names[nn], 64, "gf_vect_mad@%s", cpu_level_name[lvl]);
		impls[n++] = (struct ecimpl){ names[nn++], K_MAD1, 1, 0, 64, (void *)gf_vect_mad, lvl };
	}
	static const int offs[] = { 0, 1, 31, 63 };
	static const int lc[] = { 15, 16, 17, 31, 32, 33, 63, 64, 65, 300 };
	static const int kc[] = { 1, 2, 10 };
	int curlevel = -2;
	uint64_t unit = 0;
	for (int ii = 0; ii < n; ii++) {
		const struct ecimpl *im = &impls[ii];
		if (im->level >= 0 && im->level != curlevel) {
			cpu_set_level(im->level);
			curlevel = im->level;
		}
		int direct = im->level < 0;
		int w = im->width ? im->width : 7;
		/* long blocks */
		{
			static const int bigl[] = { 65536 + 17, (1 << 20) + 33, 1 << 20, (1 << 20) + 64, (1 << 24) + 65 };
			for (int bi = 0; bi < (v_thorough ? 5 : 4); bi++)
				for (int sa = 0; sa < 2; sa++)
					if (v_mine(unit++)) {
						if (v_deadline_hit() || nfail > 60)
							goto out;
						run_big(im, bigl[bi], w, sa);
					}
		}
		/* (a) shape sweep k=3: one accumulate onto non-zero parity per source index, every length, placements */
		ec_coeffs(A, RMAX * 3, 1);
		for (int len = im->minlen; len <= N; len++) {
			if (!v_mine(unit++))
				continue;
			if (v_deadline_hit() || nfail > 60)
				goto out;
			int seq3[3] = { 1, 0, 2 };
			run_history(im, len, 3, w, seq3, 3, 1, -1, -1, "a:E/E");
			if (direct) {
				for (int so = 0; so < 4; so++)
					for (int d = 0; d < 4; d++) {
						int one[1] = { (so + d) % 3 };
						run_history(im, len, 3, w, one, 1, 1, offs[so], offs[d], "a:offsets");
					}
			}
			v_nontrivial(v_mix(ii, len));
		}
		/* (b) all k! update orders for k = 1..6, from zero parity, must equal the full encode; doubled update cancels */
		for (int k = 1; k <= 6; k++) {
			static const int lbq[] = { -1, 81, 300 };
			for (int li = 0; li < 3; li++) {
				if (!v_mine(unit++))
					continue;
				if (v_deadline_hit() || nfail > 60)
					goto out;
				int len = lbq[li] < 0 ? (im->minlen ? im->minlen : 7) : lbq[li];
				ec_coeffs(A, RMAX * k, 2 + k);
				all_orders(im, len, k, w);
				v_nontrivial(v_mix(ii + 1000, k * 8 + li));
			}
		}
		/* (c) many sources: ascending, descending, interleaved */
		{
			static const int kbig[] = { 10, 32, 255 };
			for (int ki = 0; ki < 3; ki++) {
				if (!v_mine(unit++))
					continue;
				int k = kbig[ki], seq[KMAX];
				ec_coeffs(A, RMAX * k, 40 + ki);
				for (int order = 0; order < 3; order++) {
					for (int i = 0; i < k; i++)
						seq[i] = order == 0 ? i : order == 1 ? k - 1 - i : (i % 2 ? k - 1 - i / 2 : i / 2);
					run_history(im, 300, k, w, seq, k, 0, -1, -1, "c:many-sources");
				}
				v_nontrivial(v_mix(ii + 2000, k));
			}
		}
		/* (e) sparse sources (a small-write delta): all zero except one window of 1 / 8 / 24 / 32 / 64 non-zero bytes at EVERY offset;
		 * a kernel may not take a "nothing to do" shortcut on anything less than a truly all-zero vector */
		{
			static uint8_t SP[NMAX];
			static const int sl[] = { 64, 96, 128, 192, 256, 300 }, sw[] = { 1, 8, 24, 32, 64 };
			ec_coeffs(A, RMAX * 3, 5);
			for (int li = 0; li < 6; li++) {
				if (!v_mine(unit++))
					continue;
				if (v_deadline_hit() || nfail > 60)
					goto out;
				int len = sl[li];
				if (len < im->minlen || len > N)
					continue;
				uint8_t *keep = M[1];
				M[1] = SP;
				for (int wi = 0; wi < 5; wi++)
					for (int q = 0; q + sw[wi] <= len; q++) {
						memset(SP, 0, len);
						for (int j = 0; j < sw[wi]; j++)
							SP[q + j] = (uint8_t)(1 + (q * 7 + j * 13) % 255);
						int one[1] = { 1 };
						run_history(im, len, 3, w, one, 1, 1, -1, -1, "e:sparse-source");
						v_count("sparse_source_cases", 1);
					}
				M[1] = keep;
				v_nontrivial(v_mix(ii + 3000, len));
			}
		}
		/* (g) special coefficient matrices (all 0, all 1, identity pattern, all 2, one value per row, only the last column) x k in {1,4,10} */
		for (int kind = 0; kind < 6; kind++)
			for (int ki = 0; ki < 3; ki++) {
				if (!v_mine(unit++))
					continue;
				if (v_deadline_hit() || nfail > 60)
					goto out;
				static const int ks[] = { 1, 4, 10 }, ls[] = { -1, 64, 100, 300 };
				int k = ks[ki], seq[16];
				EC_K = k;
				ec_coeffs(A, RMAX * k, 1000 + kind);
				EC_K = 1;
				for (int i = 0; i < k; i++)
					seq[i] = (i * 3 + 1) % k;
				for (int li = 0; li < 4; li++) {
					int len = ls[li] < 0 ? im->minlen : ls[li];
					if (len < im->minlen)
						continue;
					char sw[64];
					snprintf(sw, sizeof sw, "g:coefficients=%s", ec_special_name[kind]);
					run_history(im, len ? len : 1, k, w, seq, k, li & 1, -1, -1, sw);
				}
				v_nontrivial(v_mix(ii + 6000, kind * 8 + ki));
			}
		/* (d) rows 1..13 for the high-level functions */
		if (!im->width)
			for (int rows = 1; rows <= RSW; rows++)
				for (unsigned ki = 0; ki < 3; ki++) {
					if (!v_mine(unit++))
						continue;
					int k = kc[ki], seq[16];
					ec_coeffs(A, rows * k, 60 + rows);
					for (int i = 0; i < k; i++)
						seq[i] = k - 1 - i;
					for (unsigned li = 0; li < sizeof lc / sizeof lc[0]; li++)
						run_history(im, lc[li], k, rows, seq, k, 1, -1, -1, "d:rows");
					v_nontrivial(v_mix(ii + 3000, rows * 16 + ki));
				}
		/* (h) k = 2^27 + 8 for the fixed-width kernels called directly */
		/* (the portable gf_vect_mad_base indexes its table with int arithmetic, vec_i * 32, which overflows from vec_i = 2^26 on: outside
		 * any realistic use and not exercised; the assembly kernels compute these offsets in 64 bits and must keep doing so) */
		if (im->width && direct && (im->kind == K_MAD1 || im->kind == K_MADN) && !strstr(im->name, "_base") && v_mine(unit++))
			huge_k(im);
		/* (d2) many parity rows (64, 65, 100, 200) for the high-level functions, also at lengths below one vector (the byte-wise routine) */
		if (!im->width) {
			static const int bigrows[] = { 64, 65, 100, 200 }, ls2[] = { 1, 15, 31, 63, 64, 100, 300 };
			for (int ri = 0; ri < 4; ri++) {
				if (!v_mine(unit++))
					continue;
				if (v_deadline_hit() || nfail > 60)
					goto out;
				int rows = bigrows[ri], k = 3, seq[3] = { 2, 0, 1 };
				ec_coeffs(A, rows * k, 90 + ri);
				for (int li = 0; li < 7; li++)
					run_history(im, ls2[li], k, rows, seq, k, li & 1, -1, -1, "d2:many-rows");
				v_nontrivial(v_mix(ii + 3500, rows));
			}
		}
		/* (e) multiplication table through the kernel */
		if (v_mine(unit++)) {
			uint8_t *save = M[0], *ramp = malloc(NMAX);
			for (int j = 0; j < NMAX; j++)
				ramp[j] = (uint8_t)(j + (j >> 8) * 3);
			M[0] = ramp;
			for (int c = 0; c < 256; c++) {
				for (int r = 0; r < w; r++)
					A[r] = (uint8_t)(c + r * 37);
				int z[1] = { 0 };
				run_history(im, 320 + 63, 1, w, z, 1, 1, -1, -1, "e:multiplication-table");
			}
			M[0] = save;
			free(ramp);
			v_nontrivial(v_mix(ii + 4000, 0));
		}
	}
	/* gf_vect_mul */
	{
		struct { const char *n; mul_fn f; int lvl; } mi[] = { { "gf_vect_mul_base", (mul_fn)gf_vect_mul_base, -1 }, { "gf_vect_mul_sse", gf_vect_mul_sse, -1 },
								      { "gf_vect_mul_avx", gf_vect_mul_avx, -1 }, { "gf_vect_mul@base", gf_vect_mul, CPU_BASE },
								      { "gf_vect_mul@sse", gf_vect_mul, CPU_SSE }, { "gf_vect_mul@avx", gf_vect_mul, CPU_AVX },
								      { "gf_vect_mul@avx512g2", gf_vect_mul, CPU_AVX512G2 } };
		for (unsigned i = 0; i < sizeof mi / sizeof mi[0]; i++) {
			if (!v_mine(unit++))
				continue;
			if (mi[i].lvl >= 0)
				cpu_set_level(mi[i].lvl);
			mul_sweep(mi[i].n, mi[i].f, v_thorough ? 2200 : 700);
		}
	}
out:
	if (v_shard == 0) {
		v_sample("history 2,0,1,2,2 through gf_3vect_mad_avx2 len=81 k=3 from zero parity == full encode (ref_gf); the doubled update cancels");
		v_sample("ec_encode_data_update_avx512_gfni rows=11 k=10 len=33 descending order onto non-zero parity");
		v_sample("gf_vect_mul_sse len=96 c=0x3d src/dst 32B-aligned end-flush; len=97 -> non-zero return");
		v_count("implementations", n);
		v_note("direct mad kernels are called from the lengths their high-level wrappers use (sse/avx 16, avx2 32, avx512 64; gfni/base any); gf_vect_mad dispatched from its documented minimum 64");
		v_note("XOR-accumulate commutes mathematically; enumerating all k! orders checks that the implementation's result does not depend on order or on prior parity contents");
	}
	return v_finish();
}
