/* Corpus of VALID deflate streams generated from the grammar (ref_gen.h) and by zlib (foreign encoder).
 * Used by C02 (decode every valid stream), C06/C11 (seeds for mutation closures), C07 (schedules). */
#ifndef STREAMS_H
#define STREAMS_H
#include "codec_common.h"

#define GS_MAXBODY (80 * 1024 + 70000)
#define GS_MAXOUT (200 * 1024)
struct gstream {
	uint8_t *body; size_t blen, end_bit;
	uint8_t *x; size_t xlen;
	char desc[200];
	int zlib_ok;     /* all code sets complete: zlib must accept as well */
	int nblocks;
};
struct gblock {
	int kind;               /* 0 stored, 1 fixed, 2 dynamic */
	const uint8_t *sdata; int slen;
	struct tok t[16]; int nt;
	int ll_shape, d_shape;  /* 0 balanced, 1 chain to depth 15, 2 long codes on the used symbols, (dist) 3 keep single/zero natural */
	int style;              /* code-length coding: 0 literal lengths, 1 run-length (16/17/18) */
	int hlit_max, hdist_max;
};
typedef void (*gs_cb)(const struct gstream *g, void *ctx);
static struct gstream GS;
static uint8_t gs_pre[70016];  /* xorshift preamble data */

static void gs_init(void)
{
	if (GS.body)
		return;
	GS.body = malloc(GS_MAXBODY);
	GS.x = malloc(GS_MAXOUT);
	fill_xorshift(gs_pre, sizeof gs_pre, 31337);
}

/* add filler symbols so that the Kraft sum is exactly 1; fillers are taken from `cand` (unused symbols) */
static void gs_complete(uint8_t *len, const int *cand, int ncand)
{
	long sum = 0;
	for (int i = 0; i < 288; i++)
		if (len[i])
			sum += 1L << (15 - len[i]);
	long rem = (1L << 15) - sum;
	int ci = 0;
	for (int p = 1; p <= 15 && rem > 0; p++)
		while (rem & (1L << (15 - p))) {
			while (ci < ncand && len[cand[ci]])
				ci++;
			if (ci >= ncand)
				return;
			len[cand[ci]] = (uint8_t)p;
			rem -= 1L << (15 - p);
		}
}

/* build code lengths for a token list. returns 0 ok */
static void gs_lengths(const struct gblock *b, uint8_t *ll, int *hlit, uint8_t *dl, int *hdist, int *complete)
{
	int usedl[300], nl = 0, usedd[32], nd = 0;
	uint8_t seenl[288] = { 0 }, seend[32] = { 0 };
	for (int i = 0; i < b->nt; i++) {
		int s = b->t[i].len ? 257 + gen_tok_lsym(&b->t[i]) : b->t[i].lit;
		if (!seenl[s]) { seenl[s] = 1; usedl[nl++] = s; }
		if (b->t[i].len) {
			int d = gen_dist_sym(b->t[i].dist);
			if (!seend[d]) { seend[d] = 1; usedd[nd++] = d; }
		}
	}
	if (!seenl[256]) { seenl[256] = 1; usedl[nl++] = 256; }
	memset(ll, 0, 288);
	memset(dl, 0, 32);
	int fill_l[286], nfl = 0, fill_d[30], nfd = 0;
	for (int s = 1; s < 286; s++)
		if (!seenl[s]) fill_l[nfl++] = s;
	for (int s = 0; s < 30; s++)
		if (!seend[s]) fill_d[nfd++] = s;
	*complete = 1;
	/* lit/len */
	if (b->ll_shape == 0)
		shape_balanced(usedl, nl, ll);
	else if (b->ll_shape == 1) {
		int all[300], n = 0;
		for (int i = 0; i < nl; i++) all[n++] = usedl[i];
		for (int i = 0; n < 19 && i < nfl; i++) all[n++] = fill_l[i];
		/* used symbols last: they get the deepest codes */
		int ord[300], k = 0;
		for (int i = nl; i < n; i++) ord[k++] = all[i];
		for (int i = 0; i < nl; i++) ord[k++] = all[i];
		shape_chain(ord, n, 15, ll);
	} else {
		for (int i = 0; i < nl; i++) ll[usedl[i]] = (uint8_t)(15 - i % 3);
		gs_complete(ll, fill_l, nfl);
	}
	if (b->ll_shape == 3) { /* every one of the 286 symbols has a code: 226 of 8 bits, 60 of 9 bits (complete); no two neighbours alike in the first 120 */
		for (int s = 0; s < 286; s++) ll[s] = (uint8_t)(s < 120 && (s & 1) ? 9 : 8);
	}
	if (nl == 1 && b->ll_shape != 3)
		*complete = 0;
	/* dist */
	if (b->d_shape == 4) { /* all 30 distance symbols: two of 4 bits, 28 of 5 bits (complete) */
		for (int s = 0; s < 30; s++) dl[s] = (uint8_t)(s >= 28 ? 4 : 5);
	} else if (nd == 0) {
		/* zero distance codes */
	} else if (b->d_shape == 0 || b->d_shape == 3) {
		shape_balanced(usedd, nd, dl);
		if (nd == 1)
			*complete = 0;
	} else if (b->d_shape == 1) {
		int all[32], n = 0;
		for (int i = 0; i < nfd && n < 17 - nd; i++) all[n++] = fill_d[i];
		for (int i = 0; i < nd; i++) all[n++] = usedd[i];
		shape_chain(all, n, 15, dl);
	} else {
		uint8_t tmp[288] = { 0 };
		for (int i = 0; i < nd; i++) tmp[usedd[i]] = (uint8_t)(15 - i % 5);
		gs_complete(tmp, fill_d, nfd);
		memcpy(dl, tmp, 30);
	}
	int hl = 257, hd = 1;
	for (int s = 0; s < 286; s++) if (ll[s]) hl = s + 1 > hl ? s + 1 : hl;
	for (int s = 0; s < 30; s++) if (dl[s]) hd = s + 1 > hd ? s + 1 : hd;
	*hlit = b->hlit_max ? 286 : hl;
	*hdist = b->hdist_max ? 30 : hd;
}

/* assemble a stream from blocks; the expected output is computed by simulating the tokens */
static int gs_build(const struct gblock *blk, int nb, const char *desc)
{
	struct bw w;
	bw_init(&w, GS.body, GS_MAXBODY);
	GS.xlen = 0;
	GS.zlib_ok = 1;
	GS.nblocks = nb;
	for (int bi = 0; bi < nb; bi++) {
		const struct gblock *b = &blk[bi];
		int fin = bi == nb - 1;
		if (b->kind == 0) {
			gen_stored(&w, fin, b->sdata, b->slen, 0);
			memcpy(GS.x + GS.xlen, b->sdata, b->slen);
			GS.xlen += b->slen;
			continue;
		}
		for (int i = 0; i < b->nt; i++) {
			if (!b->t[i].len)
				GS.x[GS.xlen++] = (uint8_t)b->t[i].lit;
			else {
				if ((size_t)b->t[i].dist > GS.xlen)
					return -1; /* not a valid stream: skip */
				for (int j = 0; j < b->t[i].len; j++, GS.xlen++)
					GS.x[GS.xlen] = GS.x[GS.xlen - b->t[i].dist];
			}
		}
		if (b->kind == 1)
			gen_fixed(&w, fin, b->t, b->nt);
		else {
			uint8_t ll[288], dl[32];
			int hlit, hdist, complete;
			gs_lengths(b, ll, &hlit, dl, &hdist, &complete);
			if (!complete)
				GS.zlib_ok = 0;
			gen_dynamic(&w, fin, ll, hlit, dl, hdist, b->style, b->t, b->nt);
		}
	}
	if (w.overflow)
		v_broken("stream generator buffer overflow");
	GS.end_bit = w.bit;
	GS.blen = bw_bytes(&w);
	snprintf(GS.desc, sizeof GS.desc, "%s", desc);
	return 0;
}

static const struct tok A8[8] = { { 0, 0x00, 0 }, { 0, 'a', 0 }, { 0, 0xff, 0 }, { 3, 0, 1 }, { 4, 0, 2 }, { 258, 0, 1 }, { 10, 0, 3 }, { 18, 0, 2 } };
static const int L15[15] = { 3, 4, 10, 11, 12, 18, 19, 34, 35, 66, 67, 130, 131, 257, 258 };

static void tok_str(char *o, size_t n, const struct tok *t, int nt)
{
	o[0] = 0;
	for (int i = 0; i < nt; i++)
		if (t[i].len)
			snprintf(o + strlen(o), n - strlen(o), "M(%d%s,%d) ", t[i].len, t[i].len == 258 && t[i].lit ? "=284+31" : "", t[i].dist);
		else
			snprintf(o + strlen(o), n - strlen(o), "L%02x ", t[i].lit);
}

/* F1: token closure: all token strings of length <= maxtok over A8 in fixed / dynamic-balanced / dynamic-deep blocks,
 * alone or preceded by one earlier block */
static void gs_family_tokens(int maxtok, int two_blocks, int (*mine)(uint64_t), uint64_t *idx, gs_cb cb, void *ctx)
{
	static const uint8_t one = 'q';
	int ntoks[4] = { 1, 8, 64, 512 };
	for (int first = -1; first < (two_blocks ? 5 : 0); first++)
		for (int nt = 0; nt <= maxtok; nt++)
			for (int code = 0; code < ntoks[nt]; code++)
				for (int kind = 0; kind < 3; kind++) {
					if (first >= 0 && nt > 1 && kind != 1 && code % 7)
						continue; /* thin the two-block product */
					uint64_t id = (*idx)++;
					if (!mine(id))
						continue;
					struct gblock b[2];
					memset(b, 0, sizeof b);
					int nb = 0;
					char d0[64] = "";
					if (first == 0) { b[nb].kind = 0; b[nb].slen = 0; nb++; strcpy(d0, "stored(0) + "); }
					else if (first == 1) { b[nb].kind = 0; b[nb].sdata = &one; b[nb].slen = 1; nb++; strcpy(d0, "stored(1) + "); }
					else if (first >= 2) {
						b[nb].kind = first == 2 ? 1 : 2;
						b[nb].ll_shape = first == 4 ? 1 : 0;
						b[nb].t[0] = A8[1]; b[nb].t[1] = A8[3]; b[nb].nt = 2;
						nb++;
						snprintf(d0, sizeof d0, "%s[La M(3,1)] + ", first == 2 ? "fixed" : first == 3 ? "dyn" : "dyn-deep");
					}
					struct gblock *c = &b[nb++];
					c->kind = kind == 0 ? 1 : 2;
					c->ll_shape = kind == 2 ? 1 : 0;
					c->d_shape = kind == 2 ? 1 : 0;
					c->style = code & 1;
					c->nt = nt;
					int cc = code;
					for (int i = 0; i < nt; i++) { c->t[i] = A8[cc & 7]; cc >>= 3; }
					char ts[96], desc[200];
					tok_str(ts, sizeof ts, c->t, nt);
					snprintf(desc, sizeof desc, "F1 %s%s[%s]", d0, kind == 0 ? "fixed" : kind == 1 ? "dyn-balanced" : "dyn-deep15", ts);
					if (gs_build(b, nb, desc) == 0)
						cb(&GS, ctx);
				}
}

/* distance set: both ends of every distance code range */
static int gs_dists(int *d)
{
	int n = 0;
	for (int s = 0; s < 30; s++) {
		d[n++] = g_dist_base[s];
		int hi = g_dist_base[s] + (1 << g_dist_extra[s]) - 1;
		if (hi != g_dist_base[s])
			d[n++] = hi;
	}
	return n;
}
/* F2: match sweep: stored preamble of exactly max(dist, need) bytes (+extra), then one coded block with the match */
static void gs_family_matches(int thorough, int (*mine)(uint64_t), uint64_t *idx, gs_cb cb, void *ctx)
{
	int D[64], nd = gs_dists(D);
	for (int pass = 0; pass < (thorough ? 3 : 1); pass++) {
		int nl = pass == 0 ? 15 : pass == 1 ? 256 : 2;
		int ndd = pass == 0 ? nd : pass == 1 ? 20 : 32768;
		static const int dsel[20] = { 1, 2, 3, 4, 7, 8, 9, 15, 16, 17, 31, 32, 33, 255, 256, 257, 258, 259, 32767, 32768 };
		for (int li = 0; li < nl; li++)
			for (int di = 0; di < ndd; di++)
				for (int kind = 0; kind < 3; kind++) {
					if (pass == 2 && kind != (di % 3))
						continue;
					uint64_t id = (*idx)++;
					if (!mine(id))
						continue;
					int len = pass == 0 ? L15[li] : pass == 1 ? 3 + li : (li ? 258 : 3);
					int dist = pass == 0 ? D[di] : pass == 1 ? dsel[di] : di + 1;
					int extra = (id % 3) == 0 ? 0 : (id % 3) == 1 ? 1 : 300; /* match reaches exactly the first byte, or not */
					struct gblock b[3];
					memset(b, 0, sizeof b);
					b[0].kind = 0; b[0].sdata = gs_pre; b[0].slen = dist + extra;
					struct gblock *c = &b[1];
					c->kind = kind == 0 ? 1 : 2;
					c->ll_shape = kind == 2 ? 2 : 0;
					c->d_shape = kind == 2 ? 2 : 0;
					c->style = 1;
					c->t[0] = (struct tok){ len, 0, dist };
					c->t[1] = (struct tok){ 0, 'a', 0 };
					c->t[2] = (struct tok){ 3, 0, 1 };
					c->nt = 3;
					char desc[200];
					snprintf(desc, sizeof desc, "F2 stored(%d) + %s[M(%d,%d) La M(3,1)]", dist + extra, kind == 0 ? "fixed" : kind == 1 ? "dyn-balanced" : "dyn-long-codes", len, dist);
					if (gs_build(b, 2, desc) == 0)
						cb(&GS, ctx);
				}
	}
	/* long outputs: > 64 KiB of literals, then far matches (crosses isal_inflate's internal copy-down) */
	for (int v = 0; v < 6; v++) {
		uint64_t id = (*idx)++;
		if (!mine(id))
			continue;
		struct gblock b[4];
		memset(b, 0, sizeof b);
		b[0].kind = 0; b[0].sdata = gs_pre; b[0].slen = 65535;
		b[1].kind = 0; b[1].sdata = gs_pre + 65535 - 4465; b[1].slen = 4465;
		struct gblock *c = &b[2];
		c->kind = v % 2 ? 2 : 1;
		c->ll_shape = v >= 4 ? 1 : 0;
		c->d_shape = v >= 4 ? 2 : 0;
		c->t[0] = (struct tok){ 258, 0, 32768 };
		c->t[1] = (struct tok){ 258, 0, 32768 };
		c->t[2] = (struct tok){ 3, 0, 1 };
		c->t[3] = (struct tok){ 0, 'z', 0 };
		c->t[4] = (struct tok){ 258, 0, v < 2 ? 32767 : 24577 };
		c->nt = 5;
		char desc[200];
		snprintf(desc, sizeof desc, "F2b stored(65535)+stored(4465)+%s[M(258,32768) x2 ...] variant %d", c->kind == 1 ? "fixed" : "dyn", v);
		if (gs_build(b, 3, desc) == 0)
			cb(&GS, ctx);
	}
}

/* F3: code shapes on fixed token lists */
static void gs_family_shapes(int (*mine)(uint64_t), uint64_t *idx, gs_cb cb, void *ctx)
{
	static const struct tok T0[] = { { 0, 0x00, 0 }, { 0, 'a', 0 }, { 0, 0xff, 0 }, { 3, 0, 1 }, { 258, 0, 2 }, { 130, 0, 3 }, { 0, 'a', 0 }, { 0, 'a', 0 }, { 0, 'b', 0 },
					 { 11, 0, 5 }, { 67, 0, 260 }, { 0, 0x00, 0 } };
	static const struct tok T1[] = { { 0, 'x', 0 }, { 0, 'y', 0 }, { 0, 'x', 0 }, { 0, 'y', 0 }, { 0, 'z', 0 } }; /* no matches: zero distance codes */
	static const struct tok T2[] = { { 0, 'x', 0 }, { 3, 0, 1 }, { 4, 0, 1 } };                                   /* exactly one distance code */
	static const struct tok T3[] = { { 0, 'x', 0 } };                                                             /* EOB + one literal */
	const struct tok *TL[5] = { T0, T1, T2, T3, NULL };
	int TN[5] = { 12, 5, 3, 1, 0 };
	for (int tl = 0; tl < 5; tl++)
		for (int ls = 0; ls < 3; ls++)
			for (int ds = 0; ds < 3; ds++)
				for (int style = 0; style < 3; style++)
					for (int hm = 0; hm < 4; hm++) {
						if (style == 2 && (ds || hm))
							continue; /* style 2 (zero runs spelt with symbol 16 after 17/18 or after an explicit 0): lit/len shapes only */
						uint64_t id = (*idx)++;
						if (!mine(id))
							continue;
						struct gblock b[2];
						memset(b, 0, sizeof b);
						b[0].kind = 2;
						b[0].ll_shape = ls; b[0].d_shape = ds; b[0].style = style;
						b[0].hlit_max = hm & 1; b[0].hdist_max = hm >> 1;
						b[0].nt = TN[tl];
						for (int i = 0; i < TN[tl]; i++) b[0].t[i] = TL[tl][i];
						char desc[200];
						snprintf(desc, sizeof desc, "F3 dyn tokens=T%d ll_shape=%d d_shape=%d style=%d hlit286=%d hdist30=%d", tl, ls, ds, style, hm & 1, hm >> 1);
						if (gs_build(b, 1, desc) == 0)
							cb(&GS, ctx);
					}
	/* longest headers: style 3 on the shapes above, and the full 286+30 alphabet (ll_shape 3, d_shape 4) in every style - with style 3 the header is about
	 * 286 bytes, longer than the 7-bit-per-lit/len-symbol estimate of 260 and than any power-of-two staging size below 512 */
	for (int tl = 0; tl < 5; tl++)
		for (int v = 0; v < 7; v++) {
			uint64_t id = (*idx)++;
			if (!mine(id))
				continue;
			struct gblock b[2];
			memset(b, 0, sizeof b);
			b[0].kind = 2;
			if (v < 4) { b[0].ll_shape = 3; b[0].d_shape = 4; b[0].style = v; }
			else { b[0].ll_shape = v - 4; b[0].d_shape = 0; b[0].style = 3; b[0].hlit_max = b[0].hdist_max = 1; }
			b[0].nt = TN[tl];
			for (int i = 0; i < TN[tl]; i++) b[0].t[i] = TL[tl][i];
			char desc[200];
			snprintf(desc, sizeof desc, "F3 dyn long-header tokens=T%d ll_shape=%d d_shape=%d style=%d", tl, b[0].ll_shape, b[0].d_shape, b[0].style);
			if (gs_build(b, 1, desc) == 0)
				cb(&GS, ctx);
		}
	/* stored block sizes 0, 1, 65535 in sequences */
	for (int a = 0; a < 3; a++)
		for (int bb = 0; bb < 3; bb++) {
			uint64_t id = (*idx)++;
			if (!mine(id))
				continue;
			static const int sz[3] = { 0, 1, 65535 };
			struct gblock b[3];
			memset(b, 0, sizeof b);
			b[0].kind = 0; b[0].sdata = gs_pre; b[0].slen = sz[a];
			b[1].kind = 0; b[1].sdata = gs_pre + 7; b[1].slen = sz[bb];
			b[2].kind = 1; b[2].t[0] = (struct tok){ 0, 'e', 0 }; b[2].nt = 1;
			char desc[200];
			snprintf(desc, sizeof desc, "F3 stored(%d)+stored(%d)+fixed[Le]", sz[a], sz[bb]);
			if (gs_build(b, 3, desc) == 0)
				cb(&GS, ctx);
		}
	/* length 258 written as symbol 284 with extra bits 31 (valid per RFC 1951 3.2.5, produced by no encoder): next to literals with
	 * short codes (multi-symbol lookup entries), next to the 285 form, in a final block and in a block followed by another */
	{
		enum { X = 1, Y = 2 };
		static const char pat[7][6] = { "abX", "aX", "abXX", "abbXa", "aXbaX", "abYX", "aXabY" };
		for (int trailing = 0; trailing < 2; trailing++)
			for (int kind = 0; kind < 3; kind++)
				for (int pi = 0; pi < 7; pi++) {
					uint64_t id = (*idx)++;
					if (!mine(id))
						continue;
					struct gblock b[2];
					memset(b, 0, sizeof b);
					b[0].kind = kind == 0 ? 1 : 2;
					b[0].ll_shape = kind == 2 ? 1 : 0;
					b[0].d_shape = kind == 2 ? 1 : 0;
					b[0].style = pi & 1;
					for (const char *c = pat[pi]; *c; c++)
						b[0].t[b[0].nt++] = *c == 'X' ? (struct tok){ 258, 1, 1 } : *c == 'Y' ? (struct tok){ 258, 0, 2 } : (struct tok){ 0, *c, 0 };
					b[1].kind = 1;
					char ts[96], desc[200];
					tok_str(ts, sizeof ts, b[0].t, b[0].nt);
					snprintf(desc, sizeof desc, "F3 %s[%s]%s", kind == 0 ? "fixed" : kind == 1 ? "dyn-balanced" : "dyn-deep15", ts, trailing ? " + fixed[]" : "");
					if (gs_build(b, 1 + trailing, desc) == 0)
						cb(&GS, ctx);
				}
	}
	/* hand-made HCLEN=5 header: code-length code uses only symbols 0 and 8 */
	{
		uint64_t id = (*idx)++;
		if (mine(id)) {
			struct bw w;
			bw_init(&w, GS.body, GS_MAXBODY);
			gen_block_hdr(&w, 1, 2);
			bw_bits(&w, 0, 5); bw_bits(&w, 0, 5); bw_bits(&w, 1, 4); /* HLIT=257 HDIST=1 HCLEN=5 */
			bw_bits(&w, 0, 3); bw_bits(&w, 0, 3); bw_bits(&w, 0, 3); bw_bits(&w, 1, 3); bw_bits(&w, 1, 3); /* 16,17,18 -> 0 ; 0 -> 1 bit ; 8 -> 1 bit */
			/* canonical: sym 0 -> code 0, sym 8 -> code 1 */
			for (int i = 0; i < 255; i++) bw_bit(&w, 1); /* literals 0..254 length 8 */
			bw_bit(&w, 0);                                 /* literal 255 unused */
			bw_bit(&w, 1);                                 /* EOB length 8 */
			bw_bit(&w, 0);                                 /* one distance code of length 0 */
			/* codes: 256 symbols of length 8: literal v (v<=254) has code v, EOB has code 255 */
			bw_code(&w, 'H', 8); bw_code(&w, 'i', 8); bw_code(&w, 255, 8);
			GS.x[0] = 'H'; GS.x[1] = 'i'; GS.xlen = 2;
			GS.end_bit = w.bit; GS.blen = bw_bytes(&w); GS.zlib_ok = 1; GS.nblocks = 1;
			snprintf(GS.desc, sizeof GS.desc, "F3 hand-made HCLEN=5 (code-length symbols 0 and 8 only) [LH Li]");
			cb(&GS, ctx);
		}
	}
}

/* F4: foreign encoder: zlib deflate over SHAPES with level/strategy/window/memLevel products */
static void gs_family_zlib(int thorough, int (*mine)(uint64_t), uint64_t *idx, gs_cb cb, void *ctx)
{
	static const int lv[] = { 0, 1, 6, 9 }, st[] = { Z_DEFAULT_STRATEGY, Z_FILTERED, Z_HUFFMAN_ONLY, Z_RLE, Z_FIXED }, wbs[] = { 9, 15, 12 }, ml[] = { 1, 8, 9 };
	static const int lens[] = { 0, 1, 9, 258, 300, 600, 4096, 8193, 70000 };
	static const int pats[] = { PAT_TEXT, PAT_XS, PAT_ZERO, PAT_LOG, PAT_P3, PAT_P258, PAT_RAMP };
	uint8_t *in = malloc(70000);
	for (unsigned li = 0; li < sizeof lens / sizeof lens[0]; li++)
		for (unsigned pi = 0; pi < (thorough ? 7 : 4); pi++)
			for (int l = 0; l < 4; l++)
				for (int s = 0; s < 5; s++)
					for (int w = 0; w < (thorough ? 3 : 2); w++)
						for (int m = 0; m < (thorough ? 3 : 2); m++) {
							if (lens[li] == 70000 && !(thorough || (s == 0 && m == 1)))
								continue;
							uint64_t id = (*idx)++;
							if (!mine(id))
								continue;
							int len = lens[li];
							fill_pattern(in, len, pats[pi], len + pi);
							z_stream z;
							memset(&z, 0, sizeof z);
							if (deflateInit2(&z, lv[l], Z_DEFLATED, -wbs[w], ml[m], st[s]) != Z_OK)
								v_broken("deflateInit2");
							z.next_in = in; z.avail_in = len;
							z.next_out = GS.body; z.avail_out = GS_MAXBODY;
							int r = deflate(&z, Z_FINISH);
							if (r != Z_STREAM_END)
								v_broken("zlib deflate %d", r);
							GS.blen = z.total_out;
							deflateEnd(&z);
							memcpy(GS.x, in, len);
							GS.xlen = len;
							GS.zlib_ok = 1;
							GS.nblocks = 0;
							/* exact end bit is not known from zlib; the reference decoder supplies it (callers use end_bit only after ref decode) */
							GS.end_bit = 0;
							snprintf(GS.desc, sizeof GS.desc, "F4 zlib level=%d strategy=%d wbits=%d memLevel=%d input=%s:%d", lv[l], st[s], wbs[w], ml[m], pat_name[pats[pi]], len);
							cb(&GS, ctx);
						}
	free(in);
}

/* F5: streams made by ISA-L's own compressor (default-table header -> the decoder's pre-generated-header shortcut,
 * static blocks, dynamic levels 1-3, sync-flushed pieces). The reference decoder supplies the expected output check. */
static void gs_family_isal(int thorough, int (*mine)(uint64_t), uint64_t *idx, gs_cb cb, void *ctx)
{
	static const int lens[] = { 0, 1, 9, 258, 300, 600, 4096, 8193, 70000 };
	static const int pats[] = { PAT_LOG, PAT_XS, PAT_ZERO, PAT_TEXT, PAT_P3, PAT_P258 };
	static uint8_t *in, *lb;
	if (!in) {
		in = malloc(70000);
		lb = malloc(ISAL_DEF_LVL3_DEFAULT);
	}
	for (unsigned li = 0; li < sizeof lens / sizeof lens[0]; li++)
		for (unsigned pi = 0; pi < (thorough ? 6 : 3); pi++)
			for (int level = 0; level <= 3; level++)
				for (int var = 0; var < 3; var++) {
					if (level && var == 1)
						continue;
					uint64_t id = (*idx)++;
					if (!mine(id))
						continue;
					int len = lens[li];
					fill_pattern(in, len, pats[pi], len + pi);
					struct isal_zstream s;
					cpu_set_level(CPU_AVX2);
					isal_deflate_init(&s);
					s.level = level; s.level_buf = level ? lb : NULL; s.level_buf_size = level ? ISAL_DEF_LVL3_DEFAULT : 0;
					if (var == 1)
						isal_deflate_set_hufftables(&s, NULL, IGZIP_HUFFTABLE_STATIC);
					s.flush = var == 2 ? SYNC_FLUSH : NO_FLUSH;
					s.next_out = GS.body; s.avail_out = GS_MAXBODY;
					size_t ip = 0;
					int r = 0;
					do {
						size_t k = var == 2 ? (len - ip > 1000 ? 1000 : len - ip) : len - ip;
						s.next_in = in + ip; s.avail_in = k;
						ip += k;
						s.end_of_stream = ip >= (size_t)len;
						r = isal_deflate(&s);
					} while (r == 0 && s.internal_state.state != ZSTATE_END);
					if (r || s.internal_state.state != ZSTATE_END)
						v_broken("isal_deflate failed while building the corpus");
					GS.blen = s.total_out;
					memcpy(GS.x, in, len);
					GS.xlen = len;
					GS.zlib_ok = 1;
					GS.nblocks = 0;
					GS.end_bit = 0;
					snprintf(GS.desc, sizeof GS.desc, "F5 isal level=%d %s input=%s:%d", level, var == 0 ? "default" : var == 1 ? "static-table" : "sync-flush-every-1000", pat_name[pats[pi]], len);
					cb(&GS, ctx);
				}
}
#endif
