/* C11 - wrapped streams carry correct checksums and verification catches corruption. */
#include "mutants.h"

static uint8_t *wbuf, *IN, *OUT;
static int mine(uint64_t id) { (void)id; return 1; }
static uint64_t seed_no, unit;

static void run_seed(const char *desc, int mode, const uint8_t *body, size_t blen, size_t end_bit, const uint8_t *x, size_t xlen, const struct rh_gzip *gh)
{
	if (!v_mine(unit++))
		return;
	if (nfail > 40 || v_deadline_hit())
		return;
	size_t te;
	size_t wl = wrap_stream(mode, body, blen, end_bit, x, xlen, gh, wbuf, &te);
	char d[300];
	snprintf(d, sizeof d, "seed{%s}%s", desc, gh ? "+rich-header" : "");
	candidate(d, mode, wbuf, wl, 0, seed_no, 0);
	/* closure with the full driver set on every mutant (header, body and trailer offsets) */
	static uint8_t *m;
	if (!m)
		m = malloc(GS_MAXBODY + 4096);
	char dd[420];
	for (size_t t = 0; t < wl; t++) {
		snprintf(dd, sizeof dd, "%s truncated@%zu", d, t);
		candidate(dd, mode, wbuf, t, 0, seed_no + t, 0);
	}
	memcpy(m, wbuf, wl);
	for (size_t p = 0; p < wl; p++) {
		for (int b = 0; b < 8; b++) {
			m[p] = wbuf[p] ^ (uint8_t)(1 << b);
			snprintf(dd, sizeof dd, "%s bitflip@%zu.%d%s", d, p, b, p >= wl - (mode == ISAL_GZIP || mode == ISAL_GZIP_NO_HDR_VER ? 8 : 4) ? "(trailer)" : "");
			candidate(dd, mode, m, wl, 0, seed_no + p, p % 3 != 0);
		}
		static const uint8_t sub[3] = { 0x00, 0xff, 0x01 };
		for (int vi = 0; vi < 3; vi++) {
			uint8_t v = vi == 2 ? (uint8_t)(wbuf[p] + 1) : sub[vi];
			if (v == wbuf[p])
				continue;
			m[p] = v;
			snprintf(dd, sizeof dd, "%s subst@%zu=%02x", d, p, v);
			candidate(dd, mode, m, wl, 0, seed_no + p, 1);
		}
		m[p] = wbuf[p];
		if (nfail > 40 || v_deadline_hit())
			return;
	}
	/* insertions and surplus: 1..8 bytes (00 / ff / a copy of the first trailer bytes) inserted directly in front of the trailer, the
	 * correct trailer behind them, and 0 / 9 / 40 further bytes behind that (a buffer that continues past the member, e.g. with the
	 * next member of a concatenated file): the trailer that counts is the one that follows the deflate data */
	{
		size_t tl = mode == ISAL_GZIP || mode == ISAL_GZIP_NO_HDR_VER ? 8 : mode == ISAL_DEFLATE ? 0 : 4;
		if (tl && wl > tl)
			for (int k = 1; k <= 8; k++)
				for (int fill = 0; fill < 3; fill++)
					for (int extra = 0; extra < 3; extra++) {
						size_t body_end = wl - tl, n = 0, ex = extra == 0 ? 0 : extra == 1 ? 9 : 40;
						memcpy(m, wbuf, body_end);
						n = body_end;
						for (int j = 0; j < k; j++)
							m[n++] = fill == 0 ? 0x00 : fill == 1 ? 0xff : wbuf[body_end + j % tl];
						memcpy(m + n, wbuf + body_end, tl);
						n += tl;
						for (size_t j = 0; j < ex; j++)
							m[n++] = (uint8_t)(0x1f + j * 7);
						snprintf(dd, sizeof dd, "%s %d byte(s) of %s inserted in front of the trailer, %zu bytes appended", d, k, fill == 0 ? "00" : fill == 1 ? "ff" : "trailer-copy", ex);
						candidate(dd, mode, m, n, 0, seed_no + k, 1);
					}
	}
	v_count("seeds", 1);
	seed_no++;
}
static void seed_cb(const struct gstream *g, void *ctx)
{
	static const int modes[] = { ISAL_GZIP, ISAL_ZLIB, ISAL_GZIP_NO_HDR_VER, ISAL_ZLIB_NO_HDR_VER };
	int *every = ctx;
	static uint64_t ctr;
	if (g->blen > 72 || g->xlen > 3000)
		return;
	if (ctr++ % *every)
		return;
	struct ri_opts o;
	memset(&o, 0, sizeof o);
	static struct ri_result rr;
	static uint8_t *tmp;
	if (!tmp)
		tmp = malloc(GS_MAXOUT);
	rr.out = tmp;
	rr.out_cap = GS_MAXOUT;
	ref_inflate(g->body, g->blen, &o, &rr);
	if (rr.verdict != RI_VALID)
		v_broken("seed invalid");
	static const uint8_t ex[3] = { 1, 2, 3 };
	static const struct rh_gzip rich = { 1, 0x5f5e100, 4, 3, ex, 3, "n", "c", 1 };
	int mode = modes[ctr % 4];
	run_seed(g->desc, mode, g->body, (rr.end_bit + 7) / 8, rr.end_bit, g->x, g->xlen, mode == ISAL_GZIP && (ctr % 8 < 4) ? &rich : NULL);
}

/* producer side: trailers written by the compressor, for every chunking */
static void producer(void)
{
	static const int gzs[] = { IGZIP_GZIP, IGZIP_GZIP_NO_HDR, IGZIP_ZLIB, IGZIP_ZLIB_NO_HDR };
	static const int lens[] = { 0, 1, 5, 258, 300, 4096, 8193, 70000 };
	static const int pats[] = { PAT_TEXT, PAT_XS, PAT_ZERO, PAT_LOG };
	static const int cpus[] = { CPU_BASE, CPU_SSE, CPU_AVX2, CPU_AVX512G2 };
	char key[300], why[256];
	for (unsigned li = 0; li < sizeof lens / sizeof lens[0]; li++)
		for (int pi = 0; pi < 4; pi++) {
			if (!v_mine(unit++))
				continue;
			int len = lens[li];
			fill_pattern(IN, len, pats[pi], len + pi);
			for (int level = 0; level <= 3; level++)
				for (int gi = 0; gi < 4; gi++)
					for (int ch = 0; ch < 5; ch++)
						for (int ci = 0; ci < 4; ci++) {
							if (len == 70000 && (ch >= 3 || ci % 2))
								continue;
							if (nfail > 40 || v_deadline_hit())
								return;
							cpu_set_level(cpus[ci]);
							struct cparams p = { level, NO_FLUSH, gzs[gi], 0, 0, LB_MIN, ch == 0 ? API_STATELESS : ch == 1 ? API_ONECALL : API_CHUNKED, ch == 2 ? 97 : ch == 3 ? 1 : 4096, ch == 2 ? 61 : ch == 3 ? 4096 : 1 };
							size_t outlen;
							struct isal_zstream *s;
							int r = c_deflate(&p, IN, len, OUT, 2 * len + 4096, &outlen, &s);
							v_eval();
							snprintf(key, sizeof key, "producer %s chunking=%d cpu=%s input=%s:%d", cparams_str(&p), ch, cpu_level_name[cpus[ci]], pat_name[pats[pi]], len);
							if (r != COMP_OK || s->internal_state.state != ZSTATE_END) {
								v_violation(key, "compress failed: %d state %d", r, s->internal_state.state);
								nfail++;
							} else if (!verify_deflate_output(OUT, outlen, gzs[gi], IN, len, 0, 0, NULL, 0, why, sizeof why)) {
								v_violation(key, "trailer/stream rejected by the reference: %s", why);
								nfail++;
							} else {
								uint32_t want = (gzs[gi] == IGZIP_GZIP || gzs[gi] == IGZIP_GZIP_NO_HDR) ? ri_crc32(0, IN, len) : ri_adler32(1, IN, len);
								if (vs_res.trailer_sum != want) {
									v_violation(key, "stored checksum %08x != reference %08x", vs_res.trailer_sum, want);
									nfail++;
								}
								v_count("producer_trailers_verified", 1);
								v_nontrivial(v_hash(OUT, outlen, gi));
							}
							g_reset();
						}
		}
}

/* producer, one-shot calls on constant runs (00 / FF): the compressor has a dedicated path for them, taken or refused depending
 * on the output space; EVERY avail_out from 0 to the bound is tried and every successful call must carry the right trailer */
static void producer_runs(void)
{
	static const int gzs[] = { IGZIP_GZIP, IGZIP_GZIP_NO_HDR, IGZIP_ZLIB, IGZIP_ZLIB_NO_HDR };
	static const int lens[] = { 7, 8, 9, 12, 16, 18, 19, 22, 23, 24, 100, 1000, 4096, 5000 };
	static const int cpus[] = { CPU_BASE, CPU_AVX2, CPU_AVX512G2 };
	char key[300], why[256];
	for (unsigned li = 0; li < sizeof lens / sizeof lens[0]; li++)
		for (int pi = 0; pi < 3; pi++)
			for (int level = 0; level <= 3; level++)
				for (int gi = 0; gi < 4; gi++)
					for (int huff = 0; huff < 2; huff++) {
						if (huff && level)
							continue;
						if (!v_mine(unit++))
							continue;
						if (nfail > 40 || v_deadline_hit())
							return;
						int len = lens[li];
						memset(IN, pi == 0 ? 0x00 : 0xff, len);
						if (pi == 2 && len > 8)
							IN[len - 1] = 'x'; /* a run followed by other data */
						size_t bound = stateless_bound(len, gzs[gi]);
						cpu_set_level(cpus[(li + level + gi) % 3]);
						for (size_t ao = 0; ao <= bound + 2; ao++) {
							struct isal_zstream *s = g_alloc(sizeof *s, G_END);
							uint8_t *lb = level ? g_alloc(lvl_min[level], G_END) : NULL, *out = g_alloc(ao, G_END);
							int r = -999;
							if (V_TRY()) {
								isal_deflate_stateless_init(s);
								s->level = level; s->level_buf = lb; s->level_buf_size = level ? lvl_min[level] : 0;
								s->gzip_flag = gzs[gi];
								if (huff)
									isal_deflate_set_hufftables(s, NULL, IGZIP_HUFFTABLE_STATIC);
								s->next_in = IN; s->avail_in = len; s->end_of_stream = 1; s->next_out = out; s->avail_out = ao;
								r = isal_deflate_stateless(s);
								V_END();
							}
							v_eval();
							snprintf(key, sizeof key, "producer one-shot run level=%d wrapper=%s tables=%s cpu=%s input=%s:%d avail_out=%zu (bound %zu)", level, gz_name[gzs[gi]], huff ? "static" : "default",
								 cpu_level_name[cpus[(li + level + gi) % 3]], pi == 0 ? "zero" : pi == 1 ? "ff" : "ff+x", len, ao, bound);
							if (r == COMP_OK) {
								size_t ol = ao - s->avail_out;
								uint32_t want = (gzs[gi] == IGZIP_GZIP || gzs[gi] == IGZIP_GZIP_NO_HDR) ? ri_crc32(0, IN, len) : ri_adler32(1, IN, len);
								if (!verify_deflate_output(out, ol, gzs[gi], IN, len, 0, 0, NULL, 0, why, sizeof why)) {
									v_violation(key, "COMP_OK but: %s", why);
									nfail++;
								} else if (vs_res.trailer_sum != want) {
									v_violation(key, "stored checksum %08x != reference %08x", vs_res.trailer_sum, want);
									nfail++;
								}
								v_count("producer_run_trailers_verified", 1);
							} else if (r != STATELESS_OVERFLOW) {
								v_violation(key, "returned %d", r);
								nfail++;
							}
							g_reset();
						}
						v_nontrivial(v_mix(0x9a17 + li, pi * 64 + level * 16 + gi * 2 + huff));
					}
	/* incompressible inputs whose stored-block form needs one more 5-byte block header than the length below: output space from 12
	 * bytes under the documented bound up to the bound: whatever the call returns as COMP_OK must be a complete stream WITH its trailer */
	{
		static const int slens[] = { 65535, 65536, 65537, 131070, 131071, 131072 };
		for (int li = 0; li < 6; li++)
			for (int level = 0; level <= 3; level++)
				for (int gi = 0; gi < 4; gi++) {
					if (!v_mine(unit++))
						continue;
					if (nfail > 40 || v_deadline_hit())
						return;
					int len = slens[li];
					fill_xorshift(IN, len, 4242 + li);
					size_t bound = stateless_bound(len, gzs[gi]);
					int cpu = cpus[(li + level + gi) % 3];
					cpu_set_level(cpu);
					for (size_t ao = bound - 12; ao <= bound; ao++) {
						struct isal_zstream *s = g_alloc(sizeof *s, G_END);
						uint8_t *lb = level ? g_alloc(lvl_min[level], G_END) : NULL, *out = g_alloc(ao, G_END);
						int r = -999;
						if (V_TRY()) {
							isal_deflate_stateless_init(s);
							s->level = level; s->level_buf = lb; s->level_buf_size = level ? lvl_min[level] : 0;
							s->gzip_flag = gzs[gi];
							s->next_in = IN; s->avail_in = len; s->end_of_stream = 1; s->next_out = out; s->avail_out = ao;
							r = isal_deflate_stateless(s);
							V_END();
						}
						v_eval();
						snprintf(key, sizeof key, "producer one-shot stored level=%d wrapper=%s cpu=%s input=incompressible:%d avail_out=bound-%zu", level, gz_name[gzs[gi]], cpu_level_name[cpu], len, bound - ao);
						if (r == COMP_OK) {
							size_t ol = ao - s->avail_out;
							uint32_t want = (gzs[gi] == IGZIP_GZIP || gzs[gi] == IGZIP_GZIP_NO_HDR) ? ri_crc32(0, IN, len) : ri_adler32(1, IN, len);
							if (!verify_deflate_output(out, ol, gzs[gi], IN, len, 0, 0, NULL, 0, why, sizeof why)) {
								v_violation(key, "COMP_OK but: %s", why);
								nfail++;
							} else if (vs_res.trailer_sum != want) {
								v_violation(key, "stored checksum %08x != reference %08x", vs_res.trailer_sum, want);
								nfail++;
							}
							v_count("producer_run_trailers_verified", 1);
						} else if (r != STATELESS_OVERFLOW) {
							v_violation(key, "returned %d", r);
							nfail++;
						}
						g_reset();
					}
					v_nontrivial(v_mix(0x9a18 + li, level * 16 + gi));
				}
	}
}

/* ---- checksum arithmetic boundaries: every position of a payload whose running Adler-32 halves pass through
 * 0, 1, 65519, 65520 is used as the boundary of an update (output split for the verifier, input split + flush for the
 * producer), so that every internal representation of the running sum (A, A-1, deferred modulo) is seen at a call boundary. */
static uint8_t BD[9000];
static size_t BDN;
static void bd_build(void)
{
	uint32_t a = 1, b = 0;
	size_t n = 0;
	static const struct { int half; uint32_t target; } tg[] = { { 0, 0 }, { 0, 1 }, { 0, 65520 }, { 0, 65519 }, { 1, 0 }, { 1, 65520 }, { 1, 1 }, { 0, 0 } };
	int hits[2][4] = { { 0 } };
	for (unsigned t = 0; t < sizeof tg / sizeof tg[0]; t++) {
		uint8_t filler = (uint8_t)(0xff - t);
		for (;;) {
			uint32_t need = tg[t].half == 0 ? (tg[t].target + 65521 - a) % 65521 : (tg[t].target + 2 * 65521 - b - a) % 65521;
			uint8_t d = need < 256 ? (uint8_t)need : filler;
			if (n >= sizeof BD - 64)
				v_broken("boundary payload: target %u not reached", t);
			BD[n++] = d;
			a = (a + d) % 65521;
			b = (b + a) % 65521;
			if (need < 256)
				break;
		}
		if ((tg[t].half == 0 ? a : b) != tg[t].target)
			v_broken("boundary payload construction");
	}
	for (int i = 0; i < 40; i++)
		BD[n++] = (uint8_t)('a' + i % 7);
	BDN = n;
	/* confirm with the reference which prefixes sit on a boundary value */
	for (size_t k = 1; k <= n; k++) {
		uint32_t ad = ri_adler32(1, BD, k);
		static const uint32_t bv[4] = { 0, 1, 65519, 65520 };
		for (int h = 0; h < 2; h++)
			for (int v = 0; v < 4; v++)
				if ((h ? ad >> 16 : ad & 0xffff) == bv[v])
					hits[h][v]++;
	}
	for (int v = 0; v < 4; v++)
		if (!hits[0][v] || (v != 2 && !hits[1][v]))
			v_broken("boundary payload: no prefix with %s == boundary value #%d", "A/B", v);
	if (v_shard == 0) {
		v_max("boundary_payload_bytes", (long)n);
		v_max("boundary_prefixes_A_eq_0", hits[0][0]);
		v_max("boundary_prefixes_A_eq_65520", hits[0][3]);
		v_max("boundary_prefixes_B_eq_0", hits[1][0]);
		v_max("boundary_prefixes_B_eq_65520", hits[1][3]);
	}
}

static void boundary(void)
{
	bd_build();
	size_t n = BDN;
	static const int cpus[] = { CPU_BASE, CPU_SSE, CPU_AVX2 };
	static const int vmodes[] = { ISAL_ZLIB, ISAL_ZLIB_NO_HDR_VER, ISAL_GZIP, ISAL_GZIP_NO_HDR_VER };
	char key[300], why[256];
	/* two encodings of the payload: stored blocks (reference generator) and zlib level 6 */
	static uint8_t body[2][12000], strm[12000];
	size_t blen[2], ebit[2];
	struct bw w;
	bw_init(&w, body[0], sizeof body[0]);
	gen_stored(&w, 1, BD, n, 0);
	blen[0] = bw_bytes(&w);
	ebit[0] = w.bit;
	{
		z_stream z;
		memset(&z, 0, sizeof z);
		if (deflateInit2(&z, 6, Z_DEFLATED, -15, 8, Z_DEFAULT_STRATEGY) != Z_OK)
			v_broken("zlib init");
		z.next_in = BD; z.avail_in = n; z.next_out = body[1]; z.avail_out = sizeof body[1];
		if (deflate(&z, Z_FINISH) != Z_STREAM_END)
			v_broken("zlib deflate");
		blen[1] = z.total_out;
		ebit[1] = 8 * blen[1];
		deflateEnd(&z);
	}
	for (size_t k = 0; k <= n; k++) {
		if (!v_mine(unit++))
			continue;
		if (nfail > 40 || v_deadline_hit())
			return;
		/* verifier: output space ends exactly after k bytes, then the rest */
		for (int e = 0; e < 2; e++)
			for (int mi = 0; mi < 4; mi++)
				for (int ci = 0; ci < 3; ci++) {
					size_t te, wl = wrap_stream(vmodes[mi], body[e], blen[e], ebit[e], BD, n, NULL, strm, &te);
					cpu_set_level(cpus[ci]);
					uint8_t *in = g_alloc(wl, G_END);
					memcpy(in, strm, wl);
					uint8_t *out = g_alloc(n, G_END);
					struct inflate_state *st = g_alloc(sizeof *st, G_END);
					int ret = -999, fault = 0, calls = 0;
					if (V_TRY()) {
						isal_inflate_init(st);
						st->crc_flag = vmodes[mi];
						st->next_in = in; st->avail_in = wl;
						st->next_out = out; st->avail_out = k;
						do {
							ret = isal_inflate(st);
							if (st->avail_out == 0 && st->next_out < out + n)
								st->avail_out = out + n - st->next_out;
						} while (ret == ISAL_DECOMP_OK && st->block_state != ISAL_BLOCK_FINISH && ++calls < 8);
						V_END();
					} else
						fault = 1;
					v_eval();
					int gz = vmodes[mi] == ISAL_GZIP || vmodes[mi] == ISAL_GZIP_NO_HDR_VER;
					uint32_t want = gz ? ri_crc32(0, BD, n) : ri_adler32(1, BD, n);
					snprintf(key, sizeof key, "boundary verifier enc=%s mode=%s cpu=%s out-split@%zu (adler prefix %08x)", e ? "zlib6" : "stored", cf_name[vmodes[mi]], cpu_level_name[cpus[ci]], k, ri_adler32(1, BD, k));
					if (fault) {
						v_violation(key, "fault %s", v_fault_desc());
						nfail++;
					} else if (ret != ISAL_DECOMP_OK || st->block_state != ISAL_BLOCK_FINISH) {
						v_violation(key, "a valid stream with a correct trailer was not accepted: return %d block_state %d", ret, st->block_state);
						nfail++;
					} else if ((size_t)(st->next_out - out) != n || memcmp(out, BD, n)) {
						v_violation(key, "output differs");
						nfail++;
					} else if (st->crc != want) {
						v_violation(key, "state.crc %08x but the reference checksum of the delivered bytes is %08x", st->crc, want);
						nfail++;
					}
					v_count("boundary_verifier_runs", 1);
					v_nontrivial(v_mix(k * 64 + e * 16 + mi * 4 + ci, 0xb0));
					g_reset();
				}
		/* producer: input split after k bytes, with each flush kind on the first piece */
		static const int gzs[] = { IGZIP_ZLIB, IGZIP_ZLIB_NO_HDR, IGZIP_GZIP };
		for (int level = 0; level <= 3; level++)
			for (int gi = 0; gi < 3; gi++)
				for (int fl = 0; fl < 3; fl++)
					for (int ci = 0; ci < 3; ci++) {
						if (gi == 2 && (fl || ci))
							continue;
						cpu_set_level(cpus[ci]);
						struct isal_zstream *s = g_alloc(sizeof *s, G_END);
						uint32_t lbs = level ? lb_size(level, LB_MIN) : 0;
						uint8_t *lb = level ? g_alloc(lbs, G_END) : NULL;
						uint8_t *in1 = g_alloc(k, G_END), *in2 = g_alloc(n - k, G_END);
						memcpy(in1, BD, k);
						memcpy(in2, BD + k, n - k);
						size_t cap = 2 * n + 4096;
						int r = -999, fault = 0;
						if (V_TRY()) {
							isal_deflate_init(s);
							s->level = level; s->level_buf = lb; s->level_buf_size = lbs;
							s->gzip_flag = gzs[gi];
							s->flush = fl;
							s->next_out = OUT; s->avail_out = cap;
							s->next_in = in1; s->avail_in = k; s->end_of_stream = 0;
							r = isal_deflate(s);
							if (r == COMP_OK && s->avail_in == 0) {
								s->flush = NO_FLUSH;
								s->next_in = in2; s->avail_in = n - k; s->end_of_stream = 1;
								r = isal_deflate(s);
							} else if (r == COMP_OK)
								r = -998;
							V_END();
						} else
							fault = 1;
						v_eval();
						snprintf(key, sizeof key, "boundary producer level=%d wrapper=%s first-piece-flush=%s cpu=%s in-split@%zu (adler prefix %08x)", level, gz_name[gzs[gi]], flush_name[fl], cpu_level_name[cpus[ci]], k, ri_adler32(1, BD, k));
						size_t outlen = cap - s->avail_out;
						if (fault) {
							v_violation(key, "fault %s", v_fault_desc());
							nfail++;
						} else if (r != COMP_OK || s->internal_state.state != ZSTATE_END) {
							v_violation(key, "compress failed: %d state %d", r, s->internal_state.state);
							nfail++;
						} else if (!verify_deflate_output(OUT, outlen, gzs[gi], BD, n, 0, 0, NULL, 0, why, sizeof why)) {
							v_violation(key, "trailer/stream rejected by the reference: %s", why);
							nfail++;
						} else {
							uint32_t want = gzs[gi] == IGZIP_GZIP ? ri_crc32(0, BD, n) : ri_adler32(1, BD, n);
							if (vs_res.trailer_sum != want) {
								v_violation(key, "stored checksum %08x != reference %08x", vs_res.trailer_sum, want);
								nfail++;
							}
						}
						v_count("boundary_producer_runs", 1);
						g_reset();
					}
	}
	/* one-shot whole payloads that end on each boundary value (prefixes of the payload), all producer APIs */
	for (size_t k = 1; k <= n; k++) {
		uint32_t ad = ri_adler32(1, BD, k), A = ad & 0xffff, B = ad >> 16;
		if (!(A <= 1 || A >= 65519 || B <= 1 || B >= 65519))
			continue;
		if (!v_mine(unit++))
			continue;
		for (int level = 0; level <= 3; level++)
			for (int api = 0; api < 2; api++)
				for (int ci = 0; ci < 3; ci++) {
					cpu_set_level(cpus[ci]);
					struct cparams p = { level, NO_FLUSH, IGZIP_ZLIB, 0, 0, LB_MIN, api ? API_ONECALL : API_STATELESS, 4096, 4096 };
					size_t outlen;
					struct isal_zstream *s;
					memcpy(IN, BD, k);
					int r = c_deflate(&p, IN, k, OUT, 2 * k + 4096, &outlen, &s);
					v_eval();
					snprintf(key, sizeof key, "boundary producer whole %s cpu=%s payload=prefix(%zu) adler=%08x", cparams_str(&p), cpu_level_name[cpus[ci]], k, ad);
					if (r != COMP_OK) {
						v_violation(key, "compress failed: %d", r);
						nfail++;
					} else if (!verify_deflate_output(OUT, outlen, IGZIP_ZLIB, BD, k, 0, 0, NULL, 0, why, sizeof why)) {
						v_violation(key, "trailer/stream rejected by the reference: %s", why);
						nfail++;
					} else if (vs_res.trailer_sum != ad) {
						v_violation(key, "stored checksum %08x != reference %08x", vs_res.trailer_sum, ad);
						nfail++;
					} else {
						/* and the verifier on that stream, stateless and streaming */
						for (int dapi = 0; dapi < 2; dapi++) {
							uint8_t *in = g_alloc(outlen, G_END);
							memcpy(in, OUT, outlen);
							uint8_t *out = g_alloc(k, G_END);
							struct dres d;
							c_inflate(dapi, ISAL_ZLIB, 0, in, outlen, out, k, &d, NULL);
							if (d.fault || d.ret != ISAL_DECOMP_OK || d.block_state != ISAL_BLOCK_FINISH || d.crc != ad) {
								v_violation(key, "verifier (%s): ret %d block_state %d state.crc %08x", dapi ? "isal_inflate" : "stateless", d.ret, d.block_state, d.crc);
								nfail++;
							}
						}
					}
					v_count("boundary_whole_payload_runs", 1);
					g_reset();
				}
	}
}

/* Streams longer than 4 GiB through the streaming APIs: total_in / total_out are 32-bit and wrap, ISIZE is the length mod 2^32,
 * hash indices are 16-bit. 2^32 + 5 + 77777 input bytes are fed in 1 MiB pieces; the gzip stream is (a) checked for its trailer
 * against the reference CRC-32 / length, (b) decoded again by isal_inflate (trailer verification on) and by zlib, both streaming,
 * and the decoded bytes are compared piece by piece with the input. Data: a constant byte, or a 3 MiB mixed block repeated. */
/* expected data of the big streams: kinds 0/1 are periodic (3 MiB); kinds 2/3 are constant 'z' except 4 MiB of noise centred on
 * offset 2^32 (a stored-block fallback straddling the point where the 32-bit running offsets wrap) */
static uint8_t *bs_src, *bs_noise;
static const uint8_t *bs_at(int kind, uint64_t pos, size_t *n)
{
	enum { PERIOD = 3 << 20 };
	if (kind < 2) {
		*n = PERIOD - pos % PERIOD;
		return bs_src + pos % PERIOD;
	}
	/* the zone starts half a MiB off the MiB grid, so that the 1 MiB input pieces that follow have offset 2^32 in their INTERIOR (a block
	 * can be emitted as a stored block only while all of its input is still in the caller's current piece) */
	uint64_t lo = (1ull << 32) - (5 << 19), hi = (1ull << 32) + (3 << 19);
	if (pos >= lo && pos < hi) {
		*n = hi - pos;
		return bs_noise + (pos - lo);
	}
	*n = pos < lo ? lo - pos : ~(size_t)0;
	if (*n > (3 << 20))
		*n = 3 << 20;
	return bs_src; /* 4 MiB of 'z' */
}
static void big_stream(int level, int kind)
{
	enum { PIECE = 1 << 20, PERIOD = 3 << 20 };
	static uint8_t *src, *obuf, *cbuf;
	static uint8_t lb[ISAL_DEF_LVL3_DEFAULT];
	const uint64_t total = (1ull << 32) + 5 + 77777;
	size_t ccap = kind == 1 ? (size_t)7 << 29 : 64 << 20; /* compressed size: mixed data needs room (lazily touched) */
	if (!src) {
		src = malloc(PERIOD + PIECE);
		obuf = malloc(PIECE);
		bs_noise = malloc(4 << 20);
		fill_xorshift(bs_noise, 4 << 20, 20260);
	}
	bs_src = src;
	cbuf = malloc(ccap);
	if (!cbuf) {
		v_not_exhaustive("big stream: cannot allocate the compressed-stream buffer");
		return;
	}
	if (kind != 1)
		memset(src, 'z', PERIOD + PIECE);
	else {
		fill_mixed(src, PERIOD, 31 + level);
		memcpy(src + PERIOD, src, PIECE);
	}
	char key[200];
	snprintf(key, sizeof key, "big-stream level=%d data=%s total=2^32+77782", level, kind == 0 ? "constant" : kind == 1 ? "mixed(period 3 MiB)" : kind == 2 ? "constant with 4 MiB of noise around offset 2^32" : "constant with 4 MiB of noise around offset 2^32, 4096-byte output pieces, level buffer between SMALL and MEDIUM");
	/* the stream object starts directly behind an inaccessible page: the codec keeps its history inside the object, and a look-back
	 * that strays in front of it faults */
	static struct isal_zstream *sp;
	if (!sp)
		sp = g_persist(sizeof *sp, G_START);
#define s (*sp)
	isal_deflate_init(&s);
	s.avail_in = 0; /* not touched by isal_deflate_init; the feeding loop below tests it */
	s.level = level; s.level_buf = level ? lb : NULL; s.level_buf_size = level ? lvl_default[level] : 0; s.gzip_flag = IGZIP_GZIP;
	if (kind == 3 && level) /* a size between the named ones: blocks of some 50 KiB, longer than the 32 KiB window yet inside the internal buffer */
		s.level_buf_size = (lvl_small[level] + lvl_medium[level]) / 2;
	uint64_t fed = 0, clen = 0;
	uint32_t crc = 0;
	int flush_pending = 0;
	cpu_set_level(CPU_HOST);
	while (s.internal_state.state != ZSTATE_END) {
		/* a pending flush request is repeated (no new input) until it has completed: all input consumed and output space left */
		if (s.avail_in == 0 && fed < total && !(s.flush != NO_FLUSH && flush_pending)) {
			size_t k = total - fed < PIECE ? total - fed : PIECE, nmax;
			s.next_in = (uint8_t *)bs_at(kind, fed, &nmax);
			if (k > nmax)
				k = nmax;
			/* kinds 2/3: a SYNC_FLUSH shortly before the wrap pins a block start there (2^32-70000 / 2^32-40000): the block that is then
			 * cut by the token-buffer capacity or by the output space straddles offset 2^32 */
			uint64_t F = kind == 2 ? (1ull << 32) - 70000 : kind == 3 ? (1ull << 32) - 40000 : 0;
			s.flush = NO_FLUSH;
			if (F && fed < F && fed + k >= F) {
				k = F - fed;
				s.flush = kind == 3 ? FULL_FLUSH : SYNC_FLUSH; /* after a full flush the history is dropped: the internal buffer takes a whole new block */
			}
			s.avail_in = k;
			crc = ri_crc32(crc, s.next_in, k);
			fed += k;
			s.end_of_stream = fed == total;
		}
		if (clen + PIECE > ccap) {
			v_violation(key, "compressed stream larger than %zu bytes", ccap);
			free(cbuf);
			return;
		}
		uint32_t oa = kind == 3 ? 4096 : PIECE; /* kind 3: a stored block never fits: calls return in the middle of it */
		s.next_out = cbuf + clen; s.avail_out = oa;
		int r;
		if (V_TRY()) {
			r = isal_deflate(&s);
			V_END();
		} else {
			v_violation(key, "%s after %llu input bytes", v_fault_desc(), (unsigned long long)fed);
			free(cbuf);
			return;
		}
		if (r != COMP_OK) {
			v_violation(key, "isal_deflate returned %d after %llu bytes", r, (unsigned long long)fed);
			free(cbuf);
			return;
		}
		clen += oa - s.avail_out;
		flush_pending = s.flush != NO_FLUSH && !(s.avail_in == 0 && s.avail_out > 0);
	}
	v_eval();
	uint32_t scrc = cbuf[clen - 8] | cbuf[clen - 7] << 8 | cbuf[clen - 6] << 16 | (uint32_t)cbuf[clen - 5] << 24,
		 sisz = cbuf[clen - 4] | cbuf[clen - 3] << 8 | cbuf[clen - 2] << 16 | (uint32_t)cbuf[clen - 1] << 24;
	if (scrc != crc || sisz != (uint32_t)total)
		v_violation(key, "trailer: crc %08x (reference %08x) isize %u (expected %u = length mod 2^32)", scrc, crc, sisz, (uint32_t)total);
	/* decode with isal_inflate (streaming, gzip verification) */
	for (int dec = 0; dec < 2; dec++) {
		uint64_t got = 0, ipos = 0;
		int bad = 0, fin = 0;
		struct inflate_state *st = malloc(sizeof *st);
		z_stream z;
		memset(&z, 0, sizeof z);
		if (dec == 0) {
			isal_inflate_init(st);
			st->crc_flag = ISAL_GZIP;
		} else
			inflateInit2(&z, 31);
		while (!fin && !bad) {
			size_t k = clen - ipos < PIECE ? clen - ipos : PIECE;
			size_t produced, consumed;
			if (dec == 0) {
				st->next_in = cbuf + ipos; st->avail_in = k; st->next_out = obuf; st->avail_out = PIECE;
				int r = isal_inflate(st);
				consumed = k - st->avail_in; produced = PIECE - st->avail_out;
				if (r != ISAL_DECOMP_OK) { v_violation(key, "isal_inflate returned %d after %llu output bytes", r, (unsigned long long)got); bad = 1; }
				fin = st->block_state == ISAL_BLOCK_FINISH;
			} else {
				z.next_in = cbuf + ipos; z.avail_in = k; z.next_out = obuf; z.avail_out = PIECE;
				int r = inflate(&z, Z_NO_FLUSH);
				consumed = k - z.avail_in; produced = PIECE - z.avail_out;
				if (r != Z_OK && r != Z_STREAM_END) { v_violation(key, "zlib inflate returned %d (%s) after %llu output bytes", r, z.msg ? z.msg : "", (unsigned long long)got); bad = 1; }
				fin = r == Z_STREAM_END;
			}
			ipos += consumed;
			/* compare with the input (pieces may straddle the period) */
			for (size_t i = 0; i < produced && !bad;) {
				size_t nmax;
				const uint8_t *want = bs_at(kind, got + i, &nmax);
				size_t n = produced - i < nmax ? produced - i : nmax;
				if (got + i + n > total || memcmp(obuf + i, want, n)) {
					v_violation(key, "%s output differs from the input near offset %llu", dec ? "zlib" : "isal_inflate", (unsigned long long)(got + i));
					bad = 1;
				}
				i += n;
			}
			got += produced;
			if (!consumed && !produced && !fin) { v_violation(key, "%s made no progress at input %llu", dec ? "zlib" : "isal_inflate", (unsigned long long)ipos); bad = 1; }
		}
		if (!bad && (got != total || ipos != clen))
			v_violation(key, "%s: %llu bytes decoded (expected %llu), %llu of %llu stream bytes consumed", dec ? "zlib" : "isal_inflate", (unsigned long long)got, (unsigned long long)total, (unsigned long long)ipos, (unsigned long long)clen);
		if (dec)
			inflateEnd(&z);
		free(st);
		v_eval();
	}
	free(cbuf);
	v_count("streams_over_4GiB_round_tripped", 1);
	v_nontrivial(v_mix(0x4619, level * 2 + kind));
#undef s
}

int main(int argc, char **argv)
{
	v_init(argc, argv, "C11");
	gs_init();
	M_CHECK_CRC_STATE = 1;
	wbuf = malloc(GS_MAXBODY + 4096);
	IN = malloc(140016);
	OUT = malloc(2 * 70016 + 4096);
	if (!v_part || !strcmp(v_part, "verifier")) {
		/* hand-picked seeds: empty payload, stored, fixed, dynamic; payload whose CRC-32 contains a zero byte */
		uint8_t body[64];
		struct bw w;
		static const int modes[] = { ISAL_GZIP, ISAL_ZLIB, ISAL_GZIP_NO_HDR_VER, ISAL_ZLIB_NO_HDR_VER };
		for (int mi = 0; mi < 4; mi++) {
			bw_init(&w, body, sizeof body); gen_stored(&w, 1, NULL, 0, 0);
			run_seed("empty stored", modes[mi], body, bw_bytes(&w), w.bit, (const uint8_t *)"", 0, NULL);
			bw_init(&w, body, sizeof body); gen_fixed(&w, 1, NULL, 0);
			run_seed("empty fixed", modes[mi], body, bw_bytes(&w), w.bit, (const uint8_t *)"", 0, NULL);
			bw_init(&w, body, sizeof body); gen_stored(&w, 1, (const uint8_t *)"stored data", 11, 0);
			run_seed("stored(11)", modes[mi], body, bw_bytes(&w), w.bit, (const uint8_t *)"stored data", 11, NULL);
			if (mi == 0) {
				static const uint8_t ex[3] = { 1, 2, 3 };
				static const struct rh_gzip rich = { 1, 0x5f5e100, 4, 3, ex, 3, "n", "c", 1 };
				run_seed("stored(11)", ISAL_GZIP, body, bw_bytes(&w), w.bit, (const uint8_t *)"stored data", 11, &rich);
			}
			/* search a 2-byte payload whose CRC-32 has a zero byte (exercises zero bytes in the trailer) */
			uint8_t pl[2] = { 0, 0 };
			for (int v = 0; v < 65536; v++) {
				pl[0] = (uint8_t)v; pl[1] = (uint8_t)(v >> 8);
				uint32_t c = ri_crc32(0, pl, 2);
				if (!(c & 0xff) || !(c >> 24))
					break;
			}
			struct tok t[2] = { { 0, pl[0], 0 }, { 0, pl[1], 0 } };
			bw_init(&w, body, sizeof body); gen_fixed(&w, 1, t, 2);
			run_seed("fixed payload with zero byte in CRC-32", modes[mi], body, bw_bytes(&w), w.bit, pl, 2, NULL);
		}
		int every = v_thorough ? 7 : 30;
		uint64_t idx = 0;
		gs_family_shapes(mine, &idx, seed_cb, &every);
		every = v_thorough ? 20 : 100;
		gs_family_tokens(2, 1, mine, &idx, seed_cb, &every);
	}
	if (!v_part || !strcmp(v_part, "producer")) {
		producer();
		producer_runs();
	}
	if (!v_part || !strcmp(v_part, "boundary"))
		boundary();
	if (!v_part || !strcmp(v_part, "isize")) {
		/* quick: levels 0 and 1 on constant data; thorough: all levels x both data kinds (one configuration per shard) */
		for (int level = 0; level <= 3; level++)
			for (int kind = 0; kind < 4; kind++) {
				/* quick: constant data at levels 0-1, noise around the 2^32 offset at level 3 (ample output) and level 1 (4096-byte output, in-between level buffer) */
				if (!v_thorough && !((kind == 0 && level <= 1) || (kind == 2 && level == 3) || (kind == 3 && level == 1)))
					continue;
				if (!v_mine(unit++))
					continue;
				big_stream(level, kind);
			}
	}
	if (v_shard == 0) {
		v_sample("seed{stored(11)} mode=GZIP bitflip@26.3(trailer) driver=split@25: must not complete; reference says incorrect-checksum");
		v_sample("producer level=2 wrapper=zlib_no_hdr api=deflate-chunked(1-byte input) input=text:8193: stored Adler-32 == reference Adler-32 of the input, stream accepted");
		v_note("benign flips (MTIME/XFL/OS/name bytes without FHCRC) are accepted by both the reference and the codec and count as valid candidates");
		v_note("boundary part: a payload built so that its running Adler-32 halves A and B pass through 0, 1, 65519 and 65520; EVERY position of it is used as an output split (verifier) and as an input split with each flush kind (producer), on the base/sse/avx2 adler kernels");
		v_note("after every completion state.crc must equal the reference CRC-32/Adler-32 of the delivered bytes");
	}
	return v_finish();
}
