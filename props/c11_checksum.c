/* C11 - wrapped streams carry correct checksums and verification catches corruption. */
#include "mutants.h"

static uint8_t *wbuf, *IN, *OUT;
static int mine(uint64_t id) { (void)id; return 1; }
static uint64_t seed_no, unit;

static void run_seed(const char *desc, int mode, const uint8_t *body, size_t blen, size_t end_bit, const uint8_t *x, size_t xlen, const struct rh_gzip *gh)
{
	if (!v_mine(unit++))
		return;
	if (nfail > 40 || v_deadline_hit())
		return;
	size_t te;
	size_t wl = wrap_stream(mode, body, blen, end_bit, x, xlen, gh, wbuf, &te);
	char d[300];
	snprintf(d, sizeof d, "seed{%s}%s", desc, gh ? "+rich-header" : "");
	candidate(d, mode, wbuf, wl, 0, seed_no, 0);
	/* closure with the full driver set on every mutant (header, body and trailer offsets) */
	static uint8_t *m;
	if (!m)
		m = malloc(GS_MAXBODY + 4096);
	char dd[420];
	for (size_t t = 0; t < wl; t++) {
		snprintf(dd, sizeof dd, "%s truncated@%zu", d, t);
		candidate(dd, mode, wbuf, t, 0, seed_no + t, 0);
	}
	memcpy(m, wbuf, wl);
	for (size_t p = 0; p < wl; p++) {
		for (int b = 0; b < 8; b++) {
			m[p] = wbuf[p] ^ (uint8_t)(1 << b);
			snprintf(dd, sizeof dd, "%s bitflip@%zu.%d%s", d, p, b, p >= wl - (mode == ISAL_GZIP || mode == ISAL_GZIP_NO_HDR_VER ? 8 : 4) ? "(trailer)" : "");
			candidate(dd, mode, m, wl, 0, seed_no + p, p % 3 != 0);
		}
		static const uint8_t sub[3] = { 0x00, 0xff, 0x01 };
		for (int vi = 0; vi < 3; vi++) {
			uint8_t v = vi == 2 ? (uint8_t)(wbuf[p] + 1) : sub[vi];
			if (v == wbuf[p])
				continue;
			m[p] = v;
			snprintf(dd, sizeof dd, "%s subst@%zu=%02x", d, p, v);
			candidate(dd, mode, m, wl, 0, seed_no + p, 1);
		}
		m[p] = wbuf[p];
		if (nfail > 40 || v_deadline_hit())
			return;
	}
	v_count("seeds", 1);
	seed_no++;
}
static void seed_cb(const struct gstream *g, void *ctx)
{
	static const int modes[] = { ISAL_GZIP, ISAL_ZLIB, ISAL_GZIP_NO_HDR_VER, ISAL_ZLIB_NO_HDR_VER };
	int *every = ctx;
	static uint64_t ctr;
	if (g->blen > 72 || g->xlen > 3000)
		return;
	if (ctr++ % *every)
		return;
	struct ri_opts o;
	memset(&o, 0, sizeof o);
	static struct ri_result rr;
	static uint8_t *tmp;
	if (!tmp)
		tmp = malloc(GS_MAXOUT);
	rr.out = tmp;
	rr.out_cap = GS_MAXOUT;
	ref_inflate(g->body, g->blen, &o, &rr);
	if (rr.verdict != RI_VALID)
		v_broken("seed invalid");
	static const uint8_t ex[3] = { 1, 2, 3 };
	static const struct rh_gzip rich = { 1, 0x5f5e100, 4, 3, ex, 3, "n", "c", 1 };
	int mode = modes[ctr % 4];
	run_seed(g->desc, mode, g->body, (rr.end_bit + 7) / 8, rr.end_bit, g->x, g->xlen, mode == ISAL_GZIP && (ctr % 8 < 4) ? &rich : NULL);
}

/* producer side: trailers written by the compressor, for every chunking */
static void producer(void)
{
	static const int gzs[] = { IGZIP_GZIP, IGZIP_GZIP_NO_HDR, IGZIP_ZLIB, IGZIP_ZLIB_NO_HDR };
	static const int lens[] = { 0, 1, 5, 258, 300, 4096, 8193, 70000 };
	static const int pats[] = { PAT_TEXT, PAT_XS, PAT_ZERO };
	static const int cpus[] = { CPU_BASE, CPU_SSE, CPU_AVX2, CPU_AVX512G2 };
	char key[300], why[256];
	for (unsigned li = 0; li < sizeof lens / sizeof lens[0]; li++)
		for (int pi = 0; pi < 3; pi++) {
			if (!v_mine(unit++))
				continue;
			int len = lens[li];
			fill_pattern(IN, len, pats[pi], len + pi);
			for (int level = 0; level <= 3; level++)
				for (int gi = 0; gi < 4; gi++)
					for (int ch = 0; ch < 5; ch++)
						for (int ci = 0; ci < 4; ci++) {
							if (len == 70000 && (ch >= 3 || ci % 2))
								continue;
							if (nfail > 40 || v_deadline_hit())
								return;
							cpu_set_level(cpus[ci]);
							struct cparams p = { level, NO_FLUSH, gzs[gi], 0, 0, LB_MIN, ch == 0 ? API_STATELESS : ch == 1 ? API_ONECALL : API_CHUNKED, ch == 2 ? 97 : ch == 3 ? 1 : 4096, ch == 2 ? 61 : ch == 3 ? 4096 : 1 };
							size_t outlen;
							struct isal_zstream *s;
							int r = c_deflate(&p, IN, len, OUT, 2 * len + 4096, &outlen, &s);
							v_eval();
							snprintf(key, sizeof key, "producer %s chunking=%d cpu=%s input=%s:%d", cparams_str(&p), ch, cpu_level_name[cpus[ci]], pat_name[pats[pi]], len);
							if (r != COMP_OK || s->internal_state.state != ZSTATE_END) {
								v_violation(key, "compress failed: %d state %d", r, s->internal_state.state);
								nfail++;
							} else if (!verify_deflate_output(OUT, outlen, gzs[gi], IN, len, 0, 0, NULL, 0, why, sizeof why)) {
								v_violation(key, "trailer/stream rejected by the reference: %s", why);
								nfail++;
							} else {
								uint32_t want = (gzs[gi] == IGZIP_GZIP || gzs[gi] == IGZIP_GZIP_NO_HDR) ? ri_crc32(0, IN, len) : ri_adler32(1, IN, len);
								if (vs_res.trailer_sum != want) {
									v_violation(key, "stored checksum %08x != reference %08x", vs_res.trailer_sum, want);
									nfail++;
								}
								v_count("producer_trailers_verified", 1);
								v_nontrivial(v_hash(OUT, outlen, gi));
							}
							g_reset();
						}
		}
}

/* ISIZE wrap-around: 2^32 + 5 input bytes through the streaming API (thorough) */
static void isize_wrap(void)
{
	static uint8_t chunk[1 << 20], obuf[1 << 16], lb[ISAL_DEF_LVL1_DEFAULT];
	struct isal_zstream s;
	memset(chunk, 'z', sizeof chunk);
	isal_deflate_init(&s);
	s.level = 1; s.level_buf = lb; s.level_buf_size = sizeof lb; s.gzip_flag = IGZIP_GZIP;
	uint64_t total = (1ull << 32) + 5, fed = 0;
	uint32_t crc = 0;
	uint8_t last8[8] = { 0 };
	uint64_t outtotal = 0;
	cpu_set_level(CPU_HOST);
	while (s.internal_state.state != ZSTATE_END) {
		if (s.avail_in == 0 && fed < total) {
			size_t k = total - fed < sizeof chunk ? total - fed : sizeof chunk;
			s.next_in = chunk; s.avail_in = k;
			crc = ri_crc32(crc, chunk, k);
			fed += k;
			s.end_of_stream = fed == total;
		}
		s.next_out = obuf; s.avail_out = sizeof obuf;
		int r = isal_deflate(&s);
		if (r != COMP_OK) {
			v_violation("isize-wrap", "isal_deflate returned %d after %llu bytes", r, (unsigned long long)fed);
			return;
		}
		size_t p = sizeof obuf - s.avail_out;
		outtotal += p;
		if (p >= 8)
			memcpy(last8, obuf + p - 8, 8);
		else if (p) {
			memmove(last8, last8 + p, 8 - p);
			memcpy(last8 + 8 - p, obuf, p);
		}
	}
	uint32_t scrc = last8[0] | last8[1] << 8 | last8[2] << 16 | (uint32_t)last8[3] << 24, sisz = last8[4] | last8[5] << 8 | last8[6] << 16 | (uint32_t)last8[7] << 24;
	v_eval();
	if (scrc != crc || sisz != 5)
		v_violation("isize-wrap", "trailer after 2^32+5 bytes: crc %08x (reference %08x) isize %u (expected 5 = length mod 2^32)", scrc, crc, sisz);
	v_count("isize_wraparound_checked", 1);
}

int main(int argc, char **argv)
{
	v_init(argc, argv, "C11");
	gs_init();
	M_CHECK_CRC_STATE = 1;
	wbuf = malloc(GS_MAXBODY + 4096);
	IN = malloc(70016);
	OUT = malloc(2 * 70016 + 4096);
	if (!v_part || !strcmp(v_part, "verifier")) {
		/* hand-picked seeds: empty payload, stored, fixed, dynamic; payload whose CRC-32 contains a zero byte */
		uint8_t body[64];
		struct bw w;
		static const int modes[] = { ISAL_GZIP, ISAL_ZLIB, ISAL_GZIP_NO_HDR_VER, ISAL_ZLIB_NO_HDR_VER };
		for (int mi = 0; mi < 4; mi++) {
			bw_init(&w, body, sizeof body); gen_stored(&w, 1, NULL, 0, 0);
			run_seed("empty stored", modes[mi], body, bw_bytes(&w), w.bit, (const uint8_t *)"", 0, NULL);
			bw_init(&w, body, sizeof body); gen_fixed(&w, 1, NULL, 0);
			run_seed("empty fixed", modes[mi], body, bw_bytes(&w), w.bit, (const uint8_t *)"", 0, NULL);
			bw_init(&w, body, sizeof body); gen_stored(&w, 1, (const uint8_t *)"stored data", 11, 0);
			run_seed("stored(11)", modes[mi], body, bw_bytes(&w), w.bit, (const uint8_t *)"stored data", 11, NULL);
			if (mi == 0) {
				static const uint8_t ex[3] = { 1, 2, 3 };
				static const struct rh_gzip rich = { 1, 0x5f5e100, 4, 3, ex, 3, "n", "c", 1 };
				run_seed("stored(11)", ISAL_GZIP, body, bw_bytes(&w), w.bit, (const uint8_t *)"stored data", 11, &rich);
			}
			/* search a 2-byte payload whose CRC-32 has a zero byte (exercises zero bytes in the trailer) */
			uint8_t pl[2] = { 0, 0 };
			for (int v = 0; v < 65536; v++) {
				pl[0] = (uint8_t)v; pl[1] = (uint8_t)(v >> 8);
				uint32_t c = ri_crc32(0, pl, 2);
				if (!(c & 0xff) || !(c >> 24))
					break;
			}
			struct tok t[2] = { { 0, pl[0], 0 }, { 0, pl[1], 0 } };
			bw_init(&w, body, sizeof body); gen_fixed(&w, 1, t, 2);
			run_seed("fixed payload with zero byte in CRC-32", modes[mi], body, bw_bytes(&w), w.bit, pl, 2, NULL);
		}
		int every = v_thorough ? 7 : 30;
		uint64_t idx = 0;
		gs_family_shapes(mine, &idx, seed_cb, &every);
		every = v_thorough ? 20 : 100;
		gs_family_tokens(2, 1, mine, &idx, seed_cb, &every);
	}
	if (!v_part || !strcmp(v_part, "producer"))
		producer();
	if (v_thorough && (!v_part || !strcmp(v_part, "isize")) && v_shard == 0)
		isize_wrap();
	if (v_shard == 0) {
		v_sample("seed{stored(11)} mode=GZIP bitflip@26.3(trailer) driver=split@25: must not complete; reference says incorrect-checksum");
		v_sample("producer level=2 wrapper=zlib_no_hdr api=deflate-chunked(1-byte input) input=text:8193: stored Adler-32 == reference Adler-32 of the input, stream accepted");
		v_note("benign flips (MTIME/XFL/OS/name bytes without FHCRC) are accepted by both the reference and the codec and count as valid candidates");
		v_note("after every completion state.crc must equal the reference CRC-32/Adler-32 of the delivered bytes");
	}
	return v_finish();
}
