/* C09 - any k survivors recover the data; matrix inversion is exact; generators follow their formulas. */
#include "verif.h"
#include "ref_gf.h"
#include "erasure_code.h"

static long nfail;
#define NM 520

/* run the real gf_invert_matrix on a copy; oracle: success <=> full rank, and original x result == I */
static void inv_case(const uint8_t *m, int n, const char *family, uint64_t idx)
{
	static uint8_t prod[NM * NM];
	char key[200];
	/* both matrices are exactly n*n bytes and end at an inaccessible page (canaries in front): any access beyond them shows */
	uint8_t *in = g_alloc((size_t)n * n, G_END), *out = g_alloc((size_t)n * n, G_END);
	memcpy(in, m, n * n);
	memset(out, 0xEE, n * n);
	int r = -999;
	if (V_TRY()) {
		r = gf_invert_matrix(in, out, n);
		V_END();
	} else {
		snprintf(key, sizeof key, "gf_invert_matrix fault family=%s n=%d idx=%llu", family, n, (unsigned long long)idx);
		v_violation(key, "%s; matrix=%s (the matrix buffers are exactly n*n bytes)", v_fault_desc(), v_hex(m, n * n));
		nfail++;
		g_reset();
		return;
	}
	if (g_check()) {
		snprintf(key, sizeof key, "gf_invert_matrix wrote-outside family=%s n=%d idx=%llu", family, n, (unsigned long long)idx);
		v_violation(key, "%s; matrix=%s", g_last_damage(), v_hex(m, n * n));
		nfail++;
	}
	static uint8_t outc[NM * NM];
	memcpy(outc, out, (size_t)n * n);
	g_reset();
	out = outc;
	int rank = rgf_rank(m, n, n);
	v_eval();
	if ((r == 0) != (rank == n)) {
		snprintf(key, sizeof key, "gf_invert_matrix verdict family=%s n=%d idx=%llu", family, n, (unsigned long long)idx);
		v_violation(key, "returned %d but reference rank is %d of %d; matrix=%s", r, rank, n, v_hex(m, n * n));
		nfail++;
		return;
	}
	if (r == 0) {
		rgf_matmul(m, out, prod, n, n, n);
		for (int i = 0; i < n; i++)
			for (int j = 0; j < n; j++)
				if (prod[i * n + j] != (i == j)) {
					snprintf(key, sizeof key, "gf_invert_matrix product family=%s n=%d idx=%llu", family, n, (unsigned long long)idx);
					v_violation(key, "original x result != identity at (%d,%d); matrix=%s", i, j, v_hex(m, n * n));
					nfail++;
					return;
				}
		v_count("inversions_verified", 1);
	} else
		v_count("singular_rejected", 1);
}

static int next_perm(int *p, int n)
{
	int i = n - 2;
	while (i >= 0 && p[i] > p[i + 1])
		i--;
	if (i < 0)
		return 0;
	int j = n - 1;
	while (p[j] < p[i])
		j--;
	int t = p[i]; p[i] = p[j]; p[j] = t;
	for (int a = i + 1, b = n - 1; a < b; a++, b--) {
		t = p[a]; p[a] = p[b]; p[b] = t;
	}
	return 1;
}

/* V[i][j] = 2^(i*j): parity block of gf_gen_rs_matrix per its documentation */
static uint8_t pow2[256];
static uint8_t Vexp(int i, int j) { return pow2[(i * j) % 255]; }

/* all e x e minors of the parity block with rows < p, cols < k; real inversion + reference rank */
static uint64_t minor_enum(uint8_t (*P)(int, int), int p, int k, int e, const char *gen, uint64_t *unit)
{
	int rows[8], cols[8];
	uint64_t cnt = 0;
	uint8_t mm[64];
	for (int i = 0; i < e; i++)
		rows[i] = i;
	for (;;) {
		if (v_mine((*unit)++)) {
			for (int i = 0; i < e; i++)
				cols[i] = i;
			for (;;) {
				for (int a = 0; a < e; a++)
					for (int b = 0; b < e; b++)
						mm[a * e + b] = P(rows[a], cols[b]);
				static uint8_t in[64], out[64];
				memcpy(in, mm, e * e);
				int r = gf_invert_matrix(in, out, e);
				int rank = rgf_rank(mm, e, e);
				cnt++;
				if (r != 0 || rank != e) {
					char key[256];
					snprintf(key, sizeof key, "%s singular-minor p=%d k=%d e=%d rows=%d,%d,%d,%d cols=%d,%d,%d,%d", gen, p, k, e, rows[0], e > 1 ? rows[1] : -1,
						 e > 2 ? rows[2] : -1, e > 3 ? rows[3] : -1, cols[0], e > 1 ? cols[1] : -1, e > 2 ? cols[2] : -1, e > 3 ? cols[3] : -1);
					v_violation(key, "minor is singular (gf_invert_matrix=%d, reference rank %d): losing these data columns and using these parity rows is unrecoverable", r, rank);
					if (++nfail > 30)
						return cnt;
				}
				int i = e - 1;
				while (i >= 0 && cols[i] == k - e + i)
					i--;
				if (i < 0)
					break;
				cols[i]++;
				for (int j = i + 1; j < e; j++)
					cols[j] = cols[j - 1] + 1;
			}
		}
		int i = e - 1;
		while (i >= 0 && rows[i] == p - e + i)
			i--;
		if (i < 0)
			break;
		rows[i]++;
		for (int j = i + 1; j < e; j++)
			rows[j] = rows[j - 1] + 1;
	}
	v_eval_n(cnt);
	return cnt;
}
static uint8_t Cauchy_k; /* parity block of cauchy for given k: C[i][j] = inv((i+k) ^ j) */
static uint8_t Cexp(int i, int j) { return rgf_inv((uint8_t)((i + Cauchy_k) ^ j)); }

/* every survivor set of (m,k) with generator matrix a: the k x k decode matrix must invert */
static void survivors_all(const uint8_t *a, int m, int k, const char *gen, uint64_t *unit)
{
	int s[32];
	uint8_t b[32 * 32];
	for (int i = 0; i < k; i++)
		s[i] = i;
	for (;;) {
		if (v_mine((*unit)++)) {
			for (int i = 0; i < k; i++)
				memcpy(b + i * k, a + s[i] * k, k);
			static uint8_t in[32 * 32], out[32 * 32];
			memcpy(in, b, k * k);
			int r = gf_invert_matrix(in, out, k);
			v_eval();
			if (r != 0 || rgf_rank(b, k, k) != k) {
				char key[300], set[128] = "";
				for (int i = 0; i < k; i++)
					snprintf(set + strlen(set), sizeof set - strlen(set), "%d,", s[i]);
				snprintf(key, sizeof key, "%s survivor-set-singular m=%d k=%d set=%s", gen, m, k, set);
				v_violation(key, "decode matrix from survivors {%s} is not invertible (gf_invert_matrix=%d)", set, r);
				nfail++;
			}
			v_count("survivor_sets", 1);
		}
		int i = k - 1;
		while (i >= 0 && s[i] == m - k + i)
			i--;
		if (i < 0)
			break;
		s[i]++;
		for (int j = i + 1; j < k; j++)
			s[j] = s[j - 1] + 1;
	}
}

/* end to end: encode, erase every pattern of up to (m-k) blocks, invert, re-encode, compare */
static const uint32_t *E2E_MASKS; /* optional explicit erasure patterns (for m beyond what all-subsets enumeration can take) */
static int E2E_NMASKS;
static void end_to_end(int m, int k, int cauchy, int len, int level, uint64_t *unit)
{
	uint8_t a[32 * 32], b[32 * 32], inv[32 * 32], dec[32 * 32], tbl[32 * 32 * 32];
	uint8_t *blk[32], *rec[32];
	if (cauchy)
		gf_gen_cauchy1_matrix(a, m, k);
	else
		gf_gen_rs_matrix(a, m, k);
	for (int i = 0; i < m; i++) {
		blk[i] = g_alloc(len, G_END);
		if (i < k)
			fill_xorshift(blk[i], len, i * 31 + len + m);
	}
	if (level >= 0)
		cpu_set_level(level);
	void (*tables)(int, int, unsigned char *, unsigned char *) = level >= 0 ? ec_init_tables : ec_init_tables_base;
	void (*encode)(int, int, int, unsigned char *, unsigned char **, unsigned char **) = level >= 0 ? ec_encode_data : ec_encode_data_base;
	tables(k, m - k, a + k * k, tbl);
	encode(len, k, m - k, tbl, blk, blk + k);
	for (int l = 0; l < m - k; l++)
		rec[l] = g_alloc(len, G_END);
	for (uint64_t li = 1; li < (E2E_MASKS ? (uint64_t)E2E_NMASKS + 1 : 1ull << m); li++) {
		uint32_t lost = E2E_MASKS ? E2E_MASKS[li - 1] : (uint32_t)li;
		int nl = __builtin_popcount(lost);
		if (nl > m - k)
			continue;
		if (!v_mine((*unit)++))
			continue;
		/* survivors: first k not lost */
		int sv[32], ns = 0, lostidx[32], nlost = 0;
		for (int i = 0; i < m; i++)
			if (lost >> i & 1)
				lostidx[nlost++] = i;
			else if (ns < k)
				sv[ns++] = i;
		for (int i = 0; i < k; i++)
			memcpy(b + i * k, a + sv[i] * k, k);
		if (gf_invert_matrix(b, inv, k) != 0) {
			char key[200];
			snprintf(key, sizeof key, "end-to-end singular %s m=%d k=%d lost=%x", cauchy ? "cauchy" : "rs", m, k, lost);
			v_violation(key, "decode matrix not invertible");
			nfail++;
			continue;
		}
		/* decode rows: for a lost data block d: row d of inv; for a lost parity block p: a[p] x inv */
		for (int l = 0; l < nlost; l++) {
			int id = lostidx[l];
			if (id < k)
				memcpy(dec + l * k, inv + id * k, k);
			else
				for (int j = 0; j < k; j++) {
					uint8_t s = 0;
					for (int t = 0; t < k; t++)
						s ^= gf_mul(a[id * k + t], inv[t * k + j]);
					dec[l * k + j] = s;
				}
		}
		uint8_t *srcs[32];
		for (int i = 0; i < k; i++)
			srcs[i] = blk[sv[i]];
		for (int l = 0; l < nlost; l++)
			memset(rec[l], 0xEE, len);
		int fault = 0;
		if (V_TRY()) {
			tables(k, nlost, dec, tbl);
			encode(len, k, nlost, tbl, srcs, rec);
			V_END();
		} else
			fault = 1;
		v_eval();
		for (int l = 0; l < nlost; l++)
			if (fault || memcmp(rec[l], blk[lostidx[l]], len)) {
				char key[200];
				snprintf(key, sizeof key, "end-to-end mismatch %s m=%d k=%d len=%d lost=%x level=%d", cauchy ? "cauchy" : "rs", m, k, len, lost, level);
				v_violation(key, "block %d not reproduced%s", lostidx[l], fault ? " (fault)" : "");
				nfail++;
				break;
			}
		v_count("erasure_patterns_recovered", 1);
		/* free the rec slots only: cheap approach is to reset everything at the end of the pattern loop */
	}
	g_reset();
}

int main(int argc, char **argv)
{
	v_init(argc, argv, "C09");
	rgf_init();
	pow2[0] = 1;
	for (int i = 1; i < 256; i++)
		pow2[i] = rgf_mul_slow(pow2[i - 1], 2);
	uint64_t unit = 0;
	uint8_t m[NM * NM];
	/* ---- gf_invert_matrix families ---- */
	if (v_mine(unit++))
		for (int a = 0; a < 256; a++) {
			m[0] = a;
			inv_case(m, 1, "all-1x1", a);
		}
	{
		static const uint8_t sub16[] = { 0, 1, 2, 3, 4, 0x1d, 0x8e, 0xff, 0x80, 0x53, 0xca, 0x47, 0x10, 0xe8, 0x74, 0xb8 };
		if (!v_thorough) {
			for (uint32_t x = 0; x < 65536; x++) {
				if (!v_mine(unit + (x >> 8)))
					continue;
				for (int i = 0; i < 4; i++)
					m[i] = sub16[x >> (4 * i) & 15];
				inv_case(m, 2, "all-2x2-sub16", x);
			}
			unit += 256;
		} else {
			for (uint32_t hi = 0; hi < 65536; hi++) {
				if (!v_mine(unit + hi))
					continue;
				if (v_deadline_hit())
					break;
				m[0] = hi >> 8;
				m[1] = hi & 255;
				for (uint32_t lo = 0; lo < 65536; lo++) {
					m[2] = lo >> 8;
					m[3] = lo & 255;
					/* inline for speed: det = ad ^ bc */
					uint8_t in[4] = { m[0], m[1], m[2], m[3] }, out[4];
					int r = gf_invert_matrix(in, out, 2);
					uint8_t det = rgf_mul(m[0], m[3]) ^ rgf_mul(m[1], m[2]);
					int bad = (r == 0) != (det != 0);
					if (!bad && r == 0) {
						uint8_t p0 = rgf_mul(m[0], out[0]) ^ rgf_mul(m[1], out[2]), p1 = rgf_mul(m[0], out[1]) ^ rgf_mul(m[1], out[3]);
						uint8_t p2 = rgf_mul(m[2], out[0]) ^ rgf_mul(m[3], out[2]), p3 = rgf_mul(m[2], out[1]) ^ rgf_mul(m[3], out[3]);
						bad = p0 != 1 || p1 || p2 || p3 != 1;
					}
					if (bad)
						inv_case(m, 2, "all-2x2-full-field", (uint64_t)hi << 16 | lo);
				}
				v_eval_n(65536);
				v_count("all_2x2_full_field", 65536);
			}
			unit += 65536;
		}
	}
	for (uint32_t x = 0; x < (1u << 18); x++) { /* all 3x3 over {0,1,2,3} */
		if (!v_mine(unit + (x >> 10)))
			continue;
		for (int i = 0; i < 9; i++)
			m[i] = x >> (2 * i) & 3;
		inv_case(m, 3, "all-3x3-over-0123", x);
	}
	unit += 256;
	for (uint32_t x = 0; x < 65536; x++) { /* all 4x4 over {0,1} */
		if (!v_mine(unit + (x >> 8)))
			continue;
		for (int i = 0; i < 16; i++)
			m[i] = x >> i & 1;
		inv_case(m, 4, "all-4x4-over-01", x);
	}
	unit += 256;
	if (v_thorough)
		for (uint32_t x = 0; x < (1u << 25); x++) { /* all 5x5 over {0,1} */
			if (!v_mine(unit + (x >> 15)))
				continue;
			for (int i = 0; i < 25; i++)
				m[i] = x >> i & 1;
			inv_case(m, 5, "all-5x5-over-01", x);
		}
	unit += 1024;
	/* scaled permutation matrices: zero pivots force row swaps */
	for (int n = 1; n <= 6; n++) {
		int p[8];
		for (int i = 0; i < n; i++)
			p[i] = i;
		uint64_t pi = 0;
		do {
			if (v_mine(unit++)) {
				int pw = 1;
				for (int i = 0; i < n; i++)
					pw *= 3;
				static const uint8_t sc[3] = { 1, 2, 0xff };
				for (int s = 0; s < pw; s++) {
					memset(m, 0, n * n);
					int t = s;
					for (int i = 0; i < n; i++) {
						m[i * n + p[i]] = sc[t % 3];
						t /= 3;
					}
					inv_case(m, n, "scaled-permutation", pi * 1000 + s);
					/* plus one dense row added: still invertible or not, oracle decides */
					for (int j = 0; j < n; j++)
						m[(n - 1) * n + j] ^= (uint8_t)(j * 37 + s);
					inv_case(m, n, "permutation+dense-row", pi * 1000 + s);
				}
			}
			pi++;
		} while (next_perm(p, n));
	}
	/* rank-deficient by construction and random-looking full matrices, n <= 32 and 64, 128, 256, 512 */
	for (int n = 2; n <= NM; n = n < 32 ? n + 1 : n * 2) {
		for (int variant = 0; variant < (n > 128 && !v_thorough ? 2 : 8); variant++) {
			if (!v_mine(unit++))
				continue;
			static uint8_t base[NM * NM];
			fill_xorshift(base, n * n, n * 100 + variant);
			inv_case(base, n, "dense-xorshift", variant);
			memcpy(m, base, n * n);
			/* row r = GF combination of two other rows */
			int r = variant % n, r1 = (r + 1) % n, r2 = (r + n / 2 + 1) % n;
			if (r1 != r && r2 != r && r1 != r2) {
				for (int j = 0; j < n; j++)
					m[r * n + j] = rgf_mul(0x53, m[r1 * n + j]) ^ rgf_mul(0xca, m[r2 * n + j]);
				inv_case(m, n, "row-combination", variant);
			}
			memcpy(m, base, n * n);
			for (int i = 0; i < n; i++)
				m[i * n + (variant * 5) % n] = 0;
			inv_case(m, n, "zero-column", variant);
			memcpy(m, base, n * n);
			memcpy(m + ((variant + 1) % n) * n, m + (variant % n) * n, n);
			inv_case(m, n, n > 1 ? "duplicate-row" : "x", variant);
			/* identity perturbations incl. zero diagonal entries needing swaps */
			memset(m, 0, n * n);
			for (int i = 0; i < n; i++)
				m[i * n + i] = 1;
			m[(variant % n) * n + (variant % n)] = 0;
			m[(variant % n) * n + ((variant + 1) % n)] = 2;
			m[((variant + 1) % n) * n + (variant % n)] = 3;
			inv_case(m, n, "identity-perturbation", variant);
		}
	}
	/* ---- wide matrices (every n up to 255 in steps, then 256, 257, 300, 520 with shifts 1, 255, 256, 257, n-1): every cyclic shift as a scaled permutation
	 * (the pivot of step i then sits exactly n - s rows below the diagonal: every search distance 1..n-1 occurs), plus dense and
	 * rank-deficient ones ---- */
	{
		/* n is an int: 256, 257, 300 and 520 are beyond every code matrix (m <= 256) but inside the function's contract */
		static const int wn[] = { 129, 130, 160, 200, 255, 256, 257, 300, 520 };
		static uint8_t wm[NM * NM];
		for (int wi = 0; wi < 9; wi++) {
			int n = wn[wi];
			for (int sft = 1; sft < n; sft += (n > 255 ? (sft == 1 ? 254 : sft < 257 ? 1 : n - 1 - sft > 0 ? n - 1 - sft : 1) : v_thorough || n == 129 || n == 255 ? 1 : 7)) {
				if (!v_mine(unit++))
					continue;
				if (nfail > 20 || v_deadline_hit())
					break;
				memset(wm, 0, (size_t)n * n);
				for (int i = 0; i < n; i++)
					wm[i * n + (i + sft) % n] = (uint8_t)(1 + (i * 29 + sft) % 255);
				inv_case(wm, n, "wide-cyclic-shift", (uint64_t)n * 1000 + sft);
				if (sft % 16 == 1) {
					/* the same with one dense row, and with a duplicated row (singular) */
					for (int j = 0; j < n; j++)
						wm[(n - 1) * n + j] ^= (uint8_t)(j * 37 + sft);
					inv_case(wm, n, "wide-cyclic-shift+dense-row", (uint64_t)n * 1000 + sft);
					memcpy(wm + (size_t)(n / 2) * n, wm + (size_t)(n / 3) * n, n);
					inv_case(wm, n, "wide-duplicate-row", (uint64_t)n * 1000 + sft);
				}
			}
			if (v_mine(unit++)) {
				fill_xorshift(wm, (size_t)n * n, 31337 + n);
				inv_case(wm, n, "wide-dense-xorshift", n);
			}
		}
	}
	/* ---- many erasures: 7, 8, 12, 13 and 19 lost fragments (the high-level encoder finishes row counts beyond one kernel in pieces), lost
	 * data first / lost parity first / alternating, block lengths 64, 100, 300, at every simulated CPU level and the base code ---- */
	{
		static const int mk[3][2] = { { 14, 7 }, { 26, 13 }, { 32, 13 } };
		static const int lens2[] = { 64, 100, 300 };
		for (int ci = 0; ci < 3; ci++)
			for (int lvl = -1; lvl < CPU_NLEVELS; lvl++)
				for (int li = 0; li < 3; li++) {
					int m = mk[ci][0], k = mk[ci][1], r = m - k, nm = 0;
					uint32_t masks[24];
					static const int nls[] = { 7, 8, 12, 13, 19 };
					for (int ni = 0; ni < 5; ni++) {
						int nl = nls[ni];
						if (nl > r)
							continue;
						uint32_t lo = 0, hi = 0, alt = 0;
						for (int i = 0; i < nl; i++) {
							lo |= 1u << i;                 /* the first nl fragments (data first) */
							hi |= 1u << (m - 1 - i);       /* the last nl fragments (parity first) */
						}
						for (int i = 0, c = 0; i < m && c < nl; i += (i + 2 < m && m - i > 2 * (nl - c) ? 2 : 1), c++)
							alt |= 1u << i;
						masks[nm++] = lo; masks[nm++] = hi;
						if (__builtin_popcount(alt) == nl)
							masks[nm++] = alt;
					}
					E2E_MASKS = masks; E2E_NMASKS = nm;
					end_to_end(m, k, 1, lens2[li], lvl, &unit);
					E2E_MASKS = NULL;
				}
	}
	/* ---- generators: identity top block + documented formulas, for every (m,k), m <= 255 (cauchy also m = 256) ---- */
	for (int mm = 1; mm <= 256; mm++) {
		if (!v_mine(unit++))
			continue;
		for (int k = 1; k <= mm; k++) {
			/* the matrix is exactly m*k bytes and ends at an inaccessible page (canaries in front): nothing outside it may be written, also for
			 * the degenerate shapes m == k (no parity row) */
			uint8_t *a = g_alloc((size_t)mm * k, G_END);
			char key[128];
			if (mm <= 255) {
				memset(a, 0xEE, mm * k);
				int gfault = 0;
				if (V_TRY()) {
					gf_gen_rs_matrix(a, mm, k);
					V_END();
				} else
					gfault = 1;
				if (gfault || g_check()) {
					snprintf(key, sizeof key, "gf_gen_rs_matrix writes outside the matrix m=%d k=%d", mm, k);
					v_violation(key, "%s", gfault ? v_fault_desc() : g_last_damage());
					g_reset();
					continue;
				}
				int ok = 1;
				for (int i = 0; i < mm && ok; i++)
					for (int j = 0; j < k && ok; j++) {
						uint8_t e = i < k ? (i == j) : Vexp(i - k, j);
						ok = a[i * k + j] == e;
					}
				v_eval();
				if (!ok) {
					snprintf(key, sizeof key, "gf_gen_rs_matrix formula m=%d k=%d", mm, k);
					v_violation(key, "identity top block or 2^((i-k)*j) formula violated");
				}
			}
			memset(a, 0xEE, mm * k);
			{
				int gfault = 0;
				if (V_TRY()) {
					gf_gen_cauchy1_matrix(a, mm, k);
					V_END();
				} else
					gfault = 1;
				if (gfault || g_check()) {
					snprintf(key, sizeof key, "gf_gen_cauchy1_matrix writes outside the matrix m=%d k=%d", mm, k);
					v_violation(key, "%s", gfault ? v_fault_desc() : g_last_damage());
					g_reset();
					continue;
				}
			}
			int ok = 1;
			for (int i = 0; i < mm && ok; i++)
				for (int j = 0; j < k && ok; j++) {
					uint8_t e = i < k ? (i == j) : rgf_inv((uint8_t)(i ^ j));
					ok = a[i * k + j] == e;
				}
			v_eval();
			if (!ok) {
				snprintf(key, sizeof key, "gf_gen_cauchy1_matrix formula m=%d k=%d", mm, k);
				v_violation(key, "identity top block or 1/(i^j) formula violated");
			}
			g_reset();
		}
		v_nontrivial(v_mix(77, mm));
	}
	/* ---- Cauchy: every survivor set for every (m,k), m <= 16 (20) ---- */
	{
		int mmax = v_thorough ? 20 : 16;
		for (int mm = 2; mm <= mmax; mm++)
			for (int k = 1; k < mm; k++) {
				uint8_t a[32 * 32];
				gf_gen_cauchy1_matrix(a, mm, k);
				survivors_all(a, mm, k, "cauchy", &unit);
				v_nontrivial(v_mix(mm, k));
				if (v_deadline_hit() || nfail > 30)
					goto out;
			}
		/* all 2x2 minors over the whole Cauchy index space (thorough): rows i1<i2, cols j1<j2, all distinct */
		if (v_thorough) {
			for (int i1 = 0; i1 < 256; i1++) {
				if (!v_mine(unit++))
					continue;
				uint64_t c = 0;
				for (int i2 = i1 + 1; i2 < 256; i2++)
					for (int j1 = 0; j1 < 256; j1++) {
						if (j1 == i1 || j1 == i2)
							continue;
						for (int j2 = j1 + 1; j2 < 256; j2++) {
							if (j2 == i1 || j2 == i2)
								continue;
							uint8_t d = gf_mul(gf_inv(i1 ^ j1), gf_inv(i2 ^ j2)) ^ gf_mul(gf_inv(i1 ^ j2), gf_inv(i2 ^ j1));
							c++;
							if (!d) {
								char key[128];
								snprintf(key, sizeof key, "cauchy 2x2 minor singular rows=%d,%d cols=%d,%d", i1, i2, j1, j2);
								v_violation(key, "determinant 0");
							}
						}
					}
				v_eval_n(c);
				v_count("cauchy_2x2_minors", c);
			}
		}
		/* large m: every single, double (and thorough: triple) erasure via minors of the parity block */
		static const int big[][2] = { { 64, 32 }, { 128, 100 }, { 255, 223 }, { 256, 200 } };
		for (int b = 0; b < 4; b++) {
			int mm = big[b][0], k = big[b][1];
			Cauchy_k = k;
			for (int e = 1; e <= (v_thorough && b < 2 ? 3 : 2); e++)
				minor_enum(Cexp, mm - k, k, e, "cauchy", &unit);
			v_nontrivial(v_mix(900 + mm, k));
			if (v_deadline_hit() || nfail > 30)
				goto out;
		}
	}
	/* ---- Vandermonde (gf_gen_rs_matrix): the documented safe table, decided completely by minor enumeration ---- */
	{
		/* regions (p = m-k rows of the parity block, k columns), m = p + k <= 255 */
		static const struct { int p, k; const char *why; } reg[] = {
			{ 252, 3, "k<=3" }, { 253, 2, "k<=3" }, { 254, 1, "k<=3" }, { 21, 4, "k=4,m<=25" }, { 5, 5, "k=5,m<=10" }, { 4, 21, "k<=21,m-k=4" },
			{ 3, 252, "m-k<=3" }, { 2, 253, "m-k<=3" }, { 1, 254, "m-k<=3" } };
		for (unsigned r = 0; r < sizeof reg / sizeof reg[0]; r++) {
			int emax = reg[r].p < reg[r].k ? reg[r].p : reg[r].k;
			for (int e = 1; e <= emax; e++) {
				uint64_t c = minor_enum(Vexp, reg[r].p, reg[r].k, e, "rs", &unit);
				v_count("rs_minors", c);
			}
			v_nontrivial(v_mix(500 + reg[r].p, reg[r].k));
			if (v_deadline_hit() || nfail > 30)
				goto out;
		}
		/* brute-force cross-check of the minor reduction: every survivor set directly, safe (m,k) with m <= 12 (14) */
		int mmax = v_thorough ? 14 : 12;
		for (int mm = 2; mm <= mmax; mm++)
			for (int k = 1; k < mm; k++) {
				int safe = k <= 3 || (k == 4 && mm <= 25) || (k == 5 && mm <= 10) || (k <= 21 && mm - k == 4) || mm - k <= 3;
				if (!safe)
					continue;
				uint8_t a[32 * 32];
				gf_gen_rs_matrix(a, mm, k);
				survivors_all(a, mm, k, "rs", &unit);
			}
	}
	/* ---- end to end through the real encode path ---- */
	{
		static const int lens[] = { 1, 17, 64, 100 };
		int mmax = v_thorough ? 12 : 10;
		for (int mm = 2; mm <= mmax; mm++)
			for (int k = 1; k < mm; k++)
				for (int li = 0; li < 4; li++) {
					if (v_deadline_hit() || nfail > 30)
						goto out;
					end_to_end(mm, k, 1, lens[li], li % 2 ? CPU_AVX512G2 : -1, &unit);
					int safe = k <= 3 || (k == 4 && mm <= 25) || (k == 5 && mm <= 10) || (k <= 21 && mm - k == 4) || mm - k <= 3;
					if (safe && li < 2)
						end_to_end(mm, k, 0, lens[li], li ? CPU_AVX2 : -1, &unit);
				}
	}
out:
	if (v_shard == 0) {
		v_sample("2x2 over sub-alphabet: [[0x8e,2],[1,0x53]] -> gf_invert_matrix ok iff det!=0, product == I");
		v_sample("scaled permutation n=6 (zero pivots, row swaps) + dense row");
		v_sample("cauchy m=16 k=9 survivor set {0,2,3,5,7,9,12,14,15}: decode matrix inverts");
		v_sample("rs safe table region m-k<=3: all 3x3 minors of V[i][j]=2^(i*j), i<3, j<252");
		v_sample("end-to-end cauchy m=10 k=6 len=17 lost={1,4,8,9}: ec_encode_data with inverted rows reproduces the blocks");
		v_note("a survivor set is invertible iff the minor (used parity rows x lost data columns) is; this reduction is cross-checked by brute force for small m");
		v_note("Cauchy survivor sets for large m beyond triple erasures and general n x n matrices beyond the constructed families are not enumerated (theorem territory)");
	}
	return v_finish();
}
