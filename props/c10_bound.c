/* C10 - compression honours the output-space contract and always terminates. */
#include "stream_explore.h"

static uint8_t *IN;
static char in_name[64];
static uint64_t *vc;
static size_t vcap = 1 << 21, vnum;
static int vc_add(uint64_t k)
{
	if (!vc)
		vc = calloc(vcap, 8);
	if (!k)
		k = 1;
	size_t j = (k * 0x9e3779b97f4a7c15ull) >> 20 & (vcap - 1);
	while (vc[j]) {
		if (vc[j] == k)
			return 0;
		j = (j + 1) & (vcap - 1);
	}
	if (vnum * 2 > vcap)
		return 1;
	vc[j] = k;
	vnum++;
	return 1;
}

/* a legal custom table under which the bytes of the test inputs get the longest codes (Huffman coding expands them) */
static struct isal_hufftables *hostile_ht(void)
{
	static struct isal_hufftables ht;
	static int done;
	if (!done) {
		static struct isal_huff_histogram h;
		for (int i = 0; i < 286; i++) h.lit_len_histogram[i] = 1ull << 30;
		for (int i = 0; i < 30; i++) h.dist_histogram[i] = 1ull << 30;
		static const char rare[] = "\0ab etaoinshrdlucmfwyp,.XAB\xff\x01";
		uint64_t a = 1, b = 1;
		for (unsigned i = 0; i < sizeof rare - 1; i++) {
			h.lit_len_histogram[(uint8_t)rare[i]] = a;
			uint64_t t = a + b; a = b; b = t;
		}
		for (int i = 257; i < 286; i++) h.lit_len_histogram[i] = 3; /* lengths expensive too */
		if (isal_create_hufftables(&ht, &h))
			v_broken("hostile table creation failed");
		done = 1;
	}
	return &ht;
}

/* (i) one-shot: every avail_out value */
static void oneshot(uint64_t in_id, int len, int full_sweep)
{
	static const int cpus[] = { CPU_BASE, CPU_AVX2, CPU_AVX512G2 };
	char key[400], why[256];
	for (int ci = 0; ci < 3; ci++) {
		cpu_set_level(cpus[ci]);
		for (int level = 0; level <= 3; level++)
			for (int gz = 0; gz < 5; gz++)
				for (int fh = 0; fh < 8; fh++) {
					/* huff: 0 default tables, 1 static (RFC fixed) tables, 2 a hostile custom table (the bytes the inputs are made of
					 * have 13..15-bit codes, so Huffman coding EXPANDS the data); tables only matter at level 0 */
					/* fh 6,7: the caller leaves end_of_stream at 0 (as isal_deflate_stateless_init sets it): with NO_FLUSH the call still
					 * produces a complete stream (the library treats a one-shot NO_FLUSH call as final); with FULL_FLUSH it produces a
					 * byte-aligned non-final prefix without trailer */
					int flush = (fh & 1) * 2, huff = fh >= 6 ? 0 : fh >> 1, eos = fh < 6;
					if (huff && level)
						continue;
					if (!full_sweep && (gz == 2 || gz == 4))
						continue;
					size_t bound = stateless_bound(len, gz);
					for (size_t ao = 0; ao <= bound + 16; ao++) {
						if (!full_sweep && !(ao + 16 >= bound || ao <= 1 || ao == 8 || ao == bound / 2))
							continue;
						if (nfail > 30 || v_deadline_hit())
							return;
						struct isal_zstream *s = g_alloc(sizeof *s, G_END);
						uint8_t *lb = level ? g_alloc(lvl_min[level], G_END) : NULL;
						uint8_t *in = g_alloc(len, G_END);
						memcpy(in, IN, len);
						g_readonly(in, 1);
						uint8_t *out = g_alloc(ao, G_END); /* exactly avail_out bytes, then an inaccessible page */
						int r = -1000;
						snprintf(key, sizeof key, "stateless level=%d wrapper=%s flush=%s%s tables=%s cpu=%s input=%s avail_out=bound%+ld", level, gz_name[gz], flush_name[flush], eos ? "" : " end_of_stream=0",
							 huff == 0 ? "default" : huff == 1 ? "static" : "hostile-custom", cpu_level_name[cpus[ci]], in_name, (long)ao - (long)bound);
						if (V_TRY()) {
							isal_deflate_stateless_init(s);
							s->level = level; s->level_buf = lb; s->level_buf_size = level ? lvl_min[level] : 0;
							s->gzip_flag = gz; s->flush = flush; s->end_of_stream = eos;
							if (huff == 1)
								isal_deflate_set_hufftables(s, NULL, IGZIP_HUFFTABLE_STATIC);
							else if (huff == 2)
								isal_deflate_set_hufftables(s, hostile_ht(), IGZIP_HUFFTABLE_CUSTOM);
							s->next_in = in; s->avail_in = len; s->next_out = out; s->avail_out = ao;
							r = isal_deflate_stateless(s);
							V_END();
						} else {
							v_violation(key, "fault at %s addr=%p (%s): write/read beyond avail_out=%zu", v_sym(v_fault_rip), (void *)v_fault_addr, v_fault_write ? "write" : "read", ao);
							nfail++;
							g_reset();
							continue;
						}
						v_eval();
						size_t produced = ao - s->avail_out;
						int bad = 0;
						if (r == COMP_OK) {
							if (s->avail_out > ao || s->next_out != out + produced || s->total_out != produced || s->next_in != in + (len - s->avail_in) || s->total_in != (uint32_t)(len - s->avail_in) ||
							    s->avail_in != 0) {
								v_violation(key, "counters inconsistent: produced %zu total_out %u avail_in %u total_in %u", produced, s->total_out, s->avail_in, s->total_in);
								bad = 1;
							} else if (produced > bound) {
								v_violation(key, "produced %zu bytes, more than the documented bound %zu", produced, bound);
								bad = 1;
							} else if (vc_add(v_hash(out, produced, in_id * 16 + gz * 2 + eos))) {
								int prefix = !eos && flush == FULL_FLUSH; /* non-final, byte-aligned, no trailer */
								if (!verify_deflate_output(out, produced, gz, IN, len, prefix, 0, NULL, 0, why, sizeof why)) {
									v_violation(key, "COMP_OK but the stream is not complete/valid (truncated stream reported as success?): %s", why);
									bad = 1;
								}
								v_count("ok_streams_verified", 1);
							}
							if (len)
								v_nontrivial(v_hash(out, produced, in_id));
						} else if (r == STATELESS_OVERFLOW) {
							if (ao >= bound) {
								v_violation(key, "STATELESS_OVERFLOW although avail_out=%zu >= documented bound %zu", ao, bound);
								bad = 1;
							}
							v_count("overflow_reports", 1);
						} else {
							v_violation(key, "unexpected return code %d", r);
							bad = 1;
						}
						if (g_check()) {
							v_violation(key, "%s", g_last_damage());
							bad = 1;
						}
						nfail += bad;
						g_reset();
					}
				}
	}
}

/* (iii) invalid parameters are refused before any output */
static void invalid_params(void)
{
	static const uint32_t bad_levels[] = { 4, 5, 255, 0xffffffffu }, bad_flush[] = { 3, 4, 65535 };
	char key[300];
	uint8_t data[64];
	fill_pattern(data, 64, PAT_TEXT, 1);
	for (int api = 0; api < 2; api++)
		for (int kind = 0; kind < 3; kind++)
			for (int v = 0; v < 12; v++) {
				struct isal_zstream *s = g_alloc(sizeof *s, G_END);
				uint8_t *lb = g_alloc(ISAL_DEF_LVL3_MIN, G_END), *out = g_alloc(256, G_END);
				memset(out, 0x5A, 256);
				int r = -1000;
				int expect_ok = 0;
				if (!V_TRY()) {
					v_violation("invalid-params fault", "fault at %s", v_sym(v_fault_rip));
					g_reset();
					continue;
				}
				if (api == 0)
					isal_deflate_stateless_init(s);
				else
					isal_deflate_init(s);
				s->next_in = data; s->avail_in = 64; s->end_of_stream = 1; s->next_out = out; s->avail_out = 256;
				if (kind == 0) {
					if (v >= 4) { V_END(); g_reset(); break; }
					s->level = bad_levels[v]; s->level_buf = lb; s->level_buf_size = ISAL_DEF_LVL3_MIN;
					snprintf(key, sizeof key, "invalid level=%u api=%s", bad_levels[v], api ? "isal_deflate" : "stateless");
				} else if (kind == 1) {
					if (v >= 3) { V_END(); g_reset(); break; }
					s->flush = bad_flush[v];
					snprintf(key, sizeof key, "invalid flush=%u api=%s", bad_flush[v], api ? "isal_deflate" : "stateless");
				} else {
					if (v >= 9) { V_END(); g_reset(); break; }
					int level = 1 + v / 3, which = v % 3;
					s->level = level;
					s->level_buf = which == 0 ? NULL : lb;
					s->level_buf_size = which == 0 ? lvl_min[level] : which == 1 ? 0 : lvl_min[level] - 1;
					if (api == 0 && level == 1 && which == 0)
						expect_ok = 1; /* documented: stateless level 1 may run without a level buffer */
					snprintf(key, sizeof key, "level=%d level_buf=%s size=%u api=%s", level, which == 0 ? "NULL" : "set", s->level_buf_size, api ? "isal_deflate" : "stateless");
				}
				r = api == 0 ? isal_deflate_stateless(s) : isal_deflate(s);
				V_END();
				v_eval();
				v_nontrivial(v_hash(key, strlen(key), 0));
				if (expect_ok) {
					if (r != COMP_OK)
						v_violation(key, "documented as allowed but returned %d", r);
				} else {
					int clean = 1;
					for (int i = 0; i < 256; i++)
						clean &= out[i] == 0x5A;
					if (r >= 0 || (r != INVALID_FLUSH && r != ISAL_INVALID_LEVEL && r != ISAL_INVALID_LEVEL_BUF && r != INVALID_PARAM))
						v_violation(key, "returned %d instead of a documented error code", r);
					else if (s->total_out != 0 || s->avail_out != 256 || !clean)
						v_violation(key, "error %d but output was produced (total_out %u avail_out %u buffer %s)", r, s->total_out, s->avail_out, clean ? "clean" : "modified");
				}
				g_reset();
			}
}

/* (ii-c) multi-block streams with block-type transitions (dynamic -> stored with pending bits, stored -> dynamic) and EVERY size of
 * the first output buffer (then 4 KiB buffers), plus uniform buffer sizes: several KiB of compressible data followed by
 * incompressible data, minimum level buffer (a block is closed every 1024 tokens). Each output buffer ends at an inaccessible
 * page, counters are checked after every call and the assembled stream must decode to the input. */
static void mixed_streams(void)
{
	static uint8_t *MIN, *MOUT;
	if (!MIN) { MIN = malloc(20000); MOUT = malloc(60000); }
	static const int tlens[] = { 6000, 6100, 6250, 2500 };
	static const int cpus[] = { CPU_BASE, CPU_AVX2, CPU_AVX512G2 };
	char key[300], why[256];
	uint64_t unit = 777000;
	for (int level = 0; level <= 3; level++)
		for (int ti = 0; ti < 4; ti++)
			for (int gz = 0; gz < 2; gz++)
				for (int uniform = 0; uniform < 2; uniform++) {
					int tl = tlens[ti], len = tl + 3000 + 500;
					fill_pattern(MIN, tl, PAT_TEXT, 3);
					fill_xorshift(MIN + tl, 3000, 17 + ti);
					fill_pattern(MIN + tl + 3000, 500, PAT_TEXT, 4);
					int fmax = uniform ? 700 : len + 400;
					for (int f = 1; f <= fmax; f++) {
						if (!v_mine(unit++))
							continue;
						if (nfail > 30 || v_deadline_hit())
							return;
						cpu_set_level(cpus[(level + ti + f) % 3]);
						struct isal_zstream *s = g_alloc(sizeof *s, G_END);
						uint8_t *lb = level ? g_alloc(lvl_min[level], G_END) : NULL;
						uint8_t *in = g_alloc(len, G_END);
						memcpy(in, MIN, len);
						g_readonly(in, 1);
						size_t ol = 0;
						int r = 0, calls = 0, bad = 0;
						snprintf(key, sizeof key, "mixed-stream level=%d wrapper=%s text=%d+incompressible 3000+text 500 %s=%d", level, gz ? "gzip" : "raw", tl, uniform ? "every-output-buffer" : "first-output-buffer", f);
						if (V_TRY()) {
							isal_deflate_init(s);
							s->level = level; s->level_buf = lb; s->level_buf_size = level ? lvl_min[level] : 0;
							s->gzip_flag = gz ? IGZIP_GZIP : IGZIP_DEFLATE;
							s->next_in = in; s->avail_in = len; s->end_of_stream = 1;
							while (s->internal_state.state != ZSTATE_END && calls < 60000) {
								size_t cap = calls == 0 || uniform ? (size_t)f : 4096;
								uint8_t *out = g_alloc(cap, G_END);
								uint32_t ti0 = s->total_in, to0 = s->total_out;
								uint8_t *ni0 = s->next_in;
								s->next_out = out; s->avail_out = cap;
								r = isal_deflate(s);
								calls++;
								size_t p = cap - s->avail_out;
								if (r != COMP_OK || s->avail_out > cap || s->next_out != out + p || s->total_out - to0 != p || s->total_in - ti0 != (uint32_t)(s->next_in - ni0) || ol + p > 60000) {
									bad = 1;
									break;
								}
								memcpy(MOUT + ol, out, p);
								ol += p;
							}
							V_END();
						} else {
							v_violation(key, "%s (call %d)", v_fault_desc(), calls + 1);
							nfail++;
							g_reset();
							continue;
						}
						v_eval();
						if (bad || s->internal_state.state != ZSTATE_END) {
							v_violation(key, "call %d: return %d or counters inconsistent (total_out %u, avail_out %u), state %d", calls, r, s->total_out, s->avail_out, s->internal_state.state);
							nfail++;
						} else if (g_check()) {
							v_violation(key, "%s", g_last_damage());
							nfail++;
						} else if (!verify_deflate_output(MOUT, ol, gz ? IGZIP_GZIP : IGZIP_DEFLATE, MIN, len, 0, 0, NULL, 0, why, sizeof why)) {
							v_violation(key, "%s", why);
							nfail++;
						}
						v_count("mixed_stream_schedules", 1);
						g_reset();
					}
					v_nontrivial(v_mix(0x771 + level, ti * 4 + gz * 2 + uniform));
				}
}

/* huge output buffers: avail_out is a uint32_t and anything up to 2^32-1 is legal (a caller that maps a large file for output hands
 * the whole mapping over). Compression (one-shot and streaming, levels 0-3, 3 wrappers, 3 kernel sets) and decompression of the result
 * (both APIs) with avail_out = 2^31-1, 2^31, 2^31+4096, 2^32-1 must behave exactly as with a small ample buffer: same bytes, exact counters. */
#include <sys/mman.h>
static void huge_avail_out(void)
{
	static const uint64_t aos[] = { (1ull << 31) - 1, 1ull << 31, (1ull << 31) + 4096, (1ull << 32) - 1 };
	static const int cpus[] = { CPU_BASE, CPU_AVX2, CPU_AVX512G2 };
	static const int gzs[] = { IGZIP_DEFLATE, IGZIP_GZIP, IGZIP_ZLIB };
	size_t maplen = (1ull << 32) + (1 << 20);
	uint8_t *map = mmap(NULL, maplen, PROT_READ | PROT_WRITE, MAP_PRIVATE | MAP_ANONYMOUS | MAP_NORESERVE, -1, 0);
	if (map == MAP_FAILED) {
		v_note("huge avail_out part skipped: cannot reserve 4 GiB of address space");
		v_not_exhaustive("huge avail_out part skipped");
		return;
	}
	enum { L = 20000 };
	static uint8_t src[L], ref[2 * L + 600], back[L + 64];
	static uint8_t lb[ISAL_DEF_LVL3_DEFAULT];
	char key[300];
	for (int kind = 0; kind < 2; kind++)
		for (int level = 0; level <= 3; level++)
			for (int gi = 0; gi < 3; gi++)
				for (int ai = 0; ai < 4; ai++)
					for (int api = 0; api < 2; api++) {
						int cpu = cpus[(level + gi + ai + api) % 3];
						cpu_set_level(cpu);
						if (kind) fill_xorshift(src, L, 31); else fill_pattern(src, L, PAT_LOG, 32);
						struct isal_zstream s;
						/* reference: small ample buffer */
						size_t rl = 0;
						for (int pass = 0; pass < 2; pass++) {
							if (api) isal_deflate_init(&s); else isal_deflate_stateless_init(&s);
							s.level = level; s.level_buf = level ? lb : NULL; s.level_buf_size = level ? lvl_default[level] : 0; s.gzip_flag = gzs[gi];
							s.next_in = src; s.avail_in = L; s.end_of_stream = 1;
							s.next_out = pass ? map : ref; s.avail_out = pass ? (uint32_t)aos[ai] : sizeof ref;
							snprintf(key, sizeof key, "huge avail_out=%llu %s level=%d wrapper=%s cpu=%s input=%s:%d", (unsigned long long)aos[ai], api ? "isal_deflate" : "isal_deflate_stateless", level, gz_name[gzs[gi]],
								 cpu_level_name[cpu], kind ? "incompressible" : "log", L);
							int r = -999;
							if (V_TRY()) {
								r = api ? isal_deflate(&s) : isal_deflate_stateless(&s);
								V_END();
							} else {
								v_violation(key, "%s", v_fault_desc());
								nfail++;
								break;
							}
							v_eval();
							if (!pass) {
								if (r != COMP_OK)
									v_broken("reference compression failed");
								rl = s.total_out;
								continue;
							}
							uint32_t expect_left = (uint32_t)aos[ai] - (uint32_t)rl;
							if (r != COMP_OK || s.total_out != rl || s.avail_out != expect_left || s.next_out != map + rl || s.avail_in != 0 || memcmp(map, ref, rl) ||
							    (api && s.internal_state.state != ZSTATE_END)) {
								v_violation(key, "returned %d, total_out %u (small-buffer run: %zu), avail_out %u (expected %u), bytes %s", r, s.total_out, rl, s.avail_out, expect_left,
									    memcmp(map, ref, rl) ? "differ" : "equal");
								nfail++;
							}
							memset(map, 0, rl + 64);
						}
						/* decompress the reference stream into the huge buffer */
						struct inflate_state st;
						isal_inflate_init(&st);
						st.crc_flag = gzs[gi] == IGZIP_GZIP ? ISAL_GZIP : gzs[gi] == IGZIP_ZLIB ? ISAL_ZLIB : ISAL_DEFLATE;
						st.next_in = ref; st.avail_in = (uint32_t)rl; st.next_out = map; st.avail_out = (uint32_t)aos[ai];
						snprintf(key, sizeof key, "huge avail_out=%llu %s wrapper=%s cpu=%s stream=level-%d of %s:%d", (unsigned long long)aos[ai], api ? "isal_inflate" : "isal_inflate_stateless", gz_name[gzs[gi]], cpu_level_name[cpu],
							 level, kind ? "incompressible" : "log", L);
						int r = -999;
						if (V_TRY()) {
							r = api ? isal_inflate(&st) : isal_inflate_stateless(&st);
							V_END();
							v_eval();
							if (r != ISAL_DECOMP_OK || st.block_state != ISAL_BLOCK_FINISH || st.total_out != L || st.avail_out != (uint32_t)aos[ai] - L || st.avail_in != 0 || memcmp(map, src, L)) {
								v_violation(key, "returned %d, state %d, total_out %u (expected %d), avail_out %u, avail_in %u, data %s", r, st.block_state, st.total_out, L, st.avail_out, st.avail_in,
									    memcmp(map, src, L) ? "differs" : "equal");
								nfail++;
							}
						} else {
							v_violation(key, "%s", v_fault_desc());
							nfail++;
						}
						memset(map, 0, L + 64);
						(void)back;
						v_count("huge_avail_out_cases", 1);
						v_nontrivial(v_mix(0x40a0 + level * 8 + gi, kind * 16 + ai * 2 + api));
					}
	munmap(map, maplen);
}

/* very long constant runs through isal_deflate_stateless: an input that BEGINS with >= 4096 equal 00 / ff bytes takes a dedicated writer whose
 * output size grows with the run (about one byte per 1032 input bytes) - at 64 MiB .. 1 GiB (thorough: 4 GiB - 1) of run its space estimate
 * passes 2^16 and 2^22. Input: zero-page-backed mapping (00) or a filled one (ff, up to 128 MiB). Output: an exact-size mapping ending at an
 * inaccessible page, sizes 0 / 16 / 40 / 100 / 4096 / need-1 / need / need+1 / need+24 / need+300 (need = size produced with ample room).
 * A call returns COMP_OK (then: at most avail_out bytes, a stream that decodes to the run, consistent counters) or STATELESS_OVERFLOW
 * (all these sizes are far below the documented bound, so refusing is allowed even when the bytes would fit); the ample-room stream must
 * decode (zlib) to the run; never a byte beyond avail_out. */
#include <zlib.h>
static int run_decodes(const uint8_t *strm, size_t n, int gz, uint8_t fill, uint64_t want, int final, char *why, size_t wl)
{
	static uint8_t *ob;
	if (!ob)
		ob = malloc(1 << 22);
	z_stream z;
	memset(&z, 0, sizeof z);
	inflateInit2(&z, gz == IGZIP_GZIP ? 31 : gz == IGZIP_ZLIB ? 15 : -15);
	z.next_in = (uint8_t *)strm;
	z.avail_in = (uInt)n;
	uint64_t total = 0;
	int zr = Z_OK;
	for (;;) {
		z.next_out = ob;
		z.avail_out = 1 << 22;
		zr = inflate(&z, Z_NO_FLUSH);
		size_t got = (1 << 22) - z.avail_out;
		for (size_t i = 0; i < got; i++)
			if (ob[i] != fill) {
				snprintf(why, wl, "decoded byte %llu is %02x, input is a run of %02x", (unsigned long long)(total + i), ob[i], fill);
				inflateEnd(&z);
				return 0;
			}
		total += got;
		if (zr != Z_OK || (got == 0 && z.avail_in == 0))
			break;
	}
	inflateEnd(&z);
	if (total != want || (final ? zr != Z_STREAM_END : (zr != Z_OK && zr != Z_BUF_ERROR)) || z.avail_in) {
		snprintf(why, wl, "zlib: status %d after %llu of %llu bytes, %u stream bytes unread", zr, (unsigned long long)total, (unsigned long long)want, z.avail_in);
		return 0;
	}
	return 1;
}
static void huge_runs(void)
{
	static const uint64_t LS[] = { 1 << 20, 67633153, 67635217, 1 << 27, (1 << 28) + 5, (1ull << 30) + 77, (1ull << 32) - 1 };
	static const int cpus[] = { CPU_BASE, CPU_AVX2, CPU_AVX512G2 };
	static const int gzs[] = { IGZIP_DEFLATE, IGZIP_GZIP, IGZIP_ZLIB };
	size_t maplen = (1ull << 32) + (1 << 20);
	uint8_t *zero = mmap(NULL, maplen, PROT_READ, MAP_PRIVATE | MAP_ANONYMOUS | MAP_NORESERVE, -1, 0);
	uint8_t *ff = malloc((1 << 27) + 64);
	static uint8_t lb[ISAL_DEF_LVL3_DEFAULT];
	static uint8_t *ample;
	if (zero == MAP_FAILED || !ff) {
		v_not_exhaustive("huge-runs part skipped: cannot reserve the input mappings");
		return;
	}
	memset(ff, 0xff, (1 << 27) + 64);
	if (!ample)
		ample = malloc(8 << 20);
	char key[300], why[200];
	uint64_t unit = 8800000;
	for (int li = 0; li < (v_thorough ? 7 : 6); li++)
		for (int fill = 0; fill < 2; fill++)
			for (int level = 0; level <= 3; level++)
				for (int gi = 0; gi < 3; gi++) {
					uint64_t L = LS[li];
					if (fill && L > (1 << 27))
						continue;
					if (!v_mine(unit++))
						continue;
					if (nfail > 20 || v_deadline_hit())
						goto done;
					int cpu = cpus[(li + level + gi) % 3], fl = (li + level + gi + fill) & 1 ? FULL_FLUSH : NO_FLUSH, eos = fl == NO_FLUSH || (level & 1);
					cpu_set_level(cpu);
					const uint8_t *in = fill ? ff : zero;
					size_t need = 0;
					long aos[11] = { -1, 0, 16, 40, 100, 4096, 0, 0, 0, 0, 0 };
					for (int ai = 0; ai < 11; ai++) {
						if (ai == 6) { aos[6] = (long)need - 1; aos[7] = (long)need; aos[8] = (long)need + 1; aos[9] = (long)need + 24; aos[10] = (long)need + 300; }
						size_t ao = aos[ai] < 0 ? (8 << 20) : (size_t)aos[ai];
						uint8_t *out = aos[ai] < 0 ? ample : g_alloc(ao, G_END);
						struct isal_zstream s;
						isal_deflate_stateless_init(&s);
						s.level = level; s.level_buf = level ? lb : NULL; s.level_buf_size = level ? lvl_default[level] : 0; s.gzip_flag = gzs[gi];
						s.flush = fl; s.end_of_stream = eos;
						s.next_in = (uint8_t *)in; s.avail_in = (uint32_t)L;
						s.next_out = out; s.avail_out = (uint32_t)ao;
						snprintf(key, sizeof key, "isal_deflate_stateless run of %llu x %02x level=%d wrapper=%s flush=%s end_of_stream=%d cpu=%s avail_out=%s%ld", (unsigned long long)L, fill ? 0xff : 0, level, gz_name[gzs[gi]],
							 flush_name[fl], eos, cpu_level_name[cpu], aos[ai] < 0 ? "ample" : ai >= 6 ? "need" : "", aos[ai] < 0 ? 0 : ai >= 6 ? aos[ai] - (long)need : aos[ai]);
						int r = -999;
						if (V_TRY()) {
							r = isal_deflate_stateless(&s);
							V_END();
						} else {
							v_violation(key, "%s", v_fault_desc());
							nfail++;
							g_reset();
							continue;
						}
						v_eval();
						size_t produced = s.next_out - out;
						if (aos[ai] < 0) {
							if (r != COMP_OK || s.avail_in || produced != s.total_out || s.avail_out != (8 << 20) - produced) {
								v_violation(key, "with ample room: return %d, avail_in %u, total_out %u, %zu bytes written", r, s.avail_in, s.total_out, produced);
								nfail++;
								break;
							}
							if (!run_decodes(ample, produced, gzs[gi], fill ? 0xff : 0, L, eos, why, sizeof why)) {
								v_violation(key, "%s", why);
								nfail++;
								break;
							}
							need = produced;
						} else if (r == COMP_OK) {
							if (produced > ao || s.avail_out != ao - produced || s.total_out != produced || s.avail_in) {
								v_violation(key, "COMP_OK with avail_out %zu: total_out %u, avail_out now %u, %zu bytes written, avail_in %u", ao, s.total_out, s.avail_out, produced, s.avail_in);
								nfail++;
							} else if ((produced != need || memcmp(out, ample, need)) && !run_decodes(out, produced, gzs[gi], fill ? 0xff : 0, L, eos, why, sizeof why)) {
								/* (a different stream than with ample room is fine - with little room the call may fall back to the ordinary compressor - if it decodes) */
								v_violation(key, "COMP_OK with %zu bytes, but: %s", produced, why);
								nfail++;
							}
						} else if (r != STATELESS_OVERFLOW) { /* (refusing although the bytes would fit is allowed below the documented bound: the writer reserves slack) */
							v_violation(key, "return %d with avail_out %zu (the stream takes %zu bytes)", r, ao, need);
							nfail++;
						}
						if (g_check()) {
							v_violation(key, "%s", g_last_damage());
							nfail++;
						}
						g_reset();
						v_count("huge_run_calls", 1);
					}
					v_nontrivial(v_mix(0x7a11 + li * 8 + level, fill * 4 + gi));
				}
done:
	munmap(zero, maplen);
	free(ff);
}

int main(int argc, char **argv)
{
	v_init(argc, argv, "C10");
	IN = malloc(210000);
	gs_init();
	fill_xorshift(se_in17, 17, 5);
	if (!v_part || !strcmp(v_part, "oneshot")) {
		uint64_t unit = 0;
		/* TINY(sigma3, 6): every avail_out 0..bound+16 */
		int n3 = v_thorough ? 6 : 4;
		uint64_t c3 = tiny_count(3, n3);
		for (uint64_t i = 0; i < c3; i++) {
			uint64_t id = unit++;
			if (!v_mine(id))
				continue;
			int len = tiny_string(sigma3, 3, n3, i, IN);
			snprintf(in_name, sizeof in_name, "tiny:s3:%s", v_hex(IN, len));
			oneshot(id, len, 1);
		}
		for (int li = 0; li < N_SHAPE_LENS; li++)
			for (int pat = 0; pat < PAT_N; pat++) {
				int len = shape_lens[li];
				if (pat != PAT_ZERO && pat != PAT_XS && pat != PAT_TEXT && pat != PAT_LOG && pat != PAT_P3 && !(v_thorough && pat == PAT_P258))
					continue;
				uint64_t id = unit++;
				if (!v_mine(id))
					continue;
				fill_pattern(IN, len, pat, len + pat);
				snprintf(in_name, sizeof in_name, "shape:%s:%d", pat_name[pat], len);
				oneshot(id, len, len <= (v_thorough ? 600 : 33));
			}
		if (v_thorough)
			for (int li = 0; li < N_BIG_LENS; li++) {
				uint64_t id = unit++;
				if (!v_mine(id))
					continue;
				fill_xorshift(IN, big_lens[li], li);
				snprintf(in_name, sizeof in_name, "big:xorshift:%d", big_lens[li]);
				oneshot(id, big_lens[li], 0);
			}
		/* incompressible lengths around the stored-block size */
		static const int sl[] = { 65534, 65535, 65536, 131070, 131071 };
		for (int i = 0; i < 5; i++) {
			uint64_t id = unit++;
			if (!v_mine(id))
				continue;
			fill_xorshift(IN, sl[i], 900 + i);
			snprintf(in_name, sizeof in_name, "incompressible:%d", sl[i]);
			oneshot(id, sl[i], 0);
		}
	}
	if (!v_part || !strcmp(v_part, "termination")) {
		/* (ii) all sequences of non-empty output chunk sizes with end_of_stream set reach ZSTATE_END */
		static const int din_a[] = { -1 }, dout_a[] = { 1, 2, 7, 8, 9, 15, 16, 17, -1 };
		DA_IN = din_a; NDA_IN = 1; DA_OUT = dout_a; NDA_OUT = 9; DA_NFLUSH = 1; DA_NEOS = 1;
		SE_REQUIRE_PROGRESS = 1;
		g_canary_span = 256;
		static const int cpus[] = { CPU_BASE, CPU_AVX2, CPU_AVX512G2 };
		static uint8_t big[700];
		uint64_t unit = 0;
		for (int ii = 0; ii < 8 + 4; ii++)
			for (int level = 0; level <= 3; level++)
				for (int gz = 0; gz < 3; gz++) {
					if (!v_mine(unit++))
						continue;
					if (nfail > 20 || v_deadline_hit())
						break;
					const uint8_t *p;
					int len;
					const char *nm;
					char nb[32];
					if (ii < 8) {
						p = se_din[ii].p; len = se_din[ii].len; nm = se_din[ii].name;
					} else {
						len = ii < 10 ? 300 : 600;
						fill_pattern(big, len, ii % 2 ? PAT_XS : PAT_ZERO, ii);
						p = big;
						snprintf(nb, sizeof nb, "%s:%d", ii % 2 ? "xs" : "zero", len);
						nm = nb;
					}
					static const int gzs[] = { IGZIP_DEFLATE, IGZIP_GZIP, IGZIP_ZLIB };
					deflate_graph(nm, p, len, level, gzs[gz], cpus[(ii + level + gz) % 3], 0, v_thorough ? 2000000 : 300000);
					if (level == 0 && (gz == 0 || v_thorough)) {
						/* level 0 with the RFC fixed tables and with a table that expands the input */
						char nm2[64];
						snprintf(nm2, sizeof nm2, "%s+static-tables", nm);
						SE_HUFF_TYPE = IGZIP_HUFFTABLE_STATIC; SE_HUFFTABLES = NULL;
						deflate_graph(nm2, p, len, 0, gzs[gz], cpus[(ii + gz) % 3], 0, v_thorough ? 2000000 : 300000);
						snprintf(nm2, sizeof nm2, "%s+hostile-custom-table", nm);
						SE_HUFF_TYPE = IGZIP_HUFFTABLE_CUSTOM; SE_HUFFTABLES = hostile_ht();
						deflate_graph(nm2, p, len, 0, gzs[gz], cpus[(ii + gz + 1) % 3], 0, v_thorough ? 2000000 : 300000);
						SE_HUFF_TYPE = 0; SE_HUFFTABLES = NULL;
					}
				}
	}
	if (!v_part || !strcmp(v_part, "termination")) {
		/* (ii-a) long inputs: a call that ends with the output full (tokens / look-ahead pending inside the codec) followed by a call that
		 * presents only 0 / 1 / 7 / 300 more bytes: termination and exact bookkeeping for every level-buffer size */
		static uint8_t *B;
		static const int cpus[] = { CPU_BASE, CPU_SSE, CPU_AVX2, CPU_AVX512G2 };
		if (!B)
			B = malloc(150000);
		SE_REQUIRE_PROGRESS = 1;
		uint64_t unit = 500;
		for (int kind = 0; kind < 2; kind++)
			for (int level = 0; level <= 3; level++)
				for (int lbi = 0; lbi < 4; lbi++) {
					if (level == 0 && lbi)
						continue;
					if (!v_mine(unit++))
						continue;
					if (nfail > 20 || v_deadline_hit())
						break;
					if (kind) fill_mixed(B, 150000, 23); else fill_pattern(B, 150000, PAT_LOG, 24);
					def_big_then_tiny(B, 150000, kind ? "mixed" : "log", level, (level + lbi) % 2 ? IGZIP_GZIP : IGZIP_DEFLATE, cpus[(level + lbi + kind + 1) % 4], lbi);
				}
		SE_REQUIRE_PROGRESS = 0;
	}
	if (!v_part || !strcmp(v_part, "space")) {
		/* (ii-b) the output-space half of the contract on the streaming API when the input arrives in SEVERAL pieces (end_of_stream
		 * not yet set while headers are written) and output buffers may be empty or end exactly where a header ends: every call
		 * sequence over the alphabets below; each output buffer ends at an inaccessible page and counters are checked per call */
		static const int din_b[] = { 0, 1, 8, -1 }, dout_b[] = { 0, 1, 2, 5, 10, -1 };
		DA_IN = din_b; NDA_IN = 4; DA_OUT = dout_b; NDA_OUT = 6; DA_NFLUSH = 3; DA_NEOS = 2;
		SE_REQUIRE_PROGRESS = 0;
		g_canary_span = 256;
		static const int cpus[] = { CPU_BASE, CPU_AVX2, CPU_AVX512G2 };
		static const int gzs[] = { IGZIP_DEFLATE, IGZIP_GZIP, IGZIP_ZLIB, IGZIP_GZIP_NO_HDR, IGZIP_ZLIB_NO_HDR };
		uint64_t unit = 1000;
		for (int ii = 1; ii < 7; ii += (v_thorough ? 1 : 2))
			for (int level = 0; level <= 3; level++)
				for (int gz = 0; gz < (v_thorough ? 5 : 3); gz++) {
					if (!v_mine(unit++))
						continue;
					if (nfail > 20 || v_deadline_hit())
						break;
					deflate_graph(se_din[ii].name, se_din[ii].p, se_din[ii].len, level, gzs[gz], cpus[(ii + level + gz) % 3], 1, v_thorough ? 1500000 : 150000);
				}
	}
	if (!v_part || !strcmp(v_part, "mixed"))
		mixed_streams();
	if ((!v_part || !strcmp(v_part, "params")) && v_shard == 0)
		invalid_params();
	if ((!v_part || !strcmp(v_part, "params")) && v_shard == 1 % v_nshards)
		huge_avail_out();
	if (!v_part || !strcmp(v_part, "params"))
		huge_runs();
	if (v_shard == 0) {
		v_sample("stateless level=2 wrapper=gzip input=shape:xs:300 avail_out=bound-1 -> STATELESS_OVERFLOW; avail_out=bound -> COMP_OK, <= bound bytes, decodes to the input; output page after avail_out is PROT_NONE");
		v_sample("termination graph input=abc*6 level=3 wrapper=zlib: all sequences of output chunk sizes from {1,2,7,8,9,15,16,17,rest} with end_of_stream set reach ZSTATE_END");
		v_sample("level=2 level_buf=NULL api=isal_deflate -> ISAL_INVALID_LEVEL_BUF, total_out unchanged, output untouched");
		v_note("bound = len + 5*max(1,ceil(len/65535)) + wrapper header/trailer (gzip 18, gzip_no_hdr 8, zlib 6, zlib_no_hdr 4), as documented in igzip_lib.h");
		v_note("below the bound either COMP_OK with a COMPLETE stream (verified by the reference decoder) or STATELESS_OVERFLOW is accepted; counters after an overflow report are unspecified and not checked");
	}
	return v_finish();
}
