/* C16 - the dispatcher only selects code the CPU/OS can execute; fallback; pairing; agreement.
 * Explicit enumeration of every dependency-closed CPUID/XCR0 assignment against the REAL resolver
 * code (cpuid/xgetbv answered by engine/simcpu.asm). See DESIGN.md section 3 C16. */
#include "verif.h"
#include "isareq.h"
#include "battery.h"

enum { F_SSE3, F_SSSE3, F_SSE41, F_SSE42, F_PCLMUL, F_POPCNT, F_AVX, F_AVX2, F_BMI1, F_BMI2, F_LZCNT, F_AVX512F, F_AVX512VL,
       F_AVX512BW, F_AVX512DQ, F_AVX512CD, F_VBMI2, F_GFNI, F_VAES, F_VPCLMUL, F_VNNI, F_BITALG, F_VPOPCNT, F_AESNI, F_TZCNT_SOFT, F_MOVBE, F_FMA };

/* the 25 examined inputs */
struct cfg { uint32_t ecx1, eax1, ebx7, ecx7, xcr0; };
static const uint32_t ecx1_bits[6] = { C1_SSE3, C1_PCLMUL, C1_SSE41, C1_SSE42, C1_OSXSAVE, C1_AVX };
static const uint32_t ebx7_bits[6] = { C7B_AVX2, C7B_AVX512F, C7B_AVX512DQ, C7B_AVX512CD, C7B_AVX512BW, C7B_AVX512VL };
static const uint32_t ecx7_bits[7] = { C7C_VBMI2, C7C_GFNI, C7C_VAES, C7C_VPCLMUL, C7C_VNNI, C7C_BITALG, C7C_VPOPCNT };
static const uint32_t xcr0_bits[5] = { B(1), B(2), B(5), B(6), B(7) };

static void cfg_from_index(uint32_t idx, struct cfg *c)
{
	memset(c, 0, sizeof *c);
	for (int i = 0; i < 6; i++)
		if (idx >> i & 1)
			c->ecx1 |= ecx1_bits[i];
	c->eax1 = (idx >> 6 & 1) ? 0x000406D8 : 0x000806F8;
	for (int i = 0; i < 6; i++)
		if (idx >> (7 + i) & 1)
			c->ebx7 |= ebx7_bits[i];
	for (int i = 0; i < 7; i++)
		if (idx >> (13 + i) & 1)
			c->ecx7 |= ecx7_bits[i];
	for (int i = 0; i < 5; i++)
		if (idx >> (20 + i) & 1)
			c->xcr0 |= xcr0_bits[i];
}
#define IMP(a, b) (!(a) || (b))
/* SDM detection-rule closure (DESIGN 3 C16). */
static int closed(const struct cfg *c)
{
	uint32_t e = c->ecx1, b = c->ebx7, g = c->ecx7, x = c->xcr0;
	int avoton = (c->eax1 & 0xfffffff0) == 0x000406D0;
	if (!IMP(e & C1_SSE42, e & C1_SSE41)) return 0;
	if (!IMP(e & C1_SSE41, e & C1_SSE3)) return 0;
	if (!IMP(e & C1_AVX, e & C1_SSE42)) return 0;
	if (!IMP(b & C7B_AVX2, e & C1_AVX)) return 0;
	if (!IMP(b & C7B_AVX512F, b & C7B_AVX2)) return 0;
	if (!IMP(b & (C7B_AVX512DQ | C7B_AVX512CD | C7B_AVX512BW | C7B_AVX512VL), b & C7B_AVX512F)) return 0;
	if (!IMP(g & (C7C_VBMI2 | C7C_VNNI | C7C_BITALG | C7C_VPOPCNT), b & C7B_AVX512F)) return 0;
	if (!IMP(x & (B(5) | B(6) | B(7)), (x & B(2)) && (b & C7B_AVX512F))) return 0;
	if (!IMP(x & B(2), (x & B(1)) && (e & C1_AVX))) return 0;
	if (!IMP(x, e & C1_OSXSAVE)) return 0;
	/* the family/model signature is NOT tied to feature bits: hypervisors mask features under any signature (an earlier version
	 * only admitted the Avoton signature with Avoton's real feature set and so never took the model-specific branch with a
	 * feature missing) */
	(void)avoton;
	return 1;
}
/* narrower closure: configurations of parts that actually shipped (severity label only) */
static int shipped(const struct cfg *c)
{
	uint32_t e = c->ecx1, b = c->ebx7, g = c->ecx7, x = c->xcr0;
	uint32_t g1 = C7B_AVX512F | C7B_AVX512DQ | C7B_AVX512CD | C7B_AVX512BW | C7B_AVX512VL;
	if (!IMP(e & C1_PCLMUL, e & C1_SSE41)) return 0;
	if (!IMP(g & (C7C_VBMI2 | C7C_VNNI | C7C_BITALG | C7C_VPOPCNT), (b & g1) == g1)) return 0;
	uint32_t z = x & (B(5) | B(6) | B(7));
	if (z && z != (B(5) | B(6) | B(7))) return 0;
	return 1;
}
/* features available (executable) under an assignment */
static uint32_t avail(const struct cfg *c)
{
	uint32_t e = c->ecx1, b = c->ebx7, g = c->ecx7, x = c->xcr0, a = 0;
	int avx_ok = (e & C1_AVX) && (e & C1_OSXSAVE) && (x & 6) == 6;
	int z_ok = avx_ok && (b & C7B_AVX512F) && (x & 0xe0) == 0xe0;
	if (e & C1_SSE3) a |= B(F_SSE3) | B(F_SSSE3);        /* SSSE3 unexamined: assumed co-generational with SSE3 */
	if (e & C1_SSE41) a |= B(F_SSE41);
	if (e & C1_SSE42) a |= B(F_SSE42) | B(F_POPCNT);     /* POPCNT unexamined: with SSE4.2 */
	if (e & C1_PCLMUL) a |= B(F_PCLMUL) | B(F_AESNI);
	if (avx_ok) a |= B(F_AVX);
	if (avx_ok && (b & C7B_AVX2)) a |= B(F_AVX2) | B(F_BMI1) | B(F_BMI2) | B(F_LZCNT) | B(F_MOVBE) | B(F_FMA); /* unexamined: with AVX2 */
	if (z_ok) {
		a |= B(F_AVX512F);
		if (b & C7B_AVX512VL) a |= B(F_AVX512VL);
		if (b & C7B_AVX512BW) a |= B(F_AVX512BW);
		if (b & C7B_AVX512DQ) a |= B(F_AVX512DQ);
		if (b & C7B_AVX512CD) a |= B(F_AVX512CD);
		if (g & C7C_VBMI2) a |= B(F_VBMI2);
		if (g & C7C_VNNI) a |= B(F_VNNI);
		if (g & C7C_BITALG) a |= B(F_BITALG);
		if (g & C7C_VPOPCNT) a |= B(F_VPOPCNT);
	}
	if (g & C7C_GFNI) a |= B(F_GFNI);                    /* encoding-specific state is carried by the AVX / AVX512F requirement bits */
	if ((g & C7C_VAES) && avx_ok) a |= B(F_VAES);
	if ((g & C7C_VPCLMUL) && avx_ok) a |= B(F_VPCLMUL);
	a |= B(F_TZCNT_SOFT);
	return a;
}

static void load_cfg(const struct cfg *c)
{
	memset(&verif_simcpu, 0, sizeof verif_simcpu);
	verif_simcpu.maxleaf = 7;
	verif_simcpu.eax1 = c->eax1;
	verif_simcpu.ecx1 = c->ecx1 | C1_SSSE3 * !!(c->ecx1 & C1_SSE3) | C1_POPCNT * !!(c->ecx1 & C1_SSE42);
	verif_simcpu.edx1 = B(25) | B(26);
	verif_simcpu.ebx7 = c->ebx7 | ((c->ebx7 & C7B_AVX2) ? C7B_BMI1 | C7B_BMI2 : 0);
	verif_simcpu.ecx7 = c->ecx7;
	verif_simcpu.xcr0_lo = c->xcr0 | ((c->ecx1 & C1_OSXSAVE) ? 1 : 0);
}

static const char *cfg_str(const struct cfg *c)
{
	static char s[4][400];
	static int si;
	char *o = s[si++ & 3];
	snprintf(o, 400, "cpuid1.ecx={%s%s%s%s%s%s} sig=%s cpuid7.ebx={%s%s%s%s%s%s} cpuid7.ecx={%s%s%s%s%s%s%s} xcr0={%s%s%s%s%s}",
		 c->ecx1 & C1_SSE3 ? "SSE3 " : "", c->ecx1 & C1_PCLMUL ? "PCLMUL " : "", c->ecx1 & C1_SSE41 ? "SSE4.1 " : "",
		 c->ecx1 & C1_SSE42 ? "SSE4.2 " : "", c->ecx1 & C1_OSXSAVE ? "OSXSAVE " : "", c->ecx1 & C1_AVX ? "AVX " : "",
		 (c->eax1 & 0xfffffff0) == 0x000406D0 ? "avoton" : "other", c->ebx7 & C7B_AVX2 ? "AVX2 " : "", c->ebx7 & C7B_AVX512F ? "F " : "",
		 c->ebx7 & C7B_AVX512DQ ? "DQ " : "", c->ebx7 & C7B_AVX512CD ? "CD " : "", c->ebx7 & C7B_AVX512BW ? "BW " : "",
		 c->ebx7 & C7B_AVX512VL ? "VL " : "", c->ecx7 & C7C_VBMI2 ? "VBMI2 " : "", c->ecx7 & C7C_GFNI ? "GFNI " : "",
		 c->ecx7 & C7C_VAES ? "VAES " : "", c->ecx7 & C7C_VPCLMUL ? "VPCLMULQDQ " : "", c->ecx7 & C7C_VNNI ? "VNNI " : "",
		 c->ecx7 & C7C_BITALG ? "BITALG " : "", c->ecx7 & C7C_VPOPCNT ? "VPOPCNTDQ " : "", c->xcr0 & B(1) ? "SSE " : "",
		 c->xcr0 & B(2) ? "AVX " : "", c->xcr0 & B(5) ? "opmask " : "", c->xcr0 & B(6) ? "ZMM_Hi256 " : "", c->xcr0 & B(7) ? "Hi16_ZMM " : "");
	return o;
}
static const char *feat_str(uint32_t m)
{
	static char s[4][256];
	static int si;
	char *o = s[si++ & 3];
	o[0] = 0;
	for (int i = 0; isa_feat_name[i]; i++)
		if (m >> i & 1) {
			if (o[0])
				strcat(o, "+");
			strcat(o, isa_feat_name[i]);
		}
	return o;
}

/* address -> requirement record */
struct symreq { void *addr; struct isa_req *r; };
static struct symreq *symreqs;
static int nsymreqs;
extern uintptr_t v_sym_addr(const char *name);
static struct isa_req *req_of(void *addr)
{
	for (int i = 0; i < nsymreqs; i++)
		if (symreqs[i].addr == addr)
			return symreqs[i].r;
	return NULL;
}

/* violation classes: (slot, selected symbol, missing mask) with minimal witness */
struct vclass { int slot; void *sel; uint32_t missing; int kind; struct cfg wit; int witbits; long count, count_shipped; };
static struct vclass vc[512];
static int nvc;
static void add_vclass(int slot, void *sel, uint32_t missing, int kind, const struct cfg *c)
{
	int bits = __builtin_popcount(c->ecx1) + __builtin_popcount(c->ebx7) + __builtin_popcount(c->ecx7) + __builtin_popcount(c->xcr0);
	for (int i = 0; i < nvc; i++)
		if (vc[i].slot == slot && vc[i].sel == sel && vc[i].kind == kind && (kind != 5 || vc[i].missing == missing)) {
			vc[i].count++;
			if (kind != 5)
				vc[i].missing |= missing;
			vc[i].count_shipped += shipped(c);
			if (bits < vc[i].witbits) {
				vc[i].wit = *c;
				vc[i].witbits = bits;
			}
			return;
		}
	if (nvc >= 512)
		return;
	vc[nvc] = (struct vclass){ slot, sel, missing, kind, *c, bits, 1, shipped(c) };
	nvc++;
}

/* distinct resolution vectors */
#define MAXVEC 4096
static struct { uint64_t h; struct cfg wit; int witbits; long count; int exec_ok; } vecs[MAXVEC];
static int nvecs;

static int slot_index(const char *name)
{
	for (int i = 0; i < verif_nslots; i++)
		if (!strcmp(verif_slots[i].name, name))
			return i;
	return -1;
}

int main(int argc, char **argv)
{
	v_init(argc, argv, "C16");
	char key[512];
	/* symbol -> requirement table */
	int n = 0;
	while (isa_reqs[n].name)
		n++;
	symreqs = calloc(n, sizeof *symreqs);
	for (int i = 0; i < n; i++) {
		uintptr_t a = v_sym_addr(isa_reqs[i].name);
		if (a) {
			symreqs[nsymreqs].addr = (void *)a;
			symreqs[nsymreqs].r = &isa_reqs[i];
			nsymreqs++;
		}
	}
	/* ---- binding check: simulated host == real host, for all resolvers ---- */
	void *real_sel[128], *sim_sel[128];
	memset(&verif_simcpu, 0, sizeof verif_simcpu);
	verif_simcpu.passthrough = 1;
	cpu_reset_slots();
	cpu_resolve_all();
	for (int i = 0; i < verif_nslots; i++)
		real_sel[i] = *verif_slots[i].slot;
	cpu_set_level(CPU_HOST);
	cpu_resolve_all();
	for (int i = 0; i < verif_nslots; i++) {
		sim_sel[i] = *verif_slots[i].slot;
		if (sim_sel[i] != real_sel[i])
			v_broken("binding check: %s resolves to %s with real cpuid but %s under the simulated host", verif_slots[i].name,
				 v_sym((uintptr_t)real_sel[i]), v_sym((uintptr_t)sim_sel[i]));
	}
	v_count("binding_check_resolvers", verif_nslots);
	/* static precondition (also used by C15): slot alignment */
	for (int i = 0; i < verif_nslots; i++)
		if ((uintptr_t)verif_slots[i].slot & 7) {
			snprintf(key, sizeof key, "slot=%s misaligned", verif_slots[i].name);
			v_violation(key, "dispatch slot at %p is not 8-byte aligned", (void *)verif_slots[i].slot);
		}

	int s_tables = slot_index("ec_init_tables"), s_enc = slot_index("ec_encode_data"), s_upd = slot_index("ec_encode_data_update");
	long nstates = 0, ntrans = 0;
	for (uint32_t idx = 0; idx < (1u << 25); idx++) {
		struct cfg c;
		cfg_from_index(idx, &c);
		if (!closed(&c))
			continue;
		nstates++;
		uint32_t av = avail(&c);
		load_cfg(&c);
		for (int i = 0; i < verif_nslots; i++)
			*verif_slots[i].slot = verif_slots[i].mbinit;
		uint64_t vh = 0;
		int exec_ok = 1;
		int no_simd = !(c.ecx1 & (C1_SSE41 | C1_SSE42 | C1_AVX));
		for (int i = 0; i < verif_nslots; i++) {
			verif_simcpu.nxgetbv = 0;
			verif_slots[i].dispatch_init();
			ntrans++;
			void *sel = *verif_slots[i].slot;
			vh = v_mix(vh, (uint64_t)(uintptr_t)sel);
			if (verif_simcpu.nxgetbv & 0x80000000u)
				add_vclass(i, sel, 0, 3, &c); /* xgetbv executed with OSXSAVE=0: #UD on hardware */
			struct isa_req *r = req_of(sel);
			if (!r) {
				add_vclass(i, sel, 0, 4, &c); /* slot holds an address that is no known function */
				exec_ok = 0;
				continue;
			}
			uint32_t missing = r->req & ~av;
			if (missing) {
				add_vclass(i, sel, missing, 1, &c);
				exec_ok = 0;
			}
			if (no_simd && (r->is_asm || r->req & ~B(F_TZCNT_SOFT)))
				add_vclass(i, sel, 0, 2, &c); /* fallback must be portable C */
		}
		/* pairing */
		{
			int gt = strstr(v_sym((uintptr_t)*verif_slots[s_tables].slot), "gfni") != NULL;
			int ge = strstr(v_sym((uintptr_t)*verif_slots[s_enc].slot), "gfni") != NULL;
			int gu = strstr(v_sym((uintptr_t)*verif_slots[s_upd].slot), "gfni") != NULL;
			if (gt != ge || gt != gu)
				add_vclass(s_tables, *verif_slots[s_enc].slot, (uint32_t)(gt | ge << 1 | gu << 2), 5, &c);
		}
		/* distinct vectors */
		int bits = __builtin_popcount(c.ecx1) + __builtin_popcount(c.ebx7) + __builtin_popcount(c.ecx7) + __builtin_popcount(c.xcr0);
		int j;
		for (j = 0; j < nvecs; j++)
			if (vecs[j].h == vh)
				break;
		if (j == nvecs) {
			if (nvecs >= MAXVEC)
				v_broken("more than %d distinct resolution vectors", MAXVEC);
			vecs[nvecs].h = vh;
			vecs[nvecs].wit = c;
			vecs[nvecs].witbits = bits;
			vecs[nvecs].count = 0;
			vecs[nvecs].exec_ok = exec_ok;
			nvecs++;
		} else if (bits > vecs[j].witbits && exec_ok) {
			/* prefer the richest witness so that the materialised run is as close to hardware as possible */
		}
		vecs[j].count++;
	}
	if (v_shard == 0) {
		v_count("states", nstates);
		v_count("transitions", ntrans);
		v_count("traces_validated_against_impl", ntrans); /* every transition IS an execution of the real resolver */
		v_count("distinct_resolution_vectors", nvecs);
		v_eval_n(ntrans);
		for (int i = 0; i < nvecs; i++)
			v_outcome(vecs[i].h);
	}
	/* report classes (shard 0 only; every shard computed the same) */
	static const char *kindname[] = { "", "not-executable", "fallback-not-portable", "xgetbv-without-osxsave", "unknown-target", "gfni-pairing" };
	int tz_slots = 0;
	if (v_shard == 0) {
		for (int i = 0; i < nvc; i++) {
			struct vclass *v = &vc[i];
			const char *sel = v_sym((uintptr_t)v->sel);
			char selc[128];
			snprintf(selc, sizeof selc, "%s", sel);
			char *plus = strrchr(selc, '+');
			if (plus && !strcmp(plus, "+0x0"))
				*plus = 0;
			if (v->kind == 5)
				snprintf(key, sizeof key, "%s tables_gfni=%d encode_gfni=%d update_gfni=%d", kindname[v->kind], v->missing & 1, v->missing >> 1 & 1, v->missing >> 2 & 1);
			else
				snprintf(key, sizeof key, "%s slot=%s selects=%s", kindname[v->kind], verif_slots[v->slot].name, selc);
			v_violation(key, "%ld of %ld dependency-closed configurations (%ld of them also in the shipped-hardware closure)\n"
				    "minimal witness: %s\nselected %s requires {%s}; features missing in some violating configuration: {%s}", v->count, nstates,
				    v->count_shipped, cfg_str(&v->wit), selc, req_of(v->sel) ? feat_str(req_of(v->sel)->req) : "?", feat_str(v->missing));
		}
		for (int i = 0; i < 3 && i < nvecs; i++)
			v_sample("config %s -> vector hash %016llx (%ld configs map to it)", cfg_str(&vecs[i].wit), (unsigned long long)vecs[i].h, vecs[i].count);
		/* record the soft/assumed items */
		/* tzcnt: on a CPU without BMI1 the encoding executes as bsf, which differs for a zero operand (and in the flags). An assembly
		 * function that does not require AVX2 can be selected on such CPUs (BMI1 arrived together with AVX2), so every tzcnt in it must
		 * have been reviewed: the list below pins, per function, the number of tzcnt instructions whose operands were checked to be
		 * non-zero at that point. A new or additional tzcnt in a pre-AVX2 variant is a violation until it is reviewed. */
		static const struct { const char *fn; int n; } tz_reviewed[] = { { "isal_update_histogram_01", 2 } };
		for (int i = 0; isa_reqs[i].name; i++)
			if (isa_reqs[i].tzcnt && isa_reqs[i].is_asm) {
				tz_slots++;
				if (isa_reqs[i].req & (B(F_AVX2) | B(F_AVX512F)))
					continue; /* AVX2 and AVX-512 parts all have BMI1 (closure note above) */
				int ok = 0;
				for (unsigned t = 0; t < sizeof tz_reviewed / sizeof tz_reviewed[0]; t++)
					ok |= !strcmp(tz_reviewed[t].fn, isa_reqs[i].name) && tz_reviewed[t].n == isa_reqs[i].tzcnt;
				if (!ok) {
					char key[200];
					snprintf(key, sizeof key, "tzcnt-without-bmi1 function=%s", isa_reqs[i].name);
					v_violation(key, "%s uses tzcnt %d time(s) but does not require AVX2, so the dispatcher can select it on CPUs without BMI1, where tzcnt executes as bsf "
						    "(different result for a zero operand); not in the reviewed list", isa_reqs[i].name, isa_reqs[i].tzcnt);
				}
			}
		v_count("asm_functions_using_tzcnt_not_decided", tz_slots);
		v_note("unexamined features fixed to their co-generational value: SSSE3 with SSE3, POPCNT with SSE4.2, BMI1/BMI2/LZCNT/MOVBE/FMA with AVX2");
		v_note("tzcnt in pre-BMI1 variants executes as bsf on a CPU without BMI1 (differs only for a zero operand); host has BMI1, so its run-time effect is not decided here: instead every tzcnt in a variant selectable without AVX2 must be in the reviewed list (function, count)");
		v_note("closure = SDM detection rules on the feature bits, family/model signature free (90 752 expected); XCR0[7:5] enumerated independently (superset of what XSETBV accepts)");
	}
	/* ---- invariant 4: agreement. every distinct vector is materialised and the data-plane battery is run under it ---- */
	for (int j = 0; j < nvecs; j++) {
		if (!v_mine(j))
			continue;
		if (v_deadline_hit())
			break;
		load_cfg(&vecs[j].wit);
		cpu_reset_slots();
		char ctx[600];
		snprintf(ctx, sizeof ctx, "vector %016llx witness %s", (unsigned long long)vecs[j].h, cfg_str(&vecs[j].wit));
		int nb = battery_run(ctx, v_thorough ? 2 : 1);
		v_count("agreement_battery_cases", nb);
		v_count("vectors_materialised", 1);
		v_nontrivial(vecs[j].h);
	}
	return v_finish();
}
