/* Shared tables for the erasure-code kernel sweeps (C03 dot-product/encode, C13 mad/update). */
#ifndef EC_COMMON_H
#define EC_COMMON_H
#include "verif.h"
#include "ref_gf.h"
#include "erasure_code.h"

extern void ec_init_tables_gfni(int k, int rows, unsigned char *a, unsigned char *g_tbls);
extern void ec_init_tables_base(int k, int rows, unsigned char *a, unsigned char *g_tbls);

enum ekind { K_DP1, K_DPN, K_ENC, K_MAD1, K_MADN, K_UPD };
struct ecimpl {
	const char *name;
	int kind;
	int width;   /* outputs per call for fixed-width kernels, 0 for high-level (rows argument) */
	int gfni;    /* expects 8-byte GFNI tables */
	int minlen;  /* documented / wrapper-guaranteed minimum length */
	void *fn;
	int level;   /* -1 direct symbol, else dispatched under this CPU level */
};
typedef void (*dp1_fn)(int, int, unsigned char *, unsigned char **, unsigned char *);
typedef void (*dpn_fn)(int, int, unsigned char *, unsigned char **, unsigned char **);
typedef void (*enc_fn)(int, int, int, unsigned char *, unsigned char **, unsigned char **);
typedef void (*mad1_fn)(int, int, int, unsigned char *, unsigned char *, unsigned char *);
typedef void (*madn_fn)(int, int, int, unsigned char *, unsigned char *, unsigned char **);
typedef void (*upd_fn)(int, int, int, int, unsigned char *, unsigned char *, unsigned char **);

#define X(n) extern void n(void);
#define ISAS5(m, n) m(n##_avx512) m(n##_avx512_gfni) /* sse/avx/avx2 are declared by erasure_code.h */
ISAS5(X, gf_vect_dot_prod) ISAS5(X, gf_2vect_dot_prod) ISAS5(X, gf_3vect_dot_prod) ISAS5(X, gf_4vect_dot_prod) ISAS5(X, gf_5vect_dot_prod) ISAS5(X, gf_6vect_dot_prod)
X(gf_vect_dot_prod_avx2_gfni) X(gf_2vect_dot_prod_avx2_gfni) X(gf_3vect_dot_prod_avx2_gfni)
ISAS5(X, gf_vect_mad) ISAS5(X, gf_2vect_mad) ISAS5(X, gf_3vect_mad) ISAS5(X, gf_4vect_mad) ISAS5(X, gf_5vect_mad) ISAS5(X, gf_6vect_mad)
X(gf_vect_mad_avx2_gfni) X(gf_2vect_mad_avx2_gfni) X(gf_3vect_mad_avx2_gfni) X(gf_4vect_mad_avx2_gfni) X(gf_5vect_mad_avx2_gfni)
X(ec_encode_data_avx512) X(ec_encode_data_avx512_gfni) X(ec_encode_data_avx2_gfni)
X(ec_encode_data_update_avx512) X(ec_encode_data_update_avx512_gfni) X(ec_encode_data_update_avx2_gfni)
#undef X

#define E(n, kind, w, g, ml) { #n, kind, w, g, ml, (void *)n, -1 },
#define FIVE(base, kind, w) E(base##_sse, kind, w, 0, 16) E(base##_avx, kind, w, 0, 16) E(base##_avx2, kind, w, 0, 32) E(base##_avx512, kind, w, 0, 64) E(base##_avx512_gfni, kind, w, 1, 0)

static struct ecimpl dp_impls[] = {
	E(gf_vect_dot_prod_base, K_DP1, 1, 0, 0)
	FIVE(gf_vect_dot_prod, K_DP1, 1) FIVE(gf_2vect_dot_prod, K_DPN, 2) FIVE(gf_3vect_dot_prod, K_DPN, 3)
	FIVE(gf_4vect_dot_prod, K_DPN, 4) FIVE(gf_5vect_dot_prod, K_DPN, 5) FIVE(gf_6vect_dot_prod, K_DPN, 6)
	E(gf_vect_dot_prod_avx2_gfni, K_DP1, 1, 1, 0) E(gf_2vect_dot_prod_avx2_gfni, K_DPN, 2, 1, 0) E(gf_3vect_dot_prod_avx2_gfni, K_DPN, 3, 1, 0)
	E(ec_encode_data_base, K_ENC, 0, 0, 0) E(ec_encode_data_sse, K_ENC, 0, 0, 0) E(ec_encode_data_avx, K_ENC, 0, 0, 0) E(ec_encode_data_avx2, K_ENC, 0, 0, 0)
	E(ec_encode_data_avx512, K_ENC, 0, 0, 0) E(ec_encode_data_avx2_gfni, K_ENC, 0, 1, 0) E(ec_encode_data_avx512_gfni, K_ENC, 0, 1, 0)
	{ 0 } };
static struct ecimpl mad_impls[] = {
	E(gf_vect_mad_base, K_MAD1, 1, 0, 0)
	FIVE(gf_vect_mad, K_MAD1, 1) FIVE(gf_2vect_mad, K_MADN, 2) FIVE(gf_3vect_mad, K_MADN, 3)
	FIVE(gf_4vect_mad, K_MADN, 4) FIVE(gf_5vect_mad, K_MADN, 5) FIVE(gf_6vect_mad, K_MADN, 6)
	E(gf_vect_mad_avx2_gfni, K_MAD1, 1, 1, 0) E(gf_2vect_mad_avx2_gfni, K_MADN, 2, 1, 0) E(gf_3vect_mad_avx2_gfni, K_MADN, 3, 1, 0)
	E(gf_4vect_mad_avx2_gfni, K_MADN, 4, 1, 0) E(gf_5vect_mad_avx2_gfni, K_MADN, 5, 1, 0)
	E(ec_encode_data_update_base, K_UPD, 0, 0, 0) E(ec_encode_data_update_sse, K_UPD, 0, 0, 0) E(ec_encode_data_update_avx, K_UPD, 0, 0, 0)
	E(ec_encode_data_update_avx2, K_UPD, 0, 0, 0) E(ec_encode_data_update_avx512, K_UPD, 0, 0, 0)
	E(ec_encode_data_update_avx2_gfni, K_UPD, 0, 1, 0) E(ec_encode_data_update_avx512_gfni, K_UPD, 0, 1, 0)
	{ 0 } };
#undef E
#undef FIVE

/* build tables in the format the implementation consumes */
static void ec_tables(const struct ecimpl *im, int k, int rows, uint8_t *a, uint8_t *tbl)
{
	if (im->level >= 0 && (im->kind == K_ENC || im->kind == K_UPD))
		ec_init_tables(k, rows, a, tbl); /* dispatched builder pairs with dispatched encode/update only */
	else if (im->gfni)
		ec_init_tables_gfni(k, rows, a, tbl);
	else
		ec_init_tables_base(k, rows, a, tbl);
}
static size_t ec_tbl_size(int k, int rows) { return (size_t)32 * k * rows; }

/* coefficient matrices that cycle through all 256 values, including 0 and 1 */
static int EC_K = 1; /* number of columns, for the special matrices below */
static const char *ec_special_name[] = { "all-zero", "all-one", "identity-pattern", "all-two", "one-value-per-row", "only-last-column" };
/* salt >= 1000: special coefficient matrices (kind = salt - 1000) with EC_K columns; else a dense formula */
static void ec_coeffs(uint8_t *a, int n, int salt)
{
	for (int i = 0; i < n; i++) {
		int r = i / EC_K, c = i % EC_K;
		switch (salt >= 1000 ? salt - 1000 : -1) {
		case 0: a[i] = 0; break;
		case 1: a[i] = 1; break;
		case 2: a[i] = c == r % EC_K; break;
		case 3: a[i] = 2; break;
		case 4: a[i] = (uint8_t)(0x1d * (r + 1)); break;
		case 5: a[i] = c == EC_K - 1 ? 0x53 : 0; break;
		default: a[i] = (uint8_t)(i * 7 + salt * 31 + (i >> 5));
		}
	}
}
#endif
