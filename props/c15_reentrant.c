/* C15 - results depend only on arguments: reentrant, thread-safe, deterministic.
 *  (a) WRITEMON: after implementation selection the library never writes its own globals
 *  (b) SCHED: all interleavings (preemption-bounded) of concurrent first calls
 *  (c) PREFILL: outputs do not depend on prior contents of context / level buffer / output buffer
 *  (d) REUSE: a reset or re-initialised context behaves exactly like a fresh one */
#define _GNU_SOURCE
#include <sched.h>
#include "vsched.h"
#include "battery.h"
#include "codec_common.h"
#include "faultstreams.h"

extern volatile long sch_toy_counter;
extern void sch_toy_racy(void), sch_toy_atomic(void);
static long nfail;
static uint8_t zeros64[64];

/* ======================= (b) SCHED ======================= */
#define NT_MAX 3
static uint64_t T_res[NT_MAX], T_expect;
static int T_entry;
static int T_mixed; /* thread 1 runs entry T_entry2 */
static int T_entry2;
static uint64_t T_expect2;
static uint8_t *TB[NT_MAX][8];

struct entry { const char *name; const char *slots[12]; };
static struct entry entries[] = {
	{ "crc16_t10dif", { "crc16_t10dif" } }, { "crc16_t10dif_copy", { "crc16_t10dif_copy" } }, { "crc32_ieee", { "crc32_ieee" } }, { "crc32_gzip_refl", { "crc32_gzip_refl" } },
	{ "crc32_iscsi", { "crc32_iscsi" } }, { "crc64_ecma_refl", { "crc64_ecma_refl" } }, { "crc64_ecma_norm", { "crc64_ecma_norm" } }, { "crc64_iso_refl", { "crc64_iso_refl" } },
	{ "crc64_iso_norm", { "crc64_iso_norm" } }, { "crc64_jones_refl", { "crc64_jones_refl" } }, { "crc64_jones_norm", { "crc64_jones_norm" } },
	{ "crc64_rocksoft_refl", { "crc64_rocksoft_refl" } }, { "crc64_rocksoft_norm", { "crc64_rocksoft_norm" } }, { "isal_adler32", { "isal_adler32" } },
	{ "isal_zero_detect", { "isal_zero_detect" } }, { "xor_gen", { "xor_gen" } }, { "pq_gen", { "pq_gen" } }, { "xor_check", { "xor_check" } }, { "pq_check", { "pq_check" } },
	{ "ec_init_tables", { "ec_init_tables" } }, { "ec_encode_data", { "ec_encode_data" } }, { "ec_encode_data_update", { "ec_encode_data_update" } },
	{ "gf_vect_dot_prod", { "gf_vect_dot_prod" } }, { "gf_vect_mad", { "gf_vect_mad" } }, { "gf_vect_mul", { "gf_vect_mul" } }, { "isal_update_histogram", { "isal_update_histogram" } },
	/* multi-slot cold starts */
	{ "isal_deflate_stateless(level0)", { "isal_deflate_body", "isal_deflate_finish", "isal_deflate_hash_lvl0", "crc32_gzip_refl" } },
	{ "isal_deflate_stateless(level3)", { "isal_deflate_icf_body_lvl3", "isal_deflate_icf_finish_lvl3", "isal_deflate_hash_lvl3", "encode_deflate_icf", "gen_icf_map_lh1", "set_long_icf_fg", "crc32_gzip_refl" } },
	{ "isal_inflate_stateless", { "decode_huffman_code_block_stateless", "crc32_gzip_refl" } },
	{ "ec_init_tables+ec_encode_data", { "ec_init_tables", "ec_encode_data" } },
};
#define N_SINGLE 26
#define N_ENTRIES (int)(sizeof entries / sizeof entries[0])
static uint8_t gz_small[64];
static size_t gz_small_len;

static uint64_t run_entry(int e, int tid)
{
	uint8_t *b = TB[tid][0], *b2 = TB[tid][1];
	void *arr[5] = { TB[tid][2], TB[tid][3], TB[tid][4], TB[tid][5], TB[tid][6] };
	uint8_t *src[3] = { TB[tid][2], TB[tid][3], TB[tid][4] }, *dst[2] = { TB[tid][5], TB[tid][6] };
	uint8_t coef[6] = { 1, 2, 3, 0x1d, 0x80, 0xff };
	uint8_t *tbl = TB[tid][7];
	switch (e) {
	case 0: return crc16_t10dif(0x1234, b, 64);
	case 1: return crc16_t10dif_copy(0x1234, b2, b, 64);
	case 2: return crc32_ieee(0x12345678, b, 64);
	case 3: return crc32_gzip_refl(0x12345678, b, 64);
	case 4: return crc32_iscsi(b, 64, 0x12345678);
	case 5: return crc64_ecma_refl(7, b, 64);
	case 6: return crc64_ecma_norm(7, b, 64);
	case 7: return crc64_iso_refl(7, b, 64);
	case 8: return crc64_iso_norm(7, b, 64);
	case 9: return crc64_jones_refl(7, b, 64);
	case 10: return crc64_jones_norm(7, b, 64);
	case 11: return crc64_rocksoft_refl(7, b, 64);
	case 12: return crc64_rocksoft_norm(7, b, 64);
	case 13: return isal_adler32(1, b, 64);
	case 14: return (uint64_t)isal_zero_detect(zeros64, 64) + 2 * (uint64_t)(isal_zero_detect(b, 64) != 0);
	case 15: { int r = xor_gen(4, 64, arr); return v_hash(arr[3], 64, r); }
	case 16: { int r = pq_gen(5, 64, arr); return v_hash(arr[3], 64, r) ^ v_hash(arr[4], 64, 3); }
	case 17: return (uint64_t)xor_check(4, 64, arr);
	case 18: return (uint64_t)pq_check(5, 64, arr);
	case 19: ec_init_tables(3, 2, coef, tbl); return v_hash(tbl, 3 * 2 * 8, 0); /* first 48 bytes are defined in both table formats */
	case 20: ec_encode_data(64, 3, 2, tbl, src, dst); return v_hash(dst[0], 64, 1) ^ v_hash(dst[1], 64, 2);
	case 21: ec_encode_data_update(64, 3, 2, 1, tbl, src[1], dst); return v_hash(dst[0], 64, 1) ^ v_hash(dst[1], 64, 2);
	case 22: gf_vect_dot_prod(64, 3, tbl, src, dst[0]); return v_hash(dst[0], 64, 1);
	case 23: gf_vect_mad(64, 3, 1, tbl, src[1], dst[0]); return v_hash(dst[0], 64, 1);
	case 24: { int r = gf_vect_mul(64, tbl, src[0], dst[0]); return v_hash(dst[0], 64, r); }
	case 25: {
		static __thread struct isal_huff_histogram h;
		memset(&h, 0, sizeof h);
		isal_update_histogram(b, 64, &h);
		return v_hash(h.lit_len_histogram, sizeof h.lit_len_histogram, 0) ^ v_hash(h.dist_histogram, sizeof h.dist_histogram, 1);
	}
	case 26: case 27: {
		static __thread struct isal_zstream s;
		static __thread uint8_t lb[ISAL_DEF_LVL3_MIN], out[256];
		isal_deflate_stateless_init(&s);
		s.level = e == 26 ? 0 : 3; s.level_buf = e == 26 ? NULL : lb; s.level_buf_size = e == 26 ? 0 : sizeof lb;
		s.gzip_flag = IGZIP_GZIP;
		s.next_in = b; s.avail_in = 40; s.end_of_stream = 1; s.next_out = out; s.avail_out = sizeof out;
		int r = isal_deflate_stateless(&s);
		return v_hash(out, s.total_out, r);
	}
	case 28: {
		static __thread struct inflate_state st;
		static __thread uint8_t out[128];
		isal_inflate_init(&st);
		st.crc_flag = ISAL_GZIP;
		st.next_in = gz_small; st.avail_in = gz_small_len; st.next_out = out; st.avail_out = sizeof out;
		int r = isal_inflate_stateless(&st);
		return v_hash(out, st.total_out, r);
	}
	case 29: ec_init_tables(3, 2, coef, tbl); ec_encode_data(64, 3, 2, tbl, src, dst); return v_hash(dst[0], 64, 1) ^ v_hash(dst[1], 64, 2);
	}
	return 0;
}
static void prep_buffers(int e)
{
	(void)e;
	extern void ec_init_tables_base(int, int, unsigned char *, unsigned char *);
	uint8_t coef[6] = { 1, 2, 3, 0x1d, 0x80, 0xff };
	for (int t = 0; t < NT_MAX; t++) {
		for (int i = 0; i < 8; i++) {
			if (!TB[t][i])
				TB[t][i] = aligned_alloc(64, 4096);
			fill_xorshift(TB[t][i], 256, 40 + i); /* identical arguments in every thread */
		}
		/* consistent parity (P = xor, Q) and 32-byte tables prepared with the portable C routines: no dispatch slot is touched */
		void *arr[5] = { TB[t][2], TB[t][3], TB[t][4], TB[t][5], TB[t][6] };
		pq_gen_base(5, 64, arr);
		ec_init_tables_base(3, 2, coef, TB[t][7]);
	}
}
static void body(int tid)
{
	int e = (T_mixed && tid == 1) ? T_entry2 : T_entry;
	T_res[tid] = run_entry(e, tid);
}
static void reset_slots(void)
{
	for (int i = 0; i < verif_nslots; i++)
		*verif_slots[i].slot = verif_slots[i].mbinit;
	for (int t = 0; t < NT_MAX; t++)
		T_res[t] = 0xdeadbeefdeadbeefull;
	prep_buffers(T_entry);
	sch_toy_counter = 0;
}
static void *final_slots[64];
static char sch_ctx[200];
static int check_exec(void)
{
	char key[400];
	v_outcome(v_hash((void *)T_res, sizeof(uint64_t) * SCH.nthreads, SCH.failed));
	if (SCH.failed) {
		snprintf(key, sizeof key, "cold-start %s", sch_ctx);
		v_violation(key, "%s; schedule %s; accesses: %s", SCH.failmsg, sch_schedule_str(), sch_trace_str());
		nfail++;
		return 1;
	}
	for (int t = 0; t < SCH.nthreads; t++) {
		uint64_t want = (T_mixed && t == 1) ? T_expect2 : T_expect;
		if (T_res[t] != want) {
			snprintf(key, sizeof key, "cold-start %s", sch_ctx);
			v_violation(key, "thread %d returned %llx, serial execution returns %llx; schedule %s; accesses: %s", t, (unsigned long long)T_res[t], (unsigned long long)want,
				    sch_schedule_str(), sch_trace_str());
			nfail++;
			return 1;
		}
	}
	for (int i = 0; i < verif_nslots; i++)
		if (final_slots[i] && *verif_slots[i].slot != final_slots[i] && *verif_slots[i].slot != verif_slots[i].mbinit) {
			snprintf(key, sizeof key, "cold-start %s", sch_ctx);
			v_violation(key, "slot %s ends as %s, serial selection is %s; schedule %s", verif_slots[i].name, v_sym((uintptr_t)*verif_slots[i].slot), v_sym((uintptr_t)final_slots[i]),
				    sch_schedule_str());
			nfail++;
			return 1;
		}
	return 0;
}
static void serial_reference(int e, uint64_t *expect)
{
	reset_slots();
	T_entry = e;
	prep_buffers(e);
	*expect = run_entry(e, 0);
	for (int i = 0; i < verif_nslots; i++)
		final_slots[i] = *verif_slots[i].slot == verif_slots[i].mbinit ? NULL : *verif_slots[i].slot;
}
static void explore_entry(int e, int e2, int nthreads, int bound, uint64_t max_exec, const char *cpuname)
{
	T_entry = e;
	T_mixed = e2 >= 0;
	T_entry2 = e2;
	memset(final_slots, 0, sizeof final_slots);
	if (T_mixed) {
		serial_reference(e2, &T_expect2);
		void *keep[64];
		memcpy(keep, final_slots, sizeof keep);
		serial_reference(e, &T_expect);
		for (int i = 0; i < 64; i++)
			if (!final_slots[i])
				final_slots[i] = keep[i];
		T_entry = e;
	} else
		serial_reference(e, &T_expect);
	snprintf(sch_ctx, sizeof sch_ctx, "%s%s%s threads=%d cpu=%s preemption-bound=%d", entries[e].name, T_mixed ? " || " : "", T_mixed ? entries[e2].name : "", nthreads, cpuname, bound);
	SCH.nthreads = nthreads;
	SCH.body = body;
	struct sch_stats st;
	int rc;
	do {
		memset(&st, 0, sizeof st);
		SCH.newW = 0;
		rc = sch_explore_rec(NULL, 0, bound, reset_slots, check_exec, &st, max_exec);
		if (rc == 2)
			v_count("restarts_for_new_written_granule", 1);
	} while (rc == 2);
	v_count("states", st.points);      /* scheduling points visited */
	v_count("transitions", st.points); /* each point = one thread step executed on the real code */
	v_count("schedules", st.executions);
	v_count("intercepted_accesses", SCH.nfaults);
	SCH.nfaults = 0;
	v_count("traces_validated_against_impl", st.executions);
	v_max("max_points_per_schedule", st.max_points);
	v_eval_n(st.executions);
	if (rc == 3) {
		v_count("explorations_capped", 1);
		v_not_exhaustive("a cold-start exploration hit its schedule cap");
	}
	v_nontrivial(v_hash(sch_ctx, strlen(sch_ctx), 0));
	/* every written granule must be a dispatch slot (or the toy): the only shared state the library may have */
	for (int i = 0; i < SCH.nW; i++) {
		int ok = SCH.W[i] == ((uintptr_t)&sch_toy_counter & ~7ul);
		for (int s = 0; s < verif_nslots; s++)
			ok |= SCH.W[i] == (uintptr_t)verif_slots[s].slot;
		if (!ok) {
			char key[300];
			snprintf(key, sizeof key, "library global written during a call: %s", v_sym(SCH.W[i]));
			v_violation(key, "%s writes %s, which is not a dispatch slot", sch_ctx, v_sym(SCH.W[i]));
			nfail++;
		}
	}
}
static uint64_t toy_seen;
static void toy_body(int tid) { (void)tid; if (T_entry) sch_toy_atomic(); else sch_toy_racy(); }
static void toy_reset(void) { sch_toy_counter = 0; }
static int toy_check(void) { toy_seen |= 1ull << sch_toy_counter; return 0; }

static void sched_part(void)
{
	wm_range(&SCH.lo, &SCH.hi);
	{
		/* exactly one thread runs at any time: pin the whole process to one CPU so that mprotect needs no cross-CPU TLB shootdown
		 * and every hand-off is a same-CPU context switch */
		cpu_set_t cs;
		CPU_ZERO(&cs);
		long ncpu = sysconf(_SC_NPROCESSORS_ONLN);
		CPU_SET(v_shard % (ncpu > 0 ? ncpu : 1), &cs);
		sched_setaffinity(0, sizeof cs, &cs);
	}
	sch_install();
	/* --- self-test: the scheduler must find the lost update in the racy toy and none in the atomic toy --- */
	struct sch_stats st;
	for (int atomic = 0; atomic < 2; atomic++) {
		memset(&st, 0, sizeof st);
		SCH.nthreads = 2; SCH.body = toy_body; T_entry = atomic; toy_seen = 0; SCH.nW = 0;
		int rc;
		do { SCH.newW = 0; rc = sch_explore_rec(NULL, 0, -1, toy_reset, toy_check, &st, 0); } while (rc == 2);
		if (!atomic && !(toy_seen & 2))
			v_broken("scheduler self-test: the lost-update interleaving of the racy toy was not found (outcomes %llx over %llu schedules)", (unsigned long long)toy_seen, (unsigned long long)st.executions);
		if (atomic && toy_seen != 4)
			v_broken("scheduler self-test: atomic toy produced outcomes %llx", (unsigned long long)toy_seen);
		if (v_shard == 0)
			v_count(atomic ? "selftest_atomic_schedules" : "selftest_racy_schedules", st.executions);
	}
	SCH.nW = 0;
	/* small gzip stream for the inflate body */
	{
		struct isal_zstream s;
		static const uint8_t msg[] = "hello hello hello hello";
		cpu_set_level(CPU_BASE);
		isal_deflate_stateless_init(&s);
		s.gzip_flag = IGZIP_GZIP;
		s.next_in = (uint8_t *)msg; s.avail_in = sizeof msg - 1; s.end_of_stream = 1; s.next_out = gz_small; s.avail_out = sizeof gz_small;
		isal_deflate_stateless(&s);
		gz_small_len = s.total_out;
	}
	static const int cpus[] = { CPU_HOST, CPU_BASE, CPU_AVX2, CPU_AVX512G2, CPU_SSE };
	uint64_t unit = 0;
	for (int ci = 0; ci < (v_thorough ? 5 : 3); ci++)
		for (int e = 0; e < N_ENTRIES; e++)
			for (int nt = 2; nt <= 3; nt++) {
				if (!v_thorough && nt == 3 && ci > 0 && e < N_SINGLE)
					continue; /* quick: 3-thread closure under the real CPUID only */
				if (!v_mine(unit++))
					continue;
				if (nfail > 10 || v_deadline_hit())
					goto out;
				if (cpus[ci] == CPU_HOST) {
					memset(&verif_simcpu, 0, sizeof verif_simcpu);
					verif_simcpu.passthrough = 1; /* true cpuid/xgetbv */
				} else
					cpu_set_level(cpus[ci]);
				SCH.nW = 0;
				const char *cn = cpus[ci] == CPU_HOST ? "real-cpuid" : cpu_level_name[cpus[ci]];
				if (e < N_SINGLE)
					explore_entry(e, -1, nt, -1, 200000, cn); /* single slot: ALL interleavings */
				else if (nt == 2)
					explore_entry(e, -1, 2, v_thorough ? 3 : 2, v_thorough ? 60000 : 8000, cn);
				else if (v_thorough)
					explore_entry(e, -1, 3, 2, 60000, cn);
			}
	/* mixed pairs: different entries whose slots are neighbours */
	static const int pairs[][2] = { { 2, 3 }, { 0, 1 }, { 5, 6 }, { 15, 16 }, { 20, 21 }, { 19, 20 }, { 13, 14 } };
	for (unsigned p = 0; p < sizeof pairs / sizeof pairs[0]; p++) {
		if (!v_mine(unit++))
			continue;
		cpu_set_level(CPU_AVX2);
		SCH.nW = 0;
		explore_entry(pairs[p][0], pairs[p][1], 2, -1, 100000, "avx2");
	}
out:
	sch_uninstall();
}

/* ======================= (a) WRITEMON ======================= */
static void extra_workload(const char *ctx)
{
	/* entry points the battery does not reach: table builders, dictionaries, headers, matrix routines, flush modes */
	static uint8_t in[5000], out[12000], lb[ISAL_DEF_LVL3_DEFAULT], back[5000];
	static struct isal_huff_histogram h;
	static struct isal_hufftables ht;
	static struct isal_dict dict;
	fill_pattern(in, sizeof in, PAT_TEXT, 1);
	char key[300];
	snprintf(key, sizeof key, "write-monitor extra workload %s", ctx);
	if (!V_TRY()) {
		v_violation(key, "%s", v_fault_desc());
		nfail++;
		return;
	}
	memset(&h, 0, sizeof h);
	isal_update_histogram(in, 3000, &h);
	isal_create_hufftables(&ht, &h);
	isal_create_hufftables_subset(&ht, &h);
	for (int level = 0; level <= 3; level++)
		for (int flush = 0; flush < 3; flush++) {
			struct isal_zstream s;
			isal_deflate_init(&s);
			s.level = level; s.level_buf = level ? lb : NULL; s.level_buf_size = level ? sizeof lb : 0;
			s.gzip_flag = level % 2 ? IGZIP_ZLIB : IGZIP_GZIP;
			if (level == 0)
				isal_deflate_set_hufftables(&s, &ht, flush == 1 ? IGZIP_HUFFTABLE_STATIC : IGZIP_HUFFTABLE_CUSTOM);
			isal_deflate_set_dict(&s, in + 100, 300);
			isal_deflate_process_dict(&s, &dict, in + 50, 400);
			isal_deflate_reset_dict(&s, &dict);
			size_t ip = 0;
			s.next_out = out; s.avail_out = sizeof out;
			while (s.internal_state.state != ZSTATE_END) {
				s.next_in = in + ip; s.avail_in = ip + 700 > sizeof in ? sizeof in - ip : 700;
				ip += s.avail_in;
				s.end_of_stream = ip >= sizeof in;
				s.flush = flush;
				isal_deflate(&s);
			}
			struct inflate_state st;
			isal_inflate_init(&st);
			st.crc_flag = level % 2 ? ISAL_ZLIB : ISAL_GZIP;
			isal_inflate_set_dict(&st, in + 50, 400);
			st.next_in = out; st.avail_in = s.total_out; st.next_out = back; st.avail_out = sizeof back;
			isal_inflate(&st);
		}
	{
		struct isal_zstream s;
		struct isal_gzip_header gh;
		struct isal_zlib_header zh;
		isal_deflate_init(&s);
		isal_gzip_header_init(&gh);
		isal_zlib_header_init(&zh);
		gh.name = (char *)"n"; gh.name_buf_len = 2; gh.hcrc = 1;
		s.next_out = out; s.avail_out = sizeof out;
		isal_write_gzip_header(&s, &gh);
		isal_write_zlib_header(&s, &zh);
		struct inflate_state st;
		char nb[8];
		isal_inflate_init(&st);
		isal_gzip_header_init(&gh);
		gh.name = nb; gh.name_buf_len = sizeof nb;
		st.next_in = out; st.avail_in = s.total_out;
		isal_read_gzip_header(&st, &gh);
	}
	{
		uint8_t a[20 * 10], inv[100], b[100];
		gf_gen_rs_matrix(a, 20, 10);
		gf_gen_cauchy1_matrix(a, 20, 10);
		memcpy(b, a + 50, 100);
		gf_invert_matrix(b, inv, 10);
		gf_mul(3, 7);
		gf_inv(9);
	}
	V_END();
}
static void writemon_part(void)
{
	for (int lvl = 0; lvl < CPU_NLEVELS; lvl++) {
		if (!v_mine(lvl))
			continue;
		char ctx[200];
		snprintf(ctx, sizeof ctx, "WRITEMON armed, cpu=%s", cpu_level_name[lvl]);
		cpu_set_level(lvl);
		cpu_resolve_all();       /* implementation selection = the only permitted write */
		/* no warm-up: the monitor is armed before the first data-plane call of this process, so state that is built lazily on first
		 * use (and would make results depend on what ran before) is a write fault too */
		wm_arm();
		int n = battery_run(ctx, 2);
		extra_workload(ctx);
		wm_disarm();
		v_count("monitored_battery_cases", n);
		v_eval_n(n);
		v_nontrivial(v_mix(0xa, lvl));
		if (v_shard == 0 && lvl == 0) {
			uintptr_t lo, hi;
			wm_range(&lo, &hi);
			v_sample("WRITEMON: library-owned writable memory = isal_data/isal_bss %lu bytes, read-only right after implementation selection at cpu=%s; %d battery cases + extra workload without a write fault", (unsigned long)(hi - lo),
				 cpu_level_name[lvl], n);
		}
	}
}

/* ======================= (c) PREFILL ======================= */
static void prefill(void *p, size_t n, int pat, const void *prev)
{
	uint8_t *b = p;
	switch (pat) {
	case 0: memset(b, 0x00, n); break;
	case 1: memset(b, 0xff, n); break;
	case 2: memset(b, 0xa5, n); break;
	case 3: for (size_t i = 0; i < n; i++) b[i] = (uint8_t)(((uintptr_t)(b + i) * 2654435761u) >> 13); break;
	default: if (prev) memcpy(b, prev, n); else memset(b, 0x3c, n);
	}
}

/* (c2) inflate: the decoder's verdict and output must not depend on what the inflate_state object held before
 * isal_inflate_init / isal_inflate_reset, nor on the stream decoded before a reset. Inputs: valid streams and the
 * stale-decode-table fault streams (incomplete code sets that use an undefined codeword), both APIs, 3 kernels.
 * Pre-fills: 00, ff, a5, address hash, a repeating 16-bit pattern, and "the state left by decoding a valid sibling stream". */
static void inflate_prefill_part(void)
{
	static const int cpus[] = { CPU_BASE, CPU_SSE, CPU_AVX2 };
	static struct inflate_state *st, *keep;
	static uint8_t sbuf[4000], vbuf[4000], out[8][4096];
	if (!st) { st = malloc(sizeof *st); keep = malloc(sizeof *keep); }
	char desc[260], vdesc[260], key[400];
	uint64_t unit = 88000;
	for (int which = 0; which < 2; which++)
		for (int shape = 0; shape < 2; shape++)
			for (int ni = 0; ni < (which ? 6 : 7); ni++)
				for (int rem = 0; rem < 3; rem++)
					for (int only2 = 0; only2 < 2; only2++) {
						if (!v_mine(unit++))
							continue;
						if (nfail > 20 || v_deadline_hit())
							return;
						size_t n = fs_build(which, shape, ni, rem, only2, sbuf, sizeof sbuf, desc, sizeof desc);
						if (!n)
							continue;
						/* valid sibling: the two-block stream of another removed-symbol choice decodes block 1 completely: use the prefix
						 * property of the family - the same parameters with the FULL code set are what block 1 declares; a simple valid
						 * stream that leaves long codes in the tables is block 1 followed by an empty final fixed block */
						size_t vn = 0;
						{
							char dd[260];
							size_t m = fs_build(which, shape, ni, rem, 0, vbuf, sizeof vbuf, dd, sizeof dd);
							(void)m;
							/* cut after block 1: find it by decoding with the reference */
							static struct ri_result rr;
							static uint8_t tmp[4096];
							struct ri_opts o;
							memset(&o, 0, sizeof o);
							rr.out = tmp; rr.out_cap = sizeof tmp;
							ref_inflate(vbuf, m, &o, &rr);
							if (rr.nblocks >= 1) {
								size_t endbit = rr.blk[0].bit_end;
								struct bw w;
								bw_init(&w, vbuf, sizeof vbuf);
								w.bit = endbit; /* keep block 1, append an empty final fixed block */
								vbuf[endbit >> 3] &= (uint8_t)((1u << (endbit & 7)) - 1);
								gen_fixed(&w, 1, NULL, 0);
								vn = bw_bytes(&w);
							}
							snprintf(vdesc, sizeof vdesc, "valid sibling (block 1 + empty final block)");
						}
						for (int ci = 0; ci < 3; ci++)
							for (int api = 0; api < 2; api++) {
								cpu_set_level(cpus[ci]);
								int ret[8], bs[8];
								size_t ol[8];
								int np = 0;
								for (int pf = 0; pf < 7; pf++) {
									if (pf < 4)
										prefill(st, sizeof *st, pf, NULL);
									else if (pf == 4) {
										for (size_t i = 0; i + 1 < sizeof *st; i += 2) { ((uint8_t *)st)[i] = 0x01; ((uint8_t *)st)[i + 1] = 0x2c; }
									} else if (pf == 5) { /* state left behind by decoding the valid sibling, then reset */
										if (!vn) continue;
										isal_inflate_init(st);
										st->next_in = vbuf; st->avail_in = vn; st->next_out = out[7]; st->avail_out = sizeof out[7];
										if (api) isal_inflate(st); else isal_inflate_stateless(st);
										isal_inflate_reset(st);
									} else { /* the same, then a full re-initialisation */
										if (!vn) continue;
										isal_inflate_init(st);
										st->next_in = vbuf; st->avail_in = vn; st->next_out = out[7]; st->avail_out = sizeof out[7];
										if (api) isal_inflate(st); else isal_inflate_stateless(st);
									}
									if (pf != 5)
										isal_inflate_init(st);
									st->next_in = sbuf; st->avail_in = n; st->next_out = out[np]; st->avail_out = sizeof out[np];
									ret[np] = api ? isal_inflate(st) : isal_inflate_stateless(st);
									bs[np] = st->block_state;
									ol[np] = st->total_out;
									v_eval();
									if (np && (ret[np] != ret[0] || (ret[0] >= 0 && (bs[np] != bs[0] || ol[np] != ol[0] || memcmp(out[np], out[0], ol[0]))))) {
										snprintf(key, sizeof key, "inflate-prefill %s api=%s cpu=%s", desc, api ? "isal_inflate" : "stateless", cpu_level_name[cpus[ci]]);
										v_violation(key, "pre-fill variant %d (0 zeros,1 ff,2 a5,3 address hash,4 pattern 012c,5 after decoding a valid sibling + reset,6 the same + init): return %d state %d %zu bytes, but %d / %d / %zu bytes on a zero-filled state",
											    pf, ret[np], bs[np], ol[np], ret[0], bs[0], ol[0]);
										nfail++;
										break;
									}
									np++;
								}
								v_count("inflate_prefill_cases", 1);
							}
						v_nontrivial(v_mix(0x1f1 + which * 2 + shape, ni * 8 + rem * 2 + only2));
					}
}
static void prefill_part(void)
{
	static const int lens[] = { 0, 1, 9, 300, 600, 4096, 8193, 20000 };
	static const int pats[] = { PAT_TEXT, PAT_XS, PAT_ZERO, PAT_P3, PAT_LOG };
	static const int cpus[] = { CPU_BASE, CPU_AVX2, CPU_AVX512G2 };
	static uint8_t *in, *out[5], *lbprev, *ctxprev;
	static struct isal_zstream *s;
	static uint8_t *lb;
	if (!in) {
		in = malloc(20000);
		for (int i = 0; i < 5; i++) out[i] = malloc(60000);
		lb = malloc(ISAL_DEF_LVL3_DEFAULT); lbprev = calloc(1, ISAL_DEF_LVL3_DEFAULT);
		s = malloc(sizeof *s); ctxprev = calloc(1, sizeof *s);
	}
	char key[300];
	uint64_t unit = 0;
	for (unsigned li = 0; li < 8; li++)
		for (int pi = 0; pi < 5; pi++)
			for (int level = 0; level <= 3; level++)
				for (int gz = 0; gz < 2; gz++)
					for (int api = 0; api < 4; api++)
						for (int ci = 0; ci < 3; ci++) {
							if (!v_mine(unit++))
								continue;
							if (nfail > 20 || v_deadline_hit())
								return;
							int len = lens[li];
							fill_pattern(in, len, pats[pi], len + pi);
							cpu_set_level(cpus[ci]);
							size_t olen[5]; int ret[5]; uint32_t tin[5], st[5];
							for (int pf = 0; pf < 5; pf++) {
								prefill(s, sizeof *s, pf, ctxprev);
								prefill(lb, ISAL_DEF_LVL3_DEFAULT, pf, lbprev);
								prefill(out[pf], 60000, pf, NULL);
								if (api == 0) isal_deflate_stateless_init(s); else isal_deflate_init(s);
								s->level = level; s->level_buf = level ? lb : NULL; s->level_buf_size = level ? lvl_default[level] : 0;
								s->gzip_flag = gz ? IGZIP_GZIP : IGZIP_DEFLATE;
								s->flush = api == 2 ? SYNC_FLUSH : NO_FLUSH;
								int r = 0;
								if (api < 2) {
									s->next_in = in; s->avail_in = len; s->end_of_stream = 1; s->next_out = out[pf]; s->avail_out = 60000;
									r = api == 0 ? isal_deflate_stateless(s) : isal_deflate(s);
								} else if (api == 2) {
									size_t ip = 0;
									s->next_out = out[pf]; s->avail_out = 60000;
									do {
										s->next_in = in + ip; s->avail_in = len - ip > 777 ? 777 : len - ip;
										ip += s->avail_in;
										s->end_of_stream = ip >= (size_t)len;
										r = isal_deflate(s);
									} while (r == 0 && s->internal_state.state != ZSTATE_END);
								} else { /* api 3: everything offered at once with end_of_stream, the output drained in 64-byte pieces */
									size_t op = 0;
									s->flush = NO_FLUSH;
									s->next_in = in; s->avail_in = len; s->end_of_stream = 1;
									do {
										s->next_out = out[pf] + op; s->avail_out = 64;
										r = isal_deflate(s);
										op += 64 - s->avail_out;
									} while (r == 0 && s->internal_state.state != ZSTATE_END && op < 59000);
								}
								ret[pf] = r; olen[pf] = s->total_out; tin[pf] = s->total_in; st[pf] = s->internal_state.state;
								if (pf == 3) { memcpy(ctxprev, s, sizeof *s); memcpy(lbprev, lb, ISAL_DEF_LVL3_DEFAULT); }
								v_eval();
							}
							for (int pf = 1; pf < 5; pf++)
								if (ret[pf] != ret[0] || olen[pf] != olen[0] || tin[pf] != tin[0] || st[pf] != st[0] || memcmp(out[pf], out[0], olen[0])) {
									snprintf(key, sizeof key, "prefill deflate level=%d wrapper=%s api=%d cpu=%s input=%s:%d", level, gz ? "gzip" : "raw", api, cpu_level_name[cpus[ci]], pat_name[pats[pi]], len);
									v_violation(key, "result depends on prior memory contents: pre-fill pattern %d gives ret %d / %zu bytes / state %u, pattern 0 gives ret %d / %zu bytes / state %u%s", pf, ret[pf],
										    olen[pf], st[pf], ret[0], olen[0], st[0], olen[pf] == olen[0] && memcmp(out[pf], out[0], olen[0]) ? " (different bytes)" : "");
									nfail++;
									break;
								}
							v_nontrivial(v_hash(out[0], olen[0], unit));
							/* inflate the result with pre-filled decoder state and output */
							if (ret[0] == 0 && api != 0) {
								static struct inflate_state *is;
								static uint8_t *isprev, *back[5];
								if (!is) { is = malloc(sizeof *is); isprev = calloc(1, sizeof *is); for (int i = 0; i < 5; i++) back[i] = malloc(20064); }
								int ir[5]; uint32_t io[5], ic[5], ib[5];
								for (int pf = 0; pf < 5; pf++) {
									prefill(is, sizeof *is, pf, isprev);
									prefill(back[pf], 20064, pf, NULL);
									isal_inflate_init(is);
									is->crc_flag = gz ? ISAL_GZIP : ISAL_DEFLATE;
									is->next_in = out[0]; is->avail_in = olen[0]; is->next_out = back[pf]; is->avail_out = 20064;
									ir[pf] = api == 1 ? isal_inflate_stateless(is) : isal_inflate(is);
									io[pf] = is->total_out; ic[pf] = is->crc; ib[pf] = is->block_state;
									if (pf == 3) memcpy(isprev, is, sizeof *is);
									v_eval();
								}
								for (int pf = 1; pf < 5; pf++)
									if (ir[pf] != ir[0] || io[pf] != io[0] || ic[pf] != ic[0] || ib[pf] != ib[0] || memcmp(back[pf], back[0], io[0])) {
										snprintf(key, sizeof key, "prefill inflate wrapper=%s api=%d cpu=%s input=%s:%d", gz ? "gzip" : "raw", api, cpu_level_name[cpus[ci]], pat_name[pats[pi]], len);
										v_violation(key, "inflate result depends on prior contents of the state/output (pattern %d: ret %d out %u crc %08x)", pf, ir[pf], io[pf], ic[pf]);
										nfail++;
										break;
									}
							}
						}
	/* output structs of the table builders */
	{
		static struct isal_huff_histogram h;
		static struct isal_hufftables t[3];
		memset(&h, 0, sizeof h);
		fill_pattern(in, 3000, PAT_TEXT, 4);
		cpu_set_level(CPU_BASE);
		isal_update_histogram(in, 3000, &h);
		for (int subset = 0; subset < 2; subset++) {
			for (int pf = 0; pf < 3; pf++) {
				prefill(&t[pf], sizeof t[pf], pf, NULL);
				if (subset) isal_create_hufftables_subset(&t[pf], &h); else isal_create_hufftables(&t[pf], &h);
			}
			if (memcmp(&t[0], &t[1], sizeof t[0]) || memcmp(&t[0], &t[2], sizeof t[0]))
				v_violation(subset ? "prefill isal_create_hufftables_subset" : "prefill isal_create_hufftables", "the produced table depends on the prior contents of the output struct");
			v_eval();
		}
	}
}

/* (c3) dictionaries: the compressed bytes must not depend on what the context, the level buffer, the output buffer OR the caller's
 * struct isal_dict held before (isal_deflate_process_dict fills it; nothing says it has to be cleared first). Both routes
 * (set_dict / process_dict + reset_dict), dictionary lengths 64 / 4000 / 32768, data that continues the dictionary's pattern (so
 * that hash buckets the dictionary never set are looked up at once), levels 0-3, 3 kernel sets, 6 pre-fill patterns. */
static void dict_prefill_part(void)
{
	static const int lens[] = { 300, 4096, 20000 }, dlens[] = { 64, 4000, 32768 };
	static const int pats[] = { PAT_TEXT, PAT_XS, PAT_ZERO, PAT_P3, PAT_P258 };
	static const int cpus[] = { CPU_BASE, CPU_AVX2, CPU_AVX512G2 };
	static uint8_t *in, *out[6], *lb;
	static struct isal_zstream *s;
	static struct isal_dict *dobj;
	if (!in) {
		in = malloc(20000 + 32768);
		for (int i = 0; i < 6; i++) out[i] = malloc(60000);
		lb = malloc(ISAL_DEF_LVL3_DEFAULT);
		s = malloc(sizeof *s);
		dobj = malloc(sizeof *dobj);
	}
	char key[300], why[256];
	uint64_t unit = 4000000;
	for (int li = 0; li < 3; li++)
		for (int pi = 0; pi < 5; pi++)
			for (int level = 0; level <= 3; level++)
				for (int di = 0; di < 3; di++)
					for (int route = 0; route < 2; route++)
						for (int ci = 0; ci < 3; ci++) {
							if (!v_mine(unit++))
								continue;
							if (nfail > 20 || v_deadline_hit())
								return;
							int len = lens[li], dl = dlens[di];
							fill_pattern(in, dl + len, pats[pi], len + pi + di);
							cpu_set_level(cpus[ci]);
							size_t olen[6]; int ret[6];
							for (int pf = 0; pf < 6; pf++) {
								if (pf < 5) {
									prefill(s, sizeof *s, pf, NULL);
									prefill(lb, ISAL_DEF_LVL3_DEFAULT, pf, NULL);
									prefill(dobj, sizeof *dobj, pf, NULL);
								} else { /* a repeating 16-bit value: a plausible stale hash-table entry everywhere */
									for (size_t i = 0; i + 1 < sizeof *s; i += 2) { ((uint8_t *)s)[i] = 0xa0; ((uint8_t *)s)[i + 1] = 0xff; }
									for (size_t i = 0; i + 1 < ISAL_DEF_LVL3_DEFAULT; i += 2) { lb[i] = 0xa0; lb[i + 1] = 0xff; }
									for (size_t i = 0; i + 1 < sizeof *dobj; i += 2) { ((uint8_t *)dobj)[i] = 0xa0; ((uint8_t *)dobj)[i + 1] = 0xff; }
								}
								prefill(out[pf], 60000, pf % 5, NULL);
								isal_deflate_init(s);
								s->level = level; s->level_buf = level ? lb : NULL; s->level_buf_size = level ? lvl_default[level] : 0;
								int r;
								if (route == 0)
									r = isal_deflate_set_dict(s, in, dl);
								else {
									r = isal_deflate_process_dict(s, dobj, in, dl);
									if (r == 0)
										r = isal_deflate_reset_dict(s, dobj);
								}
								s->next_in = in + dl; s->avail_in = len; s->end_of_stream = 1; s->next_out = out[pf]; s->avail_out = 60000;
								if (r == 0)
									r = isal_deflate(s);
								ret[pf] = r; olen[pf] = s->total_out;
								v_eval();
							}
							snprintf(key, sizeof key, "prefill deflate+dictionary level=%d route=%s dict=%d cpu=%s input=%s:%d", level, route ? "process_dict+reset_dict" : "set_dict", dl, cpu_level_name[cpus[ci]], pat_name[pats[pi]], len);
							int bad = 0;
							for (int pf = 1; pf < 6 && !bad; pf++)
								if (ret[pf] != ret[0] || olen[pf] != olen[0] || memcmp(out[pf], out[0], olen[0])) {
									v_violation(key, "result depends on prior memory contents (context / level buffer / isal_dict object): pre-fill pattern %d gives ret %d / %zu bytes, pattern 0 gives ret %d / %zu bytes%s", pf, ret[pf],
										    olen[pf], ret[0], olen[0], olen[pf] == olen[0] && memcmp(out[pf], out[0], olen[0]) ? " (different bytes)" : "");
									nfail++;
									bad = 1;
								}
							if (!bad && ret[0] == 0) {
								const uint8_t *h = dl > 32768 ? in + dl - 32768 : in;
								if (!verify_deflate_output(out[0], olen[0], IGZIP_DEFLATE, in + dl, len, 0, 0, h, dl > 32768 ? 32768 : dl, why, sizeof why)) {
									v_violation(key, "stream does not decode with the dictionary as history: %s", why);
									nfail++;
								}
							}
							v_count("dict_prefill_cases", 1);
							v_nontrivial(v_hash(out[0], olen[0], unit));
						}
}

/* (c4) placement: the compressed bytes are a function of the input BYTES - the same bytes handed over at different addresses
 * (start offsets 0, 1, 3, 4, 7, 8, 9, 31, 63 from a page boundary; output at offsets 0 / 1) must give identical streams. Inputs incl.
 * constant runs (the one-shot path has a shortcut for them), levels 0-3, one-shot / one call / 777-byte pieces, 3 kernel sets. */
static void placement_part(void)
{
	static const int offs[] = { 0, 1, 3, 4, 7, 8, 9, 31, 63 };
	static const int lens[] = { 8, 100, 1000, 5000, 9000 };
	static const int cpus[] = { CPU_BASE, CPU_AVX2, CPU_AVX512G2 };
	static uint8_t *inb, *outb[2], *data, *lb;
	static struct isal_zstream *s;
	if (!inb) {
		inb = aligned_alloc(4096, 16384); outb[0] = aligned_alloc(4096, 32768); outb[1] = aligned_alloc(4096, 32768);
		data = malloc(9000); lb = malloc(ISAL_DEF_LVL3_DEFAULT); s = malloc(sizeof *s);
	}
	char key[300];
	uint64_t unit = 6000000;
	for (int li = 0; li < 5; li++)
		for (int kind = 0; kind < 6; kind++)
			for (int level = 0; level <= 3; level++)
				for (int api = 0; api < 3; api++)
					for (int gz = 0; gz < 2; gz++) {
						if (!v_mine(unit++))
							continue;
						if (nfail > 20 || v_deadline_hit())
							return;
						int len = lens[li], cpu = cpus[(li + kind + level + api) % 3];
						cpu_set_level(cpu);
						switch (kind) {
						case 0: memset(data, 0, len); break;
						case 1: memset(data, 0xff, len); break;
						case 2: fill_pattern(data, len, PAT_LOG, 5); break;
						case 3: fill_xorshift(data, len, 6); break;
						case 4: memset(data, 0, len); if (len > 4200) fill_pattern(data + 4200, len - 4200, PAT_LOG, 7); else data[len - 1] = 'x'; break;
						default: fill_pattern(data, len, PAT_TEXT, 8); memset(data, 0xff, len / 2); break;
						}
						size_t ol0 = 0;
						for (unsigned oi = 0; oi < 9; oi++) {
							uint8_t *in = inb + offs[oi], *out = outb[oi ? 1 : 0] + (oi & 1);
							memcpy(in, data, len);
							if (api == 0) isal_deflate_stateless_init(s); else isal_deflate_init(s);
							s->level = level; s->level_buf = level ? lb : NULL; s->level_buf_size = level ? lvl_default[level] : 0;
							s->gzip_flag = gz ? IGZIP_GZIP : IGZIP_DEFLATE;
							s->next_out = out; s->avail_out = 30000;
							int r;
							if (api < 2) {
								s->next_in = in; s->avail_in = len; s->end_of_stream = 1;
								r = api == 0 ? isal_deflate_stateless(s) : isal_deflate(s);
							} else {
								size_t ip = 0;
								do {
									s->next_in = in + ip; s->avail_in = len - ip > 777 ? 777 : len - ip;
									ip += s->avail_in;
									s->end_of_stream = ip >= (size_t)len;
									r = isal_deflate(s);
								} while (r == 0 && s->internal_state.state != ZSTATE_END);
							}
							v_eval();
							snprintf(key, sizeof key, "placement level=%d wrapper=%s api=%d cpu=%s input-kind=%d len=%d", level, gz ? "gzip" : "raw", api, cpu_level_name[cpu], kind, len);
							if (r != COMP_OK) {
								v_violation(key, "returned %d with the input at offset %d", r, offs[oi]);
								nfail++;
								break;
							}
							if (oi == 0)
								ol0 = s->total_out;
							else if (s->total_out != ol0 || memcmp(out, outb[0], ol0)) {
								v_violation(key, "the same input bytes at start offset %d give %u bytes, at offset 0 %zu bytes%s: the result depends on where the caller's buffer lies", offs[oi],
									    s->total_out, ol0, s->total_out == ol0 ? " (different bytes)" : "");
								nfail++;
								break;
							}
						}
						v_count("placement_cases", 1);
						v_nontrivial(v_hash(outb[0], ol0, unit));
					}
}

/* ======================= (d) REUSE: reset == fresh ======================= */
static uint8_t *RX[3];
static int RXL[3] = { 600, 4096, 70 };
static uint8_t *r_out, *r_ref, *r_lb;
static size_t run_y(struct isal_zstream *s, int level, int gz, int y, int *ret)
{
	s->level = level; s->level_buf = level ? r_lb : NULL; s->level_buf_size = level ? lvl_default[level] : 0;
	s->gzip_flag = gz; s->flush = NO_FLUSH; s->hist_bits = 0;
	isal_deflate_set_hufftables(s, NULL, IGZIP_HUFFTABLE_DEFAULT);
	size_t ip = 0;
	s->next_out = r_out; s->avail_out = 20000;
	int r;
	do {
		s->next_in = RX[y] + ip; s->avail_in = RXL[y] - ip > 333 ? 333 : RXL[y] - ip;
		ip += s->avail_in;
		s->end_of_stream = ip >= (size_t)RXL[y];
		r = isal_deflate(s);
	} while (r == 0 && s->internal_state.state != ZSTATE_END);
	*ret = r;
	return s->total_out;
}
static void apply_op(struct isal_zstream *s, int op, int level)
{
	/* op encodes (kind, x): kinds: 0 compress X completely, 1..3 compress X and abandon at cut k, 4 set static table, 5 set dict, 6 sync-flush half of X */
	int kind = op / 3, x = op % 3;
	static uint8_t tmp[20000];
	s->level = level; s->level_buf = level ? r_lb : NULL; s->level_buf_size = level ? lvl_default[level] : 0;
	switch (kind) {
	case 0: case 1: case 2: case 3: {
		size_t cut = kind == 0 ? RXL[x] : kind == 1 ? 1 : kind == 2 ? RXL[x] / 2 : RXL[x] - 1;
		s->next_in = RX[x]; s->avail_in = cut; s->end_of_stream = kind == 0;
		s->next_out = tmp; s->avail_out = kind == 3 ? 9 : sizeof tmp; /* kind 3 also leaves output pending */
		isal_deflate(s);
		break;
	}
	case 4: isal_deflate_set_hufftables(s, NULL, IGZIP_HUFFTABLE_STATIC); break;
	case 5: isal_deflate_set_dict(s, RX[x], RXL[x] > 300 ? 300 : RXL[x]); break;
	case 6:
		s->next_in = RX[x]; s->avail_in = RXL[x] / 2; s->end_of_stream = 0; s->flush = SYNC_FLUSH;
		s->next_out = tmp; s->avail_out = sizeof tmp;
		isal_deflate(s);
		s->flush = NO_FLUSH;
		break;
	}
}
static void reuse_part(void)
{
	static struct isal_zstream *s;
	if (!s) {
		s = malloc(sizeof *s);
		r_out = malloc(20000); r_ref = malloc(20000); r_lb = malloc(ISAL_DEF_LVL3_DEFAULT);
		for (int i = 0; i < 3; i++) { RX[i] = malloc(4096); fill_pattern(RX[i], RXL[i], i == 0 ? PAT_TEXT : i == 1 ? PAT_P258 : PAT_XS, i); }
	}
	static const int cpus[] = { CPU_BASE, CPU_AVX2, CPU_AVX512G2 };
	char key[300];
	uint64_t unit = 0;
	int NOPS = 21;
	for (int level = 0; level <= 3; level++)
		for (int gz = 0; gz < 3; gz++)
			for (int y = 0; y < 3; y++) {
				int gzf = gz == 0 ? IGZIP_DEFLATE : gz == 1 ? IGZIP_GZIP : IGZIP_ZLIB;
				for (int depth = 0; depth <= (v_thorough ? 3 : 2); depth++) {
					int nh = 1;
					for (int i = 0; i < depth; i++) nh *= NOPS;
					for (int hcode = 0; hcode < nh; hcode++)
						for (int how = 0; how < 2; how++) {
							if (!v_mine(unit++))
								continue;
							if (nfail > 20 || v_deadline_hit())
								return;
							if (depth == 3 && (hcode % 7))
								continue;
							cpu_set_level(cpus[(level + gz + y) % 3]);
							/* fresh reference */
							memset(s, 0, sizeof *s);
							memset(r_lb, 0, ISAL_DEF_LVL3_DEFAULT);
							isal_deflate_init(s);
							int rr;
							size_t rl = run_y(s, level, gzf, y, &rr);
							memcpy(r_ref, r_out, rl);
							/* history then reset-or-init then Y */
							memset(s, 0, sizeof *s);
							isal_deflate_init(s);
							int hc = hcode;
							char hist[120] = "";
							/* the earlier stream runs at one (possibly different) level throughout: the level of a stream is not changed mid-stream */
							int hl = (level + 1 + hcode) % 4;
							for (int i = 0; i < depth; i++) {
								int op = hc % NOPS;
								hc /= NOPS;
								apply_op(s, op, hl);
								snprintf(hist + strlen(hist), sizeof hist - strlen(hist), "op%d(x%d,lvl%d) ", op / 3, op % 3, hl);
							}
							if (how == 0) isal_deflate_reset(s); else isal_deflate_init(s);
							int r2;
							size_t l2 = run_y(s, level, gzf, y, &r2);
							v_eval();
							if (r2 != rr || l2 != rl || memcmp(r_out, r_ref, rl)) {
								snprintf(key, sizeof key, "reuse deflate level=%d wrapper=%s y=%d after [%s] then %s", level, gz_name[gzf], y, hist, how ? "isal_deflate_init" : "isal_deflate_reset");
								v_violation(key, "reused context: ret %d, %zu bytes; fresh context: ret %d, %zu bytes%s", r2, l2, rr, rl, l2 == rl ? " (different bytes)" : "");
								nfail++;
							}
							v_nontrivial(v_mix(unit, hcode));
						}
				}
			}
	/* inflate: complete / failing / abandoned streams, then reset, then another stream */
	{
		static struct inflate_state *st;
		static uint8_t comp[3][8000], back[8000], ref[8000];
		size_t cl[3];
		if (!st) st = malloc(sizeof *st);
		cpu_set_level(CPU_AVX2);
		for (int i = 0; i < 3; i++) {
			struct isal_zstream z;
			isal_deflate_stateless_init(&z);
			z.gzip_flag = i == 1 ? IGZIP_ZLIB : IGZIP_GZIP;
			z.next_in = RX[i]; z.avail_in = RXL[i]; z.end_of_stream = 1; z.next_out = comp[i]; z.avail_out = sizeof comp[i];
			isal_deflate_stateless(&z);
			cl[i] = z.total_out;
		}
		for (int a = 0; a < 3; a++)
			for (int mode = 0; mode < 4; mode++)
				for (int b = 0; b < 3; b++)
					for (int how = 0; how < 2; how++) {
						memset(st, 0, sizeof *st);
						isal_inflate_init(st);
						st->crc_flag = b == 1 ? ISAL_ZLIB : ISAL_GZIP;
						st->next_in = comp[b]; st->avail_in = cl[b]; st->next_out = ref; st->avail_out = sizeof ref;
						int rr = isal_inflate(st);
						uint32_t ro = st->total_out, rc = st->crc;
						memset(st, 0x5a, sizeof *st);
						isal_inflate_init(st);
						st->crc_flag = a == 1 ? ISAL_ZLIB : ISAL_GZIP;
						uint8_t tmpc[8000];
						memcpy(tmpc, comp[a], cl[a]);
						if (mode == 1) tmpc[cl[a] / 2] ^= 0x55;            /* failing stream */
						size_t give = mode == 2 ? cl[a] / 2 : mode == 3 ? 5 : cl[a]; /* abandoned mid-stream / mid-header */
						st->next_in = tmpc; st->avail_in = give; st->next_out = back; st->avail_out = mode == 2 ? 17 : sizeof back;
						isal_inflate(st);
						if (how == 0) isal_inflate_reset(st); else isal_inflate_init(st);
						st->crc_flag = b == 1 ? ISAL_ZLIB : ISAL_GZIP;
						st->next_in = comp[b]; st->avail_in = cl[b]; st->next_out = back; st->avail_out = sizeof back;
						int r2 = isal_inflate(st);
						v_eval();
						if (r2 != rr || st->total_out != ro || st->crc != rc || st->block_state != ISAL_BLOCK_FINISH || memcmp(back, ref, ro)) {
							snprintf(key, sizeof key, "reuse inflate after stream %d mode %d then %s, stream %d", a, mode, how ? "init" : "reset", b);
							v_violation(key, "reused state: ret %d out %u crc %08x state %d; fresh: ret %d out %u crc %08x", r2, st->total_out, st->crc, st->block_state, rr, ro, rc);
							nfail++;
						}
					}
	}
}

/* ======================= TSO complement: Promela model bound to the code ======================= */
static void tso_part(void)
{
	/* (1) binding: the per-thread access alphabet of the model, [R slot][W slot][R slot], must be exactly what SCHED records
	 *     for a real cold call of every single-slot entry; anything else means the model is stale (exit 2) */
	wm_range(&SCH.lo, &SCH.hi);
	sch_install();
	cpu_set_level(CPU_AVX2);
	for (int e = 0; e < N_SINGLE; e++) {
		T_entry = e;
		T_mixed = 0;
		SCH.nthreads = 1;
		SCH.body = body;
		SCH.nW = 0;
		int guard = 0;
		do {
			SCH.newW = 0;
			sch_execute(NULL, 0, reset_slots);
		} while (SCH.newW && guard++ < 4);
		int slot = -1;
		for (int i = 0; i < verif_nslots; i++)
			if (!strcmp(verif_slots[i].name, entries[e].slots[0]))
				slot = i;
		int ok = SCH.nacc >= 3 && SCH.nW == 1 && SCH.W[0] == (uintptr_t)verif_slots[slot].slot && !SCH.acc[0].write && SCH.acc[1].write && !SCH.acc[2].write;
		for (int i = 3; i < SCH.nacc; i++)
			ok &= !SCH.acc[i].write; /* further (warm) calls in the same body only read the slot */
		if (!ok)
			v_broken("TSO model is stale: cold call of %s performs [%s] on written granules, the model assumes [R slot][W slot][R slot]", entries[e].name, sch_trace_str());
		v_count("tso_model_alphabet_bindings", 1);
	}
	sch_uninstall();
	/* (2) exhaustive check of the model with spin */
	char cmd[1024], line[512];
	snprintf(cmd, sizeof cmd, "rm -rf /verif/build/spin_c15 && mkdir -p /verif/build/spin_c15 && cd /verif/build/spin_c15 && spin -a /verif/models/slot_tso.pml >/dev/null 2>&1 && "
				  "gcc -O2 -DSAFETY -DMEMLIM=4096 -o pan pan.c >/dev/null 2>&1 && timeout 300 ./pan -m200000 2>&1");
	FILE *p = popen(cmd, "r");
	if (!p)
		v_broken("cannot run spin");
	long states = -1, trans = -1, errors = -1;
	while (fgets(line, sizeof line, p)) {
		long v;
		char *e = strstr(line, "errors:");
		if (e)
			errors = atol(e + 7);
		if (strstr(line, "states, stored") && sscanf(line, " %ld", &v) == 1)
			states = v;
		if (strstr(line, "transitions (") && sscanf(line, " %ld", &v) == 1)
			trans = v;
	}
	pclose(p);
	if (states < 0 || errors < 0)
		v_broken("spin/pan did not produce a result (is spin installed?)");
	v_count("tso_model_states", states);
	v_count("tso_model_transitions", trans);
	v_eval_n(states);
	v_nontrivial(0x750);
	if (errors)
		v_violation("TSO slot protocol model", "pan reports %ld error(s) in models/slot_tso.pml", errors);
	v_sample("models/slot_tso.pml (N=4 threads, per-thread store buffer): %ld states, %ld transitions, %ld errors; alphabet bound to SCHED traces of %d real cold calls", states, trans, errors, N_SINGLE);
}

int main(int argc, char **argv)
{
	v_init(argc, argv, "C15");
	if (!v_part || !strcmp(v_part, "writemon"))
		writemon_part();
	if (!v_part || !strcmp(v_part, "sched"))
		sched_part();
	if ((!v_part || !strcmp(v_part, "tso")) && v_shard == 0)
		tso_part();
	if (!v_part || !strcmp(v_part, "prefill"))
		inflate_prefill_part();
	if (!v_part || !strcmp(v_part, "prefill"))
		prefill_part();
	if (!v_part || !strcmp(v_part, "prefill"))
		dict_prefill_part();
	if (!v_part || !strcmp(v_part, "prefill"))
		placement_part();
	if (!v_part || !strcmp(v_part, "reuse"))
		reuse_part();
	if (v_shard == 0) {
		v_sample("cold-start crc32_ieee threads=3 cpu=real-cpuid: all 1680 interleavings of the 3x(R slot, W slot, R slot) accesses; every thread returns the serial value; final slot = serial selection");
		v_sample("cold-start isal_deflate_stateless(level3) threads=2 preemption-bound=2: 7 slots resolved inside one call");
		v_sample("prefill deflate level=2 wrapper=gzip api=chunked+SYNC_FLUSH: context, level buffer and output pre-filled with 00 / FF / A5 / address hash / image of a previous run -> identical bytes");
		v_sample("reuse: [compress x1 abandoned at half with output pending; set static table] isal_deflate_reset; compress y == fresh context byte for byte");
		v_note("SCHED explores sequentially consistent interleavings of whole instructions touching library-owned writable memory (every such access is intercepted by page protection + single-stepping, no source hooks); x86-TSO store buffering is covered by models/slot_tso.pml for the one-word slot protocol");
		v_note("scheduler self-test runs first: a racy toy counter inside the monitored segment must lose an update under some schedule, the atomic version must not");
	}
	return v_finish();
}
