/* C19 - gzip/zlib headers are written per RFC 1952/1950 and parsed back losslessly, resumably. */
#include "codec_common.h"
#include "explore.h"

static long nfail;
static char name300[301], comment300[301];
static uint8_t extra64k[65536];

/* ================= writer ================= */
static void gzip_writer(void)
{
	static const uint32_t times[] = { 0, 1, 0x01020304, 0xffffffffu };
	static const int xfs[] = { 0, 2, 4, 0xff }, oss[] = { 0, 3, 0xff }, exl[] = { -1, 0, 1, 2, 255, 65535 };
	const char *names[] = { NULL, "", "a", name300 };
	const char *comments[] = { NULL, "", "c", comment300 };
	char key[300];
	static uint8_t expect[70000];
	uint64_t unit = 0;
	for (int text = 0; text < 2; text++)
		for (int ti = 0; ti < 4; ti++)
			for (int xi = 0; xi < 4; xi++)
				for (int oi = 0; oi < 3; oi++)
					for (int ei = 0; ei < 6; ei++)
						for (int ni = 0; ni < 4; ni++)
							for (int ci = 0; ci < 4; ci++)
								for (int hcrc = 0; hcrc < 2; hcrc++) {
									if (!v_mine(unit++))
										continue;
									struct rh_gzip rh = { text, times[ti], xfs[xi], oss[oi], extra64k, exl[ei], names[ni], comments[ci], hcrc };
									size_t need = rh_gzip_write(expect, &rh);
									long aos[5] = { 0, (long)need - 1, (long)need, (long)need + 1, (long)need + 100 };
									/* buffer-capacity fields are reader-side: the writer must go by extra_len / the NUL terminator only.
									 * bv: 0 capacities exact, 1 extra_buf_len = 0, 2 all capacities roomy (+9), 3 capacities huge */
									for (int aib = 0; aib < 20; aib++) {
										int ai = aib % 5, bv = aib / 5;
										if (bv && (ti || xi || oi))
											continue;
										if (aos[ai] < 0)
											continue;
										size_t ao = aos[ai];
										struct isal_zstream *s = g_alloc(sizeof *s, G_END);
										struct isal_gzip_header *h = g_alloc(sizeof *h, G_END);
										uint8_t *out = g_alloc(ao, G_END);
										memset(out, 0x5A, ao);
										uint32_t r = 12345;
										snprintf(key, sizeof key, "isal_write_gzip_header text=%d time=%x xfl=%d os=%d extra=%d name=%d comment=%d hcrc=%d capacities=%s avail_out=need%+ld", text, times[ti],
											 xfs[xi], oss[oi], exl[ei], ni, ci, hcrc, bv == 0 ? "exact" : bv == 1 ? "extra_buf_len=0" : bv == 2 ? "roomy" : "huge", (long)ao - (long)need);
										if (V_TRY()) {
											isal_deflate_init(s);
											isal_gzip_header_init(h);
											h->text = text; h->time = times[ti]; h->xflags = xfs[xi]; h->os = oss[oi];
											uint32_t grow = bv == 2 ? 9 : bv == 3 ? 40000 : 0;
											if (exl[ei] >= 0) { h->extra = extra64k; h->extra_len = exl[ei]; h->extra_buf_len = bv == 1 ? 0 : bv == 3 ? 65535 : exl[ei] + grow; }
											if (names[ni]) { h->name = (char *)names[ni]; h->name_buf_len = strlen(names[ni]) + 1 + grow; }
											if (comments[ci]) { h->comment = (char *)comments[ci]; h->comment_buf_len = strlen(comments[ci]) + 1 + grow; }
											h->hcrc = hcrc;
											s->next_out = out; s->avail_out = ao; s->total_out = 7;
											static struct isal_zstream before;
											memcpy(&before, s, sizeof before);
											r = isal_write_gzip_header(s, h);
											V_END();
											v_eval();
											if (ao < need) {
												int untouched = !memcmp(&before, s, sizeof before);
												for (size_t i = 0; i < ao && untouched; i++)
													untouched = out[i] == 0x5A;
												if (r != need || !untouched) {
													v_violation(key, "output too small: returned %u (required size %zu), stream/output %s", r, need, untouched ? "untouched" : "MODIFIED");
													nfail++;
												}
											} else if (r != 0 || s->avail_out != ao - need || s->next_out != out + need || s->total_out != 7 + need || memcmp(out, expect, need)) {
												size_t i = 0;
												while (i < need && out[i] == expect[i])
													i++;
												v_violation(key, "returned %u; header differs from the RFC 1952 layout at byte %zu (got %02x expected %02x) or counters wrong (avail_out %u total_out %u)", r, i,
													    i < need ? out[i] : 0, i < need ? expect[i] : 0, s->avail_out, s->total_out);
												nfail++;
											} else
												v_nontrivial(v_hash(expect, need, 1));
										} else {
											v_violation(key, "fault at %s addr=%p (%s)", v_sym(v_fault_rip), (void *)v_fault_addr, v_fault_write ? "write" : "read");
											nfail++;
										}
										if (g_check()) {
											v_violation(key, "%s", g_last_damage());
											nfail++;
										}
										g_reset();
										if (nfail > 30)
											return;
									}
									/* foreign parser: zlib inflateGetHeader on (header + empty deflate + trailer) for a thinned subset */
									if (unit % 7 == 0 && exl[ei] <= 255) {
										uint8_t strm[1024], nb[400], cb[400], eb[400];
										memcpy(strm, expect, need);
										strm[need] = 0x03; strm[need + 1] = 0x00;
										memset(strm + need + 2, 0, 8);
										z_stream z;
										gz_header gh;
										memset(&z, 0, sizeof z); memset(&gh, 0, sizeof gh);
										gh.name = nb; gh.name_max = sizeof nb; gh.comment = cb; gh.comm_max = sizeof cb; gh.extra = eb; gh.extra_max = sizeof eb;
										inflateInit2(&z, 31);
										inflateGetHeader(&z, &gh);
										uint8_t o2[16];
										z.next_in = strm; z.avail_in = need + 10; z.next_out = o2; z.avail_out = sizeof o2;
										int zr = inflate(&z, Z_FINISH);
										inflateEnd(&z);
										if (zr != Z_STREAM_END || gh.done != 1 || gh.time != times[ti] || gh.xflags != xfs[xi] || gh.os != oss[oi] || gh.text != text ||
										    (names[ni] && strcmp((char *)nb, names[ni])) || (comments[ci] && strcmp((char *)cb, comments[ci])) || gh.hcrc != hcrc)
											v_broken("reference header producer disagrees with zlib's gzip header parser (zr=%d done=%d)", zr, gh.done);
										v_count("headers_cross_checked_with_zlib", 1);
									}
								}
}

/* the header writer's SOURCE ranges: name, comment and extra each sit in a mapping of exactly name_buf_len / comment_buf_len / extra_len
 * bytes that ends at an inaccessible page. Terminated strings (NUL is the last byte of the buffer) must give the RFC layout; strings that
 * fill their buffer WITHOUT a terminator are bounded by the *_buf_len fields - nothing behind the buffer may be read (the bytes written
 * are then not compared: the result is not a well-formed header either way), no byte outside avail_out written, and the return value is
 * 0 or the required size. */
static void gzip_writer_guarded(void)
{
	static const int lens[] = { 1, 2, 20, 300 }, exl[] = { -1, 0, 1, 255 };
	static uint8_t expect[2048];
	char key[300];
	uint64_t unit = 4000000;
	for (int ni = 0; ni < 4; ni++)
		for (int ci = 0; ci < 4; ci++)
			for (int term = 0; term < 4; term++) /* bit 0: name terminated, bit 1: comment terminated */
				for (int ei = 0; ei < 4; ei++)
					for (int hcrc = 0; hcrc < 2; hcrc++)
						for (int small = 0; small < 2; small++) {
							if (!v_mine(unit++))
								continue;
							if (nfail > 30)
								return;
							int nl = lens[ni], cl = lens[ci];
							char *nm = g_alloc(nl, G_END), *cm = g_alloc(cl, G_END);
							uint8_t *ex = exl[ei] > 0 ? g_alloc(exl[ei], G_END) : (uint8_t *)nm;
							memset(nm, 'N', nl); memset(cm, 'K', cl);
							if (term & 1) nm[nl - 1] = 0;
							if (term & 2) cm[cl - 1] = 0;
							if (exl[ei] > 0) memcpy(ex, extra64k, exl[ei]);
							size_t need = 0;
							if (term == 3) {
								struct rh_gzip rh = { 1, 0x01020304, 2, 3, ex, exl[ei], nm, cm, hcrc };
								need = rh_gzip_write(expect, &rh);
							}
							size_t ao = small ? 12 : 10 + 2 + 255 + 301 + 301 + 2;
							if (term == 3 && !small)
								ao = need;
							struct isal_zstream *s = g_alloc(sizeof *s, G_END);
							struct isal_gzip_header *h = g_alloc(sizeof *h, G_END);
							uint8_t *out = g_alloc(ao, G_END);
							memset(out, 0x5A, ao);
							uint32_t r = 12345;
							snprintf(key, sizeof key, "isal_write_gzip_header sources at guard pages: name %d bytes %s, comment %d bytes %s, extra=%d hcrc=%d avail_out=%zu", nl, term & 1 ? "terminated" : "unterminated (fills name_buf_len)", cl,
								 term & 2 ? "terminated" : "unterminated (fills comment_buf_len)", exl[ei], hcrc, ao);
							if (V_TRY()) {
								isal_deflate_init(s);
								isal_gzip_header_init(h);
								h->text = 1; h->time = 0x01020304; h->xflags = 2; h->os = 3; h->hcrc = hcrc;
								if (exl[ei] >= 0) { h->extra = ex; h->extra_len = exl[ei]; h->extra_buf_len = exl[ei]; }
								h->name = nm; h->name_buf_len = nl;
								h->comment = cm; h->comment_buf_len = cl;
								s->next_out = out; s->avail_out = ao;
								r = isal_write_gzip_header(s, h);
								V_END();
								v_eval();
								if (term == 3 && !small && (r != 0 || s->avail_out != 0 || memcmp(out, expect, need))) {
									v_violation(key, "returned %u; header differs from the RFC 1952 layout", r);
									nfail++;
								} else if (r != 0 && (r <= ao || s->avail_out != ao || s->next_out != out)) {
									v_violation(key, "returned %u with avail_out %zu: neither success nor a required size above the offered space with the stream untouched", r, ao);
									nfail++;
								} else if (r == 0 && (s->avail_out > ao || s->next_out != out + (ao - s->avail_out))) {
									v_violation(key, "counters inconsistent after success");
									nfail++;
								}
							} else {
								v_violation(key, "fault at %s addr=%p (%s)", v_sym(v_fault_rip), (void *)v_fault_addr, v_fault_write ? "write" : "read");
								nfail++;
							}
							if (g_check()) {
								v_violation(key, "%s", g_last_damage());
								nfail++;
							}
							g_reset();
							v_count("writer_guarded_sources", 1);
							v_nontrivial(v_mix(0x6a2d, unit));
						}
}

static void zlib_writer(void)
{
	static const uint32_t ids[] = { 0, 1, 0x01020304, 0x80000000u, 0xffffffffu };
	char key[200];
	for (int info = 0; info < 8; info++)
		for (int level = 0; level < 4; level++)
			for (int df = 0; df < 2; df++)
				for (int ii = 0; ii < 5; ii++) {
					uint8_t expect[8];
					struct rh_zlib rz = { info, level, df, ids[ii] };
					size_t need = rh_zlib_write(expect, &rz);
					if (df) { /* foreign witness for the byte order: zlib reads DICTID from these bytes into strm.adler */
						z_stream z;
						uint8_t o2[8];
						memset(&z, 0, sizeof z);
						inflateInit(&z);
						z.next_in = expect; z.avail_in = need; z.next_out = o2; z.avail_out = sizeof o2;
						int zr = inflate(&z, Z_NO_FLUSH);
						if (zr != Z_NEED_DICT || z.adler != ids[ii])
							v_broken("reference zlib header producer disagrees with zlib (zr=%d adler=%lx id=%x)", zr, z.adler, ids[ii]);
						inflateEnd(&z);
						v_count("dictid_cross_checked_with_zlib", 1);
					}
					long aos[5] = { 0, 1, (long)need - 1, (long)need, (long)need + 1 };
					for (int ai = 0; ai < 5; ai++) {
						size_t ao = aos[ai];
						struct isal_zstream *s = g_alloc(sizeof *s, G_END);
						uint8_t *out = g_alloc(ao, G_END);
						memset(out, 0x5A, ao);
						struct isal_zlib_header zh;
						snprintf(key, sizeof key, "isal_write_zlib_header info=%d level=%d dict_flag=%d dict_id=%08x avail_out=%zu", info, level, df, ids[ii], ao);
						uint32_t r = 9999;
						if (V_TRY()) {
							isal_deflate_init(s);
							isal_zlib_header_init(&zh);
							zh.info = info; zh.level = level; zh.dict_flag = df; zh.dict_id = ids[ii];
							s->next_out = out; s->avail_out = ao;
							static struct isal_zstream before;
							memcpy(&before, s, sizeof before);
							r = isal_write_zlib_header(s, &zh);
							V_END();
							v_eval();
							if (ao < need) {
								int untouched = !memcmp(&before, s, sizeof before);
								for (size_t i = 0; i < ao && untouched; i++)
									untouched = out[i] == 0x5A;
								if (r != need || !untouched) {
									v_violation(key, "output too small: returned %u (required %zu), %s", r, need, untouched ? "untouched" : "stream or output MODIFIED");
									nfail++;
								}
							} else {
								/* FCHECK: any value making the 16-bit header a multiple of 31 is RFC-conformant */
								int fcheck_ok = ((out[0] * 256 + out[1]) % 31) == 0 && (out[1] & 0xe0) == (expect[1] & 0xe0) && out[0] == expect[0];
								if (r != 0 || !fcheck_ok || (df && memcmp(out + 2, expect + 2, 4)) || s->avail_out != ao - need || s->total_out != need) {
									v_violation(key, "returned %u; wrote %s, RFC 1950 layout is %s (CMF/FLG, then DICTID most-significant byte first)", r, v_hex(out, need), v_hex(expect, need));
									nfail++;
								} else
									v_nontrivial(v_hash(expect, need, 2));
							}
						} else {
							v_violation(key, "fault at %s", v_sym(v_fault_rip));
							nfail++;
						}
						if (g_check()) {
							v_violation(key, "%s", g_last_damage());
							nfail++;
						}
						g_reset();
					}
				}
}

/* ================= reader: explicit-state exploration over input chunkings and buffer growth ================= */
static struct inflate_state *RST;
static struct isal_gzip_header RHD;
static uint8_t RNAME[512], RCOMM[512], REXTRA[512];
static struct { uint32_t in_off; uint32_t nb, cb, eb; int done, last; } RCUR;
static const uint8_t *RH; /* header bytes + payload marker */
static size_t RHLEN, RTOTAL;
static struct rh_gzip RWANT;
static int R_NAME_NULL, R_COMM_NULL, R_EXTRA_NULL;
static int R_GROW; /* 0: grow to sufficient, 1: grow by one */
static char rdesc[400];
static const int RA_IN[] = { 0, 1, 2, -1 };

static size_t r_head(void) { return offsetof(struct inflate_state, tmp_in_buffer) + sizeof RST->tmp_in_buffer; }
static void r_save(uint8_t *d)
{
	size_t h = r_head();
	memcpy(d, RST, h); d += h;
	memcpy(d, &RHD, sizeof RHD); d += sizeof RHD;
	memcpy(d, RNAME, sizeof RNAME); d += sizeof RNAME;
	memcpy(d, RCOMM, sizeof RCOMM); d += sizeof RCOMM;
	memcpy(d, REXTRA, sizeof REXTRA); d += sizeof REXTRA;
	memcpy(d, &RCUR, sizeof RCUR);
}
static void r_restore(const uint8_t *d)
{
	size_t h = r_head();
	memcpy(RST, d, h); d += h;
	memcpy(&RHD, d, sizeof RHD); d += sizeof RHD;
	memcpy(RNAME, d, sizeof RNAME); d += sizeof RNAME;
	memcpy(RCOMM, d, sizeof RCOMM); d += sizeof RCOMM;
	memcpy(REXTRA, d, sizeof REXTRA); d += sizeof REXTRA;
	memcpy(&RCUR, d, sizeof RCUR);
}
static size_t r_img(void) { return r_head() + sizeof RHD + sizeof RNAME + sizeof RCOMM + sizeof REXTRA + sizeof RCUR; }
static void r_key(uint64_t k[2])
{
	static struct inflate_state tmp;
	size_t h = offsetof(struct inflate_state, lit_huff_code);
	memcpy(&tmp, RST, h);
	tmp.next_in = NULL; tmp.next_out = NULL; tmp.avail_in = 0;
	uint64_t a = v_hash(&tmp, h, 1);
	a = v_mix(a, v_hash(&RST->block_state, offsetof(struct inflate_state, tmp_in_buffer) - offsetof(struct inflate_state, block_state), 2));
	a = v_mix(a, v_hash(RST->tmp_in_buffer, RST->tmp_in_size > 0 ? RST->tmp_in_size : 0, 3));
	struct isal_gzip_header hh = RHD;
	hh.name = NULL; hh.comment = NULL; hh.extra = NULL;
	uint64_t b = v_hash(&hh, sizeof hh, 4);
	b = v_mix(b, v_hash(RNAME, RCUR.nb, 5));
	b = v_mix(b, v_hash(RCOMM, RCUR.cb, 6));
	b = v_mix(b, v_hash(REXTRA, RCUR.eb, 7));
	b = v_mix(b, v_hash(&RCUR, sizeof RCUR, 8));
	k[0] = a;
	k[1] = b;
}
static const struct ex_model r_model;
static const char *r_describe(int c)
{
	static char s[4][16];
	static int si;
	char *o = s[si++ & 3];
	snprintf(o, 16, "in=%d", RA_IN[c]);
	return o;
}
static int r_step(int c)
{
	char key[500];
	if (RCUR.done)
		return EX_SKIP;
	size_t rem = RTOTAL - RCUR.in_off;
	size_t k = RA_IN[c] < 0 || (size_t)RA_IN[c] > rem ? rem : (size_t)RA_IN[c];
	uint8_t *in = g_alloc(k, G_END);
	memcpy(in, RH + RCUR.in_off, k);
	RST->next_in = in;
	RST->avail_in = (uint32_t)k;
	/* caller buffers: guard-arena copies of exactly the announced size (realloc semantics: delivered bytes are kept) */
	uint8_t *nb = R_NAME_NULL ? NULL : g_alloc(RCUR.nb, G_END), *cb = R_COMM_NULL ? NULL : g_alloc(RCUR.cb, G_END), *eb = R_EXTRA_NULL ? NULL : g_alloc(RCUR.eb, G_END);
	if (nb) memcpy(nb, RNAME, RCUR.nb);
	if (cb) memcpy(cb, RCOMM, RCUR.cb);
	if (eb) memcpy(eb, REXTRA, RCUR.eb);
	RHD.name = (char *)nb; RHD.name_buf_len = RCUR.nb;
	RHD.comment = (char *)cb; RHD.comment_buf_len = RCUR.cb;
	RHD.extra = eb; RHD.extra_buf_len = RCUR.eb;
	int bs = RST->block_state;
	int ret;
	snprintf(key, sizeof key, "isal_read_gzip_header %s", rdesc);
	if (V_TRY()) {
		ret = isal_read_gzip_header(RST, &RHD);
		V_END();
	} else {
		v_violation(key, "fault at %s addr=%p (%s); chunks [%s]", v_sym(v_fault_rip), (void *)v_fault_addr, v_fault_write ? "write" : "read", ex_path_str(&r_model));
		g_reset();
		nfail++;
		return EX_VIOLATION;
	}
	size_t consumed = k - RST->avail_in;
	if (nb) memcpy(RNAME, nb, RCUR.nb);
	if (cb) memcpy(RCOMM, cb, RCUR.cb);
	if (eb) memcpy(REXTRA, eb, RCUR.eb);
	int dmg = g_check();
	g_reset();
	RCUR.in_off += consumed;
	RCUR.last = ret;
	int bad = 0;
	if (dmg) {
		v_violation(key, "%s; chunks [%s]", g_last_damage(), ex_path_str(&r_model));
		bad = 1;
	} else if (RST->avail_in > k) {
		v_violation(key, "avail_in grew; chunks [%s]", ex_path_str(&r_model));
		bad = 1;
	} else if ((ret == ISAL_NAME_OVERFLOW && R_NAME_NULL) || (ret == ISAL_COMMENT_OVERFLOW && R_COMM_NULL) || (ret == ISAL_EXTRA_OVERFLOW && R_EXTRA_NULL)) {
		/* igzip_lib.h: a NULL buffer means the field is parsed and discarded; there is nothing that could overflow */
		v_violation(key, "returned %d (overflow) for a field the caller asked to discard (buffer pointer NULL); chunks [%s]", ret, ex_path_str(&r_model));
		bad = 1;
	} else if (ret == ISAL_NAME_OVERFLOW && !R_NAME_NULL) {
		RCUR.nb = R_GROW ? RCUR.nb + 1 : (uint32_t)strlen(RWANT.name) + 1;
	} else if (ret == ISAL_COMMENT_OVERFLOW && !R_COMM_NULL) {
		RCUR.cb = R_GROW ? RCUR.cb + 1 : (uint32_t)strlen(RWANT.comment) + 1;
	} else if (ret == ISAL_EXTRA_OVERFLOW && !R_EXTRA_NULL) {
		RCUR.eb = R_GROW ? RCUR.eb + 1 : (uint32_t)RWANT.extra_len;
	} else if (ret == ISAL_END_INPUT) {
		if (RST->avail_in != 0) {
			v_violation(key, "ISAL_END_INPUT with %u input bytes left; chunks [%s]", RST->avail_in, ex_path_str(&r_model));
			bad = 1;
		} else if (k > 0 && consumed == 0 && (int)RST->block_state == bs) {
			v_violation(key, "no progress on %zu fresh input bytes; chunks [%s]", k, ex_path_str(&r_model));
			bad = 1;
		}
	} else if (ret == ISAL_DECOMP_OK) {
		RCUR.done = 1;
		int want_flags_extra = RWANT.extra_len >= 0;
		if (RCUR.in_off != RHLEN) {
			v_violation(key, "parser stopped at offset %u, the compressed data starts at %zu; chunks [%s]", RCUR.in_off, RHLEN, ex_path_str(&r_model));
			bad = 1;
		} else if (RHD.text != (uint32_t)RWANT.text || RHD.time != RWANT.mtime || RHD.xflags != (uint32_t)RWANT.xfl || RHD.os != (uint32_t)RWANT.os) {
			v_violation(key, "fixed fields differ: text %u time %x xflags %u os %u; chunks [%s]", RHD.text, RHD.time, RHD.xflags, RHD.os, ex_path_str(&r_model));
			bad = 1;
		} else if (want_flags_extra && (RHD.extra_len != (uint32_t)RWANT.extra_len || (!R_EXTRA_NULL && memcmp(REXTRA, RWANT.extra, RWANT.extra_len)))) {
			v_violation(key, "extra field differs (len %u vs %d); chunks [%s]", RHD.extra_len, RWANT.extra_len, ex_path_str(&r_model));
			bad = 1;
		} else if (RWANT.name && !R_NAME_NULL && strcmp((char *)RNAME, RWANT.name)) {
			v_violation(key, "name '%s' expected '%s'; chunks [%s]", (char *)RNAME, RWANT.name, ex_path_str(&r_model));
			bad = 1;
		} else if (RWANT.comment && !R_COMM_NULL && strcmp((char *)RCOMM, RWANT.comment)) {
			v_violation(key, "comment '%s' expected '%s'; chunks [%s]", (char *)RCOMM, RWANT.comment, ex_path_str(&r_model));
			bad = 1;
		}
		/* the state after a chunked parse must be as good as the state after a one-call parse: on a COPY of it, (a) the payload is
		 * inflated in two pieces (1 byte, then the rest: the block header is incomplete in the first call) and (b) the same header is
		 * parsed once more; return codes, block state, counters and output must equal those of a state that parsed the header in one call */
		if (!bad) {
			static struct inflate_state cont[2], ref1;
			int obs[2][10];
			for (int which = 0; which < 2; which++) {
				struct isal_gzip_header gh2;
				uint8_t ob[32];
				if (which == 0)
					memcpy(&cont[0], RST, sizeof cont[0]);
				else {
					isal_inflate_init(&cont[1]);
					isal_gzip_header_init(&gh2);
					cont[1].next_in = (uint8_t *)RH; cont[1].avail_in = (uint32_t)RHLEN;
					if (isal_read_gzip_header(&cont[1], &gh2) != ISAL_DECOMP_OK)
						v_broken("one-call header parse failed on a header the chunked parse accepted");
				}
				/* (b) first, on its own copy: a second header right behind the first one */
				memcpy(&ref1, &cont[which], sizeof ref1);
				isal_gzip_header_init(&gh2);
				ref1.next_in = (uint8_t *)RH; ref1.avail_in = (uint32_t)RHLEN;
				ref1.block_state = ISAL_BLOCK_NEW_HDR;
				obs[which][7] = isal_read_gzip_header(&ref1, &gh2);
				obs[which][8] = ref1.avail_in;
				/* (a) payload: an empty call, one byte, the rest */
				struct inflate_state *c = &cont[which];
				memset(ob, 0, sizeof ob);
				c->next_in = (uint8_t *)RH + RHLEN; c->avail_in = 0; c->next_out = ob; c->avail_out = sizeof ob;
				obs[which][9] = isal_inflate(c);
				c->next_in = (uint8_t *)RH + RHLEN; c->avail_in = 1;
				obs[which][0] = isal_inflate(c);
				obs[which][1] = c->avail_in;
				c->next_in = (uint8_t *)RH + RHLEN + 1; c->avail_in = (uint32_t)(RTOTAL - RHLEN - 1);
				obs[which][2] = isal_inflate(c);
				obs[which][3] = c->block_state; obs[which][4] = c->avail_in; obs[which][5] = c->total_out; obs[which][6] = ob[0];
			}
			if (memcmp(obs[0], obs[1], sizeof obs[0])) {
				v_violation(key, "continuing on the state left by the chunked parse differs from continuing after a one-call parse: inflate(1 byte) %d/%d left %d/%d, inflate(rest) %d/%d state %d/%d "
					    "left %d/%d out %d/%d, second header parse %d/%d (left %d/%d), empty call %d/%d; chunks [%s]", obs[0][0], obs[1][0], obs[0][1], obs[1][1], obs[0][2], obs[1][2], obs[0][3], obs[1][3], obs[0][4], obs[1][4],
					    obs[0][5], obs[1][5], obs[0][7], obs[1][7], obs[0][8], obs[1][8], obs[0][9], obs[1][9], ex_path_str(&r_model));
				bad = 1;
			}
			v_count("continuations_compared", 1);
		}
		v_outcome(v_hash(&RCUR, sizeof RCUR, 0));
		if (!bad)
			return EX_TERMINAL;
	} else {
		v_violation(key, "unexpected status %d on a valid header; chunks [%s]", ret, ex_path_str(&r_model));
		bad = 1;
	}
	if (bad) {
		nfail++;
		return EX_VIOLATION;
	}
	return EX_NEXT;
}
static const struct ex_model r_model = { 0, r_save, r_restore, r_key, 4, r_step, NULL, r_describe, NULL };

static void gzip_reader(void)
{
	static const uint8_t ex5[255] = { 9, 8, 7, 6, 5 };
	static const int exl[] = { -1, 0, 1, 5, 255 };
	const char *names[] = { NULL, "", "a", "name-of-twenty-chars" };
	const char *comments[] = { NULL, "", "c", "a comment of 23 chars.." };
	static uint8_t hb[2048];
	RST = g_persist(sizeof *RST, G_END);
	struct ex_model m = r_model;
	m.image_size = r_img();
	uint64_t unit = 0;
	for (int ei = 0; ei < 5; ei++)
		for (int ni = 0; ni < 4; ni++)
			for (int ci = 0; ci < 4; ci++)
				for (int hcrc = 0; hcrc < 2; hcrc++)
					for (int bufmode = 0; bufmode < 14; bufmode++)
						for (int grow = 0; grow < 2; grow++) {
							if (!v_mine(unit++))
								continue;
							if (nfail > 20 || v_deadline_hit())
								return;
							struct rh_gzip rh = { (ei + ni) & 1, 0x01020304u + ei, ni == 1 ? 2 : 4, ci == 2 ? 3 : 0xff, ex5, exl[ei], names[ni], comments[ci], hcrc };
							RWANT = rh;
							RHLEN = rh_gzip_write(hb, &rh);
							hb[RHLEN] = 0x03; hb[RHLEN + 1] = 0x00; hb[RHLEN + 2] = 0xEE;
							RTOTAL = RHLEN + 3;
							RH = hb;
							size_t nl = names[ni] ? strlen(names[ni]) + 1 : 1, cl = comments[ci] ? strlen(comments[ci]) + 1 : 1, el = exl[ei] > 0 ? exl[ei] : 0;
							/* buffer size modes: NULL, 0, 1, len-1, len (exact incl. NUL), len+1, generous */
							R_NAME_NULL = R_COMM_NULL = R_EXTRA_NULL = bufmode == 0 || bufmode == 7; /* 7: NULL pointers with capacity 0, as isal_gzip_header_init leaves them */
							uint32_t nb = bufmode == 1 || bufmode == 7 ? 0 : bufmode == 2 ? 1 : bufmode == 3 ? (uint32_t)(nl - 1) : bufmode == 4 ? (uint32_t)nl : bufmode == 5 ? (uint32_t)nl + 1 : 400;
							uint32_t cb = bufmode == 1 || bufmode == 7 ? 0 : bufmode == 2 ? 1 : bufmode == 3 ? (uint32_t)(cl - 1) : bufmode == 4 ? (uint32_t)cl : bufmode == 5 ? (uint32_t)cl + 1 : 400;
							uint32_t eb = bufmode == 1 || bufmode == 7 ? 0 : bufmode == 2 ? 1 : bufmode == 3 ? (uint32_t)(el ? el - 1 : 0) : bufmode == 4 ? (uint32_t)el : bufmode == 5 ? (uint32_t)el + 1 : 400;
							/* 8..13: every proper, non-empty subset of the three fields is discarded (NULL, capacity 0) while the others are
							 * collected into exact-size (header CRC present) or generous buffers */
							int nullmask = bufmode >= 8 ? bufmode - 7 : 0;
							if (nullmask) {
								R_NAME_NULL = nullmask & 1; R_COMM_NULL = nullmask >> 1 & 1; R_EXTRA_NULL = nullmask >> 2 & 1;
								nb = R_NAME_NULL ? 0 : hcrc ? (uint32_t)nl : 400;
								cb = R_COMM_NULL ? 0 : hcrc ? (uint32_t)cl : 400;
								eb = R_EXTRA_NULL ? 0 : hcrc ? (uint32_t)el : 400;
							}
							if ((bufmode == 0 || bufmode == 7 || nullmask) && grow)
								continue;
							R_GROW = grow;
							if (grow && (nl > 6 || cl > 6 || el > 6) && bufmode < 3)
								continue; /* +1 growth from tiny buffers on long fields: many overflows, covered by the short fields */
							snprintf(rdesc, sizeof rdesc, "extra=%d name=%d comment=%d hcrc=%d buffers=%s growth=%s", exl[ei], ni, ci, hcrc,
								 nullmask ? (nullmask == 1 ? "name-NULL" : nullmask == 2 ? "comment-NULL" : nullmask == 3 ? "name+comment-NULL" : nullmask == 4 ? "extra-NULL" : nullmask == 5 ? "name+extra-NULL" : "comment+extra-NULL") : bufmode == 0 ? "NULL" : bufmode == 7 ? "NULL/capacity-0" : bufmode == 1 ? "0" : bufmode == 2 ? "1" : bufmode == 3 ? "len-1" : bufmode == 4 ? "len" : bufmode == 5 ? "len+1" : "400", grow ? "+1" : "to-fit");
							isal_inflate_init(RST);
							isal_gzip_header_init(&RHD);
							memset(RNAME, 0xCC, sizeof RNAME); memset(RCOMM, 0xCC, sizeof RCOMM); memset(REXTRA, 0xCC, sizeof REXTRA);
							memset(&RCUR, 0, sizeof RCUR);
							RCUR.nb = nb; RCUR.cb = cb; RCUR.eb = eb;
							struct ex_stats st = { 0 };
							g_strict_free = 1;
							ex_run(&m, &st, 2000000);
							g_strict_free = 0;
							v_count("states", st.states);
							v_count("transitions", st.transitions);
							v_count("traces_validated_against_impl", st.terminals);
							v_count("reader_graphs", 1);
							v_eval_n(st.transitions);
							if (st.capped)
								v_not_exhaustive("a header-reader graph was capped");
							v_nontrivial(v_hash(rdesc, strlen(rdesc), 0));
						}
}

/* huge avail_in: a caller that has mapped a multi-GiB file hands the whole mapping over in one call (avail_in is a uint32_t, anything up
 * to 2^32-1 is legal). The header readers and the inflate entry points must parse the header exactly as with a small buffer: same
 * fields, same stop position. The region behind the header is a zero-page-backed MAP_NORESERVE mapping; only the header is written. */
#include <sys/mman.h>
static void huge_avail_in(void)
{
	static const uint64_t ains[] = { (1ull << 31) - 1, 1ull << 31, (1ull << 31) + 4096, (1ull << 32) - 1 };
	static const uint8_t ex3[3] = { 7, 8, 9 };
	size_t maplen = (1ull << 32) + (1 << 20);
	uint8_t *map = mmap(NULL, maplen, PROT_READ | PROT_WRITE, MAP_PRIVATE | MAP_ANONYMOUS | MAP_NORESERVE, -1, 0);
	if (map == MAP_FAILED) {
		v_note("huge avail_in part skipped: cannot reserve 4 GiB of address space");
		v_not_exhaustive("huge avail_in part skipped");
		return;
	}
	char key[300];
	static char nbuf[64], cbuf[64];
	static uint8_t ebuf[16];
	for (int hv = 0; hv < 4; hv++)
		for (int ai = 0; ai < 4; ai++)
			for (int nul = 0; nul < 2; nul++) {
				struct rh_gzip rh = { hv & 1, 0x11223344, 2, 3, ex3, hv == 3 ? 3 : -1, hv >= 1 ? "file-name.txt" : NULL, hv >= 2 ? "a comment" : NULL, hv == 3 };
				memset(map, 0, 4096);
				size_t hl = rh_gzip_write(map, &rh);
				map[hl] = 0x03; map[hl + 1] = 0x00; /* empty final fixed block, then zeros */
				struct inflate_state *st = g_alloc(sizeof *st, G_END);
				struct isal_gzip_header gh;
				isal_inflate_init(st);
				isal_gzip_header_init(&gh);
				if (!nul) {
					gh.name = nbuf; gh.name_buf_len = sizeof nbuf;
					gh.comment = cbuf; gh.comment_buf_len = sizeof cbuf;
					gh.extra = ebuf; gh.extra_buf_len = sizeof ebuf;
				}
				memset(nbuf, 0xCC, sizeof nbuf); memset(cbuf, 0xCC, sizeof cbuf);
				st->next_in = map; st->avail_in = (uint32_t)ains[ai];
				int r = -999;
				snprintf(key, sizeof key, "isal_read_gzip_header huge avail_in=%llu header=%s buffers=%s", (unsigned long long)ains[ai], hv == 0 ? "plain" : hv == 1 ? "name" : hv == 2 ? "name+comment" : "extra+name+comment+hcrc",
					 nul ? "NULL" : "given");
				if (V_TRY()) {
					r = isal_read_gzip_header(st, &gh);
					V_END();
				} else {
					v_violation(key, "%s", v_fault_desc());
					nfail++;
					g_reset();
					continue;
				}
				v_eval();
				if (r != ISAL_DECOMP_OK || (size_t)(st->next_in - map) != hl || st->avail_in != (uint32_t)ains[ai] - hl) {
					v_violation(key, "returned %d, consumed %zu of a %zu-byte header, avail_in %u (expected %llu)", r, (size_t)(st->next_in - map), hl, st->avail_in, (unsigned long long)(ains[ai] - hl));
					nfail++;
				} else if (!nul && ((rh.name && strcmp(nbuf, rh.name)) || (rh.comment && strcmp(cbuf, rh.comment)) || gh.time != rh.mtime || gh.os != 3)) {
					v_violation(key, "fields differ from the header written");
					nfail++;
				}
				/* the same member through the inflate entry points (header + empty block + trailer of an empty message) */
				memset(map + hl + 2, 0, 8);
				for (int api = 0; api < 2; api++) {
					uint8_t ob[16];
					isal_inflate_init(st);
					st->crc_flag = ISAL_GZIP;
					st->next_in = map; st->avail_in = (uint32_t)ains[ai]; st->next_out = ob; st->avail_out = sizeof ob;
					int ri = -999;
					if (V_TRY()) {
						ri = api ? isal_inflate(st) : isal_inflate_stateless(st);
						V_END();
					} else {
						v_violation(key, "%s: %s", api ? "isal_inflate" : "isal_inflate_stateless", v_fault_desc());
						nfail++;
						continue;
					}
					v_eval();
					if (ri != ISAL_DECOMP_OK || st->block_state != ISAL_BLOCK_FINISH || (size_t)(st->next_in - map) != hl + 10 || st->total_out != 0) {
						v_violation(key, "%s on the whole member: returned %d, state %d, consumed %zu (member is %zu bytes)", api ? "isal_inflate" : "isal_inflate_stateless", ri, st->block_state, (size_t)(st->next_in - map), hl + 10);
						nfail++;
					}
				}
				g_reset();
				v_count("huge_avail_in_cases", 1);
				v_nontrivial(v_mix(0x4a11 + hv, ai * 2 + nul));
			}
	/* zlib header reader */
	for (int ai = 0; ai < 4; ai++)
		for (int dict = 0; dict < 2; dict++) {
			struct inflate_state *st = g_alloc(sizeof *st, G_END);
			struct isal_zlib_header zh;
			memset(map, 0, 64);
			struct rh_zlib rz = { 7, 2, dict, 0x01020304 };
			size_t hl = rh_zlib_write(map, &rz);
			isal_inflate_init(st);
			isal_zlib_header_init(&zh);
			st->next_in = map; st->avail_in = (uint32_t)ains[ai];
			int r = -999;
			snprintf(key, sizeof key, "isal_read_zlib_header huge avail_in=%llu dict=%d", (unsigned long long)ains[ai], dict);
			if (V_TRY()) {
				r = isal_read_zlib_header(st, &zh);
				V_END();
				v_eval();
				if (r != ISAL_DECOMP_OK || (size_t)(st->next_in - map) != hl || zh.info != 7 || zh.dict_flag != (uint32_t)dict || (dict && zh.dict_id != 0x01020304)) {
					v_violation(key, "returned %d, consumed %zu of %zu, info %u dict_flag %u dict_id %08x", r, (size_t)(st->next_in - map), hl, zh.info, zh.dict_flag, zh.dict_id);
					nfail++;
				}
			} else {
				v_violation(key, "%s", v_fault_desc());
				nfail++;
			}
			g_reset();
		}
	munmap(map, maplen);
}

/* long strings: FNAME / FCOMMENT longer than 64 KiB (RFC 1952 sets no limit), parsed in one call, with the input split at positions
 * deep inside each string, and with a too-small caller buffer that is grown and the parse resumed there. All internal offsets that
 * track the position inside a string must be wide enough; the recovered strings must be byte-identical. */
static void long_strings(void)
{
	static const int nls[] = { 40, 65534, 65535, 65536, 70000 }, cls[] = { 20, 65535, 65537, 90000 };
	static char *name, *comm;
	static uint8_t *hb, *nbuf, *cbuf;
	if (!name) {
		name = malloc(100001); comm = malloc(100001);
		hb = malloc(210000); nbuf = malloc(100001); cbuf = malloc(100001);
	}
	char key[300];
	uint64_t unit = 555000;
	for (int ni = 0; ni < 5; ni++)
		for (int ci = 0; ci < 4; ci++) {
			int nl = nls[ni], cl = cls[ci];
			for (int i = 0; i < nl; i++) name[i] = (char)('A' + (i * 7 + i / 251) % 26);
			name[nl] = 0;
			for (int i = 0; i < cl; i++) comm[i] = (char)('a' + (i * 11 + i / 257) % 26);
			comm[cl] = 0;
			struct rh_gzip rh = { 0, 0x11223344, 2, 3, NULL, -1, name, comm, 1 };
			size_t hl = rh_gzip_write(hb, &rh);
			hb[hl] = 0x03; hb[hl + 1] = 0x00;
			size_t total = hl + 2, nstart = 10, cstart = 10 + nl + 1;
			/* resume points: inside the name and the comment, shallow and deeper than 64 KiB */
			size_t pts[24];
			int np = 0;
			pts[np++] = 0; /* one call */
			const size_t deep[] = { 5, 65530, 65535, 65536, 65537, 69000 };
			for (int k = 0; k < 6; k++) {
				if (deep[k] < (size_t)nl) pts[np++] = nstart + deep[k];
				if (deep[k] < (size_t)cl) pts[np++] = cstart + deep[k];
			}
			for (int pi = 0; pi < np; pi++)
				for (int how = 0; how < 2; how++) { /* 0: input split at the point; 1: caller buffer too small up to the point, then grown */
					if (pi == 0 && how)
						continue;
					if (!v_mine(unit++))
						continue;
					if (nfail > 20 || v_deadline_hit())
						return;
					struct inflate_state *st = g_alloc(sizeof *st, G_END);
					struct isal_gzip_header *h = g_alloc(sizeof *h, G_END);
					memset(nbuf, 0xCC, 100001); memset(cbuf, 0xCC, 100001);
					isal_inflate_init(st);
					isal_gzip_header_init(h);
					h->name = (char *)nbuf; h->comment = (char *)cbuf;
					h->name_buf_len = nl + 1; h->comment_buf_len = cl + 1;
					size_t split = pts[pi];
					int in_name = split >= nstart && split < cstart;
					if (how) { /* buffer holds exactly the bytes in front of the resume point */
						if (in_name) h->name_buf_len = split - nstart; else h->comment_buf_len = split - cstart;
					}
					snprintf(key, sizeof key, "isal_read_gzip_header long strings name=%d comment=%d %s %zu bytes into the %s", nl, cl, pi == 0 ? "one call" : how ? "buffer overflow + resume" : "input split", pi == 0 ? 0 : in_name ? split - nstart : split - cstart,
						 pi == 0 ? "header" : in_name ? "name" : "comment");
					int ret = -999, calls = 0, bad = 0;
					size_t ipos = 0;
					if (V_TRY()) {
						size_t k = (pi && !how) ? split : total;
						uint8_t *in = g_alloc(k, G_END);
						memcpy(in, hb, k);
						st->next_in = in; st->avail_in = k;
						for (;;) {
							ret = isal_read_gzip_header(st, h);
							calls++;
							if (ret == ISAL_END_INPUT && st->avail_in == 0 && ipos + k < total) { /* second input piece */
								ipos += k;
								size_t k2 = total - ipos;
								uint8_t *in2 = g_alloc(k2, G_END);
								memcpy(in2, hb + ipos, k2);
								st->next_in = in2; st->avail_in = k2;
								k = k2;
								continue;
							}
							if (ret == ISAL_NAME_OVERFLOW && how && in_name && h->name_buf_len < (uint32_t)nl + 1) { h->name_buf_len = nl + 1; continue; }
							if (ret == ISAL_COMMENT_OVERFLOW && how && !in_name && h->comment_buf_len < (uint32_t)cl + 1) { h->comment_buf_len = cl + 1; continue; }
							break;
						}
						ipos += k - st->avail_in;
						V_END();
					} else {
						v_violation(key, "%s", v_fault_desc());
						nfail++;
						g_reset();
						continue;
					}
					v_eval();
					if (ret != ISAL_DECOMP_OK) {
						v_violation(key, "returned %d after %d calls", ret, calls);
						bad = 1;
					} else if (ipos != hl) {
						v_violation(key, "stopped at offset %zu, the compressed data starts at %zu", ipos, hl);
						bad = 1;
					} else if (memcmp(nbuf, name, nl + 1)) {
						size_t i = 0;
						while (nbuf[i] == (uint8_t)name[i]) i++;
						v_violation(key, "name differs (first mismatch at byte %zu of %d)", i, nl);
						bad = 1;
					} else if (memcmp(cbuf, comm, cl + 1)) {
						size_t i = 0;
						while (cbuf[i] == (uint8_t)comm[i]) i++;
						v_violation(key, "comment differs (first mismatch at byte %zu of %d)", i, cl);
						bad = 1;
					} else if (nbuf[nl + 1] != 0xCC || cbuf[cl + 1] != 0xCC) {
						v_violation(key, "wrote behind the announced buffer length");
						bad = 1;
					}
					nfail += bad;
					g_reset();
					v_count("long_string_headers", 1);
					v_nontrivial(v_mix(0x1095 + ni * 4 + ci, pi * 2 + how));
				}
		}
}

/* zlib reader: all compositions of the header into chunks + RFC byte order of DICTID */
static void zlib_reader(void)
{
	static const uint32_t ids[] = { 0, 1, 0x01020304, 0x80000000u, 0xffffffffu };
	char key[300];
	for (int info = 0; info < 8; info++)
		for (int level = 0; level < 4; level++)
			for (int df = 0; df < 2; df++)
				for (int ii = 0; ii < (df ? 5 : 1); ii++) {
					uint8_t hb[16];
					struct rh_zlib rz = { info, level, df, ids[ii] };
					size_t hl = rh_zlib_write(hb, &rz);
					hb[hl] = 0x03; hb[hl + 1] = 0x00;
					size_t total = hl + 2;
					/* every composition of the first hl+1 bytes into chunks (bit i set = cut after byte i), plus empty calls between */
					for (uint32_t cuts = 0; cuts < (1u << hl); cuts++) {
						struct inflate_state *st = g_alloc(sizeof *st, G_END);
						struct isal_zlib_header zh;
						isal_inflate_init(st);
						isal_zlib_header_init(&zh);
						size_t off = 0;
						int ret = ISAL_END_INPUT, calls = 0;
						snprintf(key, sizeof key, "isal_read_zlib_header info=%d level=%d dict_flag=%d dict_id=%08x cuts=%x", info, level, df, ids[ii], cuts);
						while (off < total && ret == ISAL_END_INPUT && calls < 20) {
							size_t end = off + 1;
							while (end < total && !(cuts >> (end - 1) & 1) && end <= hl)
								end++;
							if (end > hl)
								end = total;
							size_t k = end - off;
							uint8_t *in = g_alloc(k, G_END);
							memcpy(in, hb + off, k);
							st->next_in = in; st->avail_in = (uint32_t)k;
							if (V_TRY()) {
								ret = isal_read_zlib_header(st, &zh);
								V_END();
							} else {
								v_violation(key, "fault at %s", v_sym(v_fault_rip));
								nfail++;
								break;
							}
							off += k - st->avail_in;
							calls++;
						}
						v_eval();
						if (ret != ISAL_DECOMP_OK || off != hl || zh.info != (uint32_t)info || zh.level != (uint32_t)level || zh.dict_flag != (uint32_t)df || (df && zh.dict_id != ids[ii])) {
							v_violation(df && ret == 0 && zh.dict_id != ids[ii] ? "isal_read_zlib_header DICTID byte order" : key,
								    "status %d stopped at %zu (header is %zu bytes); info %u level %u dict_flag %u dict_id %08x, written per RFC 1950: info %d level %d dict_flag %d dict_id %08x (bytes %s)", ret, off,
								    hl, zh.info, zh.level, zh.dict_flag, zh.dict_id, info, level, df, ids[ii], v_hex(hb, hl));
							nfail++;
						} else
							v_count("zlib_header_chunkings", 1);
						g_reset();
						if (nfail > 30)
							return;
					}
				}
}

/* arbitrary bytes as headers: documented status, no out-of-bounds access, no progress-free loop */
static void arbitrary(void)
{
	char key[200];
	for (int len = 0; len <= 3; len++) {
		uint32_t n = len == 0 ? 1 : 1u << (8 * len);
		for (uint32_t v = 0; v < n; v++) {
			if (!v_mine(v))
				continue;
			if (len == 3 && !v_thorough && (v >> 16) != 0x08 && (v & 0xffff) != 0x8b1f)
				continue;
			uint8_t b[4] = { (uint8_t)v, (uint8_t)(v >> 8), (uint8_t)(v >> 16), 0 };
			for (int which = 0; which < 2; which++)
				for (int bytewise = 0; bytewise < 2; bytewise++) {
					struct inflate_state *st = g_alloc(sizeof *st, G_END);
					struct isal_gzip_header gh;
					struct isal_zlib_header zh;
					char nbuf[8], cbuf[8];
					uint8_t ebuf[8];
					isal_inflate_init(st);
					isal_gzip_header_init(&gh);
					isal_zlib_header_init(&zh);
					gh.name = nbuf; gh.name_buf_len = sizeof nbuf; gh.comment = cbuf; gh.comment_buf_len = sizeof cbuf; gh.extra = ebuf; gh.extra_buf_len = sizeof ebuf;
					size_t off = 0;
					int ret = ISAL_END_INPUT, calls = 0;
					snprintf(key, sizeof key, "%s arbitrary bytes %s %s", which ? "isal_read_zlib_header" : "isal_read_gzip_header", v_hex(b, len), bytewise ? "bytewise" : "one call");
					while (ret == ISAL_END_INPUT && calls < 12) {
						size_t k = bytewise ? (off < (size_t)len ? 1 : 0) : len - off;
						uint8_t *in = g_alloc(k, G_END);
						memcpy(in, b + off, k);
						st->next_in = in; st->avail_in = (uint32_t)k;
						if (V_TRY()) {
							ret = which ? isal_read_zlib_header(st, &zh) : isal_read_gzip_header(st, &gh);
							V_END();
						} else {
							v_violation(key, "fault at %s addr=%p", v_sym(v_fault_rip), (void *)v_fault_addr);
							nfail++;
							break;
						}
						off += k - st->avail_in;
						calls++;
						if (off >= (size_t)len && k == 0)
							break;
					}
					v_eval();
					int ok = ret == ISAL_DECOMP_OK || ret == ISAL_END_INPUT || ret == ISAL_INVALID_WRAPPER || ret == ISAL_UNSUPPORTED_METHOD || ret == ISAL_INCORRECT_CHECKSUM ||
						 ret == ISAL_NAME_OVERFLOW || ret == ISAL_COMMENT_OVERFLOW || ret == ISAL_EXTRA_OVERFLOW;
					if (!ok) {
						v_violation(key, "undocumented status %d", ret);
						nfail++;
					}
					if (g_check()) {
						v_violation(key, "%s", g_last_damage());
						nfail++;
					}
					g_reset();
				}
		}
	}
}


/* recycled state objects: a caller that gives up on a member whose header stops short (every prefix of the header is tried, handed to
 * isal_read_gzip_header or to isal_inflate in gzip mode) calls isal_inflate_reset() on the SAME state object and parses the next member's
 * header with fresh buffers. isal_inflate_reset() is documented to prepare the state for a new stream: the second header must be
 * delivered exactly as with a state fresh from isal_inflate_init() - same return, fields, stop position - in one call and in two. */
static void recycled_state(void)
{
	static const uint8_t ex5[255] = { 9, 8, 7, 6, 5 };
	static const int exl[] = { -1, 5, 255 };
	const char *names[] = { NULL, "a", "name-of-twenty-chars" };
	const char *comments[] = { NULL, "c", "a comment of 23 chars.." };
	static uint8_t h1[1024], h2[1024];
	/* the second member's header: all optional fields, or exactly one of them (whatever the first parse left behind is then not overwritten by an earlier field) */
	static const struct rh_gzip wants[4] = { { 1, 0x55667788u, 2, 3, (const uint8_t *)"\x01\x02\x03\x04\x05\x06\x07", 7, "second.member", "its comment", 1 },
						 { 0, 0x55667788u, 2, 3, NULL, -1, "second.member", NULL, 0 },
						 { 1, 0x55667788u, 0, 3, NULL, -1, NULL, "its comment", 1 },
						 { 0, 0x55667788u, 2, 3, (const uint8_t *)"\x01\x02\x03\x04\x05\x06\x07", 7, NULL, NULL, 0 } };
	size_t l2 = 0;
	uint64_t unit = 777000;
	char key[400];
	for (int ei = 0; ei < 3; ei++)
		for (int ni = 0; ni < 3; ni++)
			for (int ci = 0; ci < 3; ci++)
				for (int hcrc = 0; hcrc < 2; hcrc++) {
					if (!v_mine(unit++))
						continue;
					if (nfail > 20 || v_deadline_hit())
						return;
					struct rh_gzip rh = { 0, 0x01020304u, 4, 0xff, ex5, exl[ei], names[ni], comments[ci], hcrc };
					size_t l1 = rh_gzip_write(h1, &rh);
					for (size_t cut = 1; cut < l1; cut++)
						for (int via = 0; via < 3; via++)      /* 0 header reader, generous buffers; 1 header reader, NULL buffers; 2 isal_inflate in gzip mode */
							for (int sec = 0; sec < 8; sec++) { /* second header in one call / split after 11 bytes, x 4 field sets */
								int second = sec & 1;
								const struct rh_gzip want = wants[sec >> 1];
								l2 = rh_gzip_write(h2, &want);
								h2[l2] = 0x03; h2[l2 + 1] = 0x00;
								const char *wn = want.name ? want.name : "", *wc = want.comment ? want.comment : "";
								uint32_t wel = want.extra_len > 0 ? want.extra_len : 0;
								struct inflate_state *st = g_alloc(sizeof *st, (cut + via) & 1 ? G_END : G_START);
								struct isal_gzip_header hd;
								uint8_t nb[64], cb[64], eb[300], ob[16];
								int ret1 = -999, ret2 = -999, bad = 0;
								size_t stop = 0;
								snprintf(key, sizeof key, "reader after isal_inflate_reset: first member extra=%d name=%d comment=%d hcrc=%d abandoned after %zu of %zu header bytes via %s; second header (%s) in %s", exl[ei], ni, ci, hcrc,
									 cut, l1, via == 0 ? "isal_read_gzip_header" : via == 1 ? "isal_read_gzip_header(NULL buffers)" : "isal_inflate(ISAL_GZIP)", sec >> 1 == 0 ? "all fields" : sec >> 1 == 1 ? "name only" : sec >> 1 == 2 ? "comment only" : "extra only", second ? "two calls" : "one call");
								if (V_TRY()) {
									memset(st, 0xA5, sizeof *st);
									isal_inflate_init(st);
									isal_gzip_header_init(&hd);
									if (via == 0) {
										hd.name = (char *)nb; hd.name_buf_len = sizeof nb; hd.comment = (char *)cb; hd.comment_buf_len = sizeof cb; hd.extra = eb; hd.extra_buf_len = sizeof eb;
									}
									uint8_t *in = g_alloc(cut, G_END);
									memcpy(in, h1, cut);
									st->next_in = in; st->avail_in = cut;
									if (via == 2) {
										st->crc_flag = ISAL_GZIP; st->next_out = ob; st->avail_out = sizeof ob;
										ret1 = isal_inflate(st);
									} else
										ret1 = isal_read_gzip_header(st, &hd);
									isal_inflate_reset(st);
									isal_gzip_header_init(&hd);
									memset(nb, 0xCC, sizeof nb); memset(cb, 0xCC, sizeof cb); memset(eb, 0xCC, sizeof eb);
									hd.name = (char *)nb; hd.name_buf_len = sizeof nb; hd.comment = (char *)cb; hd.comment_buf_len = sizeof cb; hd.extra = eb; hd.extra_buf_len = sizeof eb;
									size_t k = second ? 11 : l2 + 2;
									uint8_t *in2 = g_alloc(k, G_END);
									memcpy(in2, h2, k);
									st->next_in = in2; st->avail_in = k;
									ret2 = isal_read_gzip_header(st, &hd);
									stop = k - st->avail_in;
									if (second && ret2 == ISAL_END_INPUT && st->avail_in == 0) {
										size_t k2 = l2 + 2 - k;
										uint8_t *in3 = g_alloc(k2, G_END);
										memcpy(in3, h2 + k, k2);
										st->next_in = in3; st->avail_in = k2;
										ret2 = isal_read_gzip_header(st, &hd);
										stop = k + k2 - st->avail_in;
									}
									V_END();
								} else {
									v_violation(key, "%s", v_fault_desc());
									nfail++;
									g_reset();
									continue;
								}
								v_eval();
								if (via != 2 && ret1 != ISAL_END_INPUT) {
									v_violation(key, "truncated first header returned %d, expected ISAL_END_INPUT", ret1);
									bad = 1;
								} else if (ret2 != ISAL_DECOMP_OK) {
									v_violation(key, "second header returned %d", ret2);
									bad = 1;
								} else if (stop != l2) {
									v_violation(key, "second header stopped at offset %zu, compressed data starts at %zu", stop, l2);
									bad = 1;
								} else if ((want.name && strcmp((char *)nb, wn)) || (want.comment && strcmp((char *)cb, wc)) || hd.extra_len != wel || (wel && memcmp(eb, want.extra, wel)) || eb[wel] != 0xCC ||
									   nb[want.name ? strlen(wn) + 1 : 0] != 0xCC || cb[want.comment ? strlen(wc) + 1 : 0] != 0xCC) {
									nb[63] = cb[63] = 0;
									v_violation(key, "second header fields differ: name '%.40s' comment '%.40s' extra_len %u", (char *)nb, (char *)cb, hd.extra_len);
									bad = 1;
								} else if (hd.time != want.mtime || hd.xflags != want.xfl || hd.os != want.os || hd.text != (uint32_t)want.text) {
									v_violation(key, "second header fixed fields differ");
									bad = 1;
								}
								if (g_check()) {
									v_violation(key, "%s", g_last_damage());
									bad = 1;
								}
								nfail += bad;
								g_reset();
								v_count("recycled_state_headers", 1);
								v_nontrivial(v_mix(0x4ec7 + unit, cut * 24 + via * 8 + sec));
							}
				}
}

/* the same for the zlib reader, and across the two readers: a zlib (or gzip) header that stops short, isal_inflate_reset(), then a complete
 * zlib header (FDICT present / absent) in one call or cut at every byte; and a zlib header that stops short followed by a gzip header */
static void recycled_state_zlib(void)
{
	static const uint8_t gz1[] = { 0x1f, 0x8b, 8, 0x1c, 1, 2, 3, 4, 0, 3, 3, 0, 'e', 'x', 't', 'n', 'a', 'm', 'e', 0, 'c', 'o', 'm', 0 };
	char key[300];
	for (int first = 0; first < 3; first++)       /* 0 zlib without FDICT, 1 zlib with FDICT, 2 gzip with all string fields */
		for (int df2 = 0; df2 < 3; df2++) {   /* second header: zlib without / with FDICT, 2 = gzip name-only */
			uint8_t h1[32], h2[32];
			struct rh_zlib z1 = { 7, 3, first == 1, 0x0badf00du }, z2 = { 5, 1, df2 == 1, 0xa1b2c3d4u };
			struct rh_gzip g2 = { 0, 0x55667788u, 2, 3, NULL, -1, "nm", NULL, 0 };
			size_t l1 = first == 2 ? sizeof gz1 : rh_zlib_write(h1, &z1);
			if (first == 2) memcpy(h1, gz1, sizeof gz1);
			size_t l2 = df2 == 2 ? rh_gzip_write(h2, &g2) : rh_zlib_write(h2, &z2);
			h2[l2] = 0x03; h2[l2 + 1] = 0x00;
			for (size_t cut = 1; cut < l1; cut++)
				for (size_t split = 0; split < l2; split++) { /* 0: one call */
					struct inflate_state *st = g_alloc(sizeof *st, (cut + split) & 1 ? G_END : G_START);
					struct isal_zlib_header zh;
					struct isal_gzip_header gh;
					uint8_t nb[16];
					int ret1 = -999, ret2 = -999;
					size_t stop = 0;
					snprintf(key, sizeof key, "reader after isal_inflate_reset: %s header abandoned after %zu of %zu bytes; then %s header %s", first == 2 ? "gzip" : first ? "zlib+FDICT" : "zlib", cut, l1,
						 df2 == 2 ? "gzip(name only)" : df2 ? "zlib+FDICT" : "zlib", split ? "in two calls" : "in one call");
					if (V_TRY()) {
						memset(st, 0x5A, sizeof *st);
						isal_inflate_init(st);
						isal_zlib_header_init(&zh);
						isal_gzip_header_init(&gh);
						uint8_t *in = g_alloc(cut, G_END);
						memcpy(in, h1, cut);
						st->next_in = in; st->avail_in = cut;
						ret1 = first == 2 ? isal_read_gzip_header(st, &gh) : isal_read_zlib_header(st, &zh);
						isal_inflate_reset(st);
						isal_zlib_header_init(&zh);
						isal_gzip_header_init(&gh);
						memset(nb, 0xCC, sizeof nb);
						gh.name = (char *)nb; gh.name_buf_len = sizeof nb;
						size_t k = split ? split : l2 + 2;
						uint8_t *in2 = g_alloc(k, G_END);
						memcpy(in2, h2, k);
						st->next_in = in2; st->avail_in = k;
						ret2 = df2 == 2 ? isal_read_gzip_header(st, &gh) : isal_read_zlib_header(st, &zh);
						stop = k - st->avail_in;
						if (split && ret2 == ISAL_END_INPUT && st->avail_in == 0) {
							size_t k2 = l2 + 2 - k;
							uint8_t *in3 = g_alloc(k2, G_END);
							memcpy(in3, h2 + k, k2);
							st->next_in = in3; st->avail_in = k2;
							ret2 = df2 == 2 ? isal_read_gzip_header(st, &gh) : isal_read_zlib_header(st, &zh);
							stop = k + k2 - st->avail_in;
						}
						V_END();
					} else {
						v_violation(key, "%s", v_fault_desc());
						nfail++;
						g_reset();
						continue;
					}
					v_eval();
					if (ret1 != ISAL_END_INPUT)
						v_violation(key, "truncated first header returned %d, expected ISAL_END_INPUT", ret1), nfail++;
					else if (ret2 != ISAL_DECOMP_OK || stop != l2)
						v_violation(key, "second header returned %d and stopped at %zu (header is %zu bytes)", ret2, stop, l2), nfail++;
					else if (df2 == 2 ? (strcmp((char *)nb, "nm") || nb[3] != 0xCC || gh.time != g2.mtime || gh.os != 3)
							  : (zh.info != 5 || zh.level != 1 || zh.dict_flag != (uint32_t)(df2 == 1) || (df2 == 1 && zh.dict_id != z2.dictid)))
						v_violation(key, "second header fields differ (zlib: info %u level %u dict_flag %u dict_id %08x; gzip name '%.8s')", zh.info, zh.level, zh.dict_flag, zh.dict_id, df2 == 2 ? (char *)nb : ""), nfail++;
					if (g_check())
						v_violation(key, "%s", g_last_damage()), nfail++;
					g_reset();
					v_count("recycled_state_headers", 1);
					v_nontrivial(v_mix(0x21b + first * 3 + df2, cut * 64 + split));
					if (nfail > 20)
						return;
				}
		}
}

int main(int argc, char **argv)
{
	v_init(argc, argv, "C19");
	g_canary_span = 512;
	memset(name300, 'n', 300);
	memset(comment300, 'k', 300);
	for (int i = 0; i < 65536; i++)
		extra64k[i] = (uint8_t)(i * 7 + 1);
	if (!v_part || !strcmp(v_part, "writer")) {
		gzip_writer();
		gzip_writer_guarded();
		if (v_shard == 0)
			zlib_writer();
	}
	if (!v_part || !strcmp(v_part, "reader")) {
		gzip_reader();
		long_strings();
		recycled_state();
		if (v_shard == 0) {
			zlib_reader();
			recycled_state_zlib();
			huge_avail_in();
		}
		arbitrary();
	}
	if (v_shard == 0) {
		v_sample("writer: text=1 time=01020304 xfl=4 os=3 extra=255 name=300 chars comment='' hcrc=1 avail_out=need-1 -> returns need, stream and output untouched; avail_out=need -> bytes == independent RFC 1952 producer");
		v_sample("reader graph extra=5 name=20 chars comment=23 chars hcrc=1 buffers=len-1 growth=+1: all chunkings over {0,1,2,rest}; overflow -> larger buffer keeping delivered bytes -> resume; fields equal, stops at first payload byte");
		v_sample("zlib: info=7 level=2 dict_flag=1 dict_id=01020304: RFC 1950 stores 01 02 03 04");
		v_note("resume protocol after NAME/COMMENT/EXTRA overflow uses realloc semantics (bytes already delivered are kept), as igzip_lib.h describes");
		v_note("reference producer rh_gzip_write/rh_zlib_write is cross-checked against zlib's own gzip header parser (inflateGetHeader) on a subset");
	}
	return v_finish();
}
