/* C02 - decompression reproduces every valid stream exactly, whoever produced it. */
#include "streams.h"

static uint8_t *wrapped, *refout;
static struct ri_result rr;
static long nfail;
static int full_modes;   /* all 7 wrapper modes or {raw, gzip, zlib} */
static int cur_family;

static int mine(uint64_t id) { return v_mine(id); }

static const uint8_t gz_extra[5] = { 'a', 'p', 1, 0, 'X' };
static const struct rh_gzip rich_hdr = { 1, 0x01020304, 2, 3, gz_extra, 5, "file.name", "a comment", 1 };

static void check_stream(const struct gstream *g, void *ctx)
{
	(void)ctx;
	char key[420];
	if (nfail > 40 || v_deadline_hit())
		return;
	/* ---- reference agreement gate: generator's expected output == ref_inflate == zlib ---- */
	struct ri_opts o;
	memset(&o, 0, sizeof o);
	rr.out = refout;
	rr.out_cap = GS_MAXOUT;
	ref_inflate(g->body, g->blen, &o, &rr);
	if (rr.verdict != RI_VALID || rr.out_len != g->xlen || memcmp(refout, g->x, g->xlen))
		v_broken("reference gate: ref_inflate disagrees with the stream generator on '%s' (verdict %d %s, %zu vs %zu bytes)", g->desc, rr.verdict, rr.why ? rr.why : "", rr.out_len, g->xlen);
	if (g->end_bit && rr.end_bit != g->end_bit)
		v_broken("reference gate: end bit %zu vs generator %zu on '%s'", rr.end_bit, g->end_bit, g->desc);
	size_t end_bit = rr.end_bit;
	if (g->zlib_ok) {
		char why[200];
		if (!verify_with_zlib(g->body, (end_bit + 7) / 8, IGZIP_DEFLATE, g->x, g->xlen, why, sizeof why))
			v_broken("reference gate: zlib rejects a stream with complete codes: '%s': %s", g->desc, why);
		v_count("gate_zlib_agreed", 1);
	}
	v_count("streams", 1);
	if (rr.max_dist == 32768)
		v_count("streams_with_distance_32768", 1);
	v_nontrivial(v_hash(g->body, g->blen, 0));
	static const int modes7[] = { ISAL_DEFLATE, ISAL_GZIP, ISAL_ZLIB, ISAL_GZIP_NO_HDR, ISAL_ZLIB_NO_HDR, ISAL_GZIP_NO_HDR_VER, ISAL_ZLIB_NO_HDR_VER };
	static const int cpus[] = { CPU_BASE, CPU_SSE, CPU_AVX2 };
	static const int junks[] = { 0, 3, 3000, 5000 };
	int nm = full_modes ? 7 : 3;
	for (int mi = 0; mi < nm; mi++)
		for (int hv = 0; hv < (modes7[mi] == ISAL_GZIP && full_modes ? 2 : 1); hv++)
			for (int ji = 0; ji < 4; ji++) {
				if (!full_modes && (ji == 1 || ji == 2) && mi)
					continue;
				size_t true_end;
				size_t wl = wrap_stream(modes7[mi], g->body, (end_bit + 7) / 8, end_bit, g->x, g->xlen, hv ? &rich_hdr : NULL, wrapped, &true_end);
				memset(wrapped + wl, 0xA5, junks[ji]);
				size_t inlen = wl + junks[ji];
				for (int ci = 0; ci < 3; ci++) {
					cpu_set_level(cpus[ci]);
					for (int api = 0; api < 2; api++) {
						uint8_t *in = g_alloc(inlen, G_END);
						memcpy(in, wrapped, inlen);
						g_readonly(in, 1);
						uint8_t *out = g_alloc(g->xlen, G_END); /* exact fit, end-flush */
						struct dres d;
						struct inflate_state *st;
						c_inflate(api, modes7[mi], 0, in, inlen, out, g->xlen, &d, &st);
						v_eval();
						snprintf(key, sizeof key, "%s mode=%s%s api=%s cpu=%s junk=%d", g->desc, cf_name[modes7[mi]], hv ? "+rich-header" : "", api ? "isal_inflate" : "stateless",
							 cpu_level_name[cpus[ci]], junks[ji]);
						int bad = 0;
						if (d.fault) {
							v_violation(key, "fault at %s addr=%p (%s)", v_sym(v_fault_rip), (void *)v_fault_addr, v_fault_write ? "write" : "read");
							bad = 1;
						} else if (d.ret != ISAL_DECOMP_OK || d.block_state != ISAL_BLOCK_FINISH) {
							v_violation(key, "return %d block_state %d (expected ISAL_DECOMP_OK and ISAL_BLOCK_FINISH) out=%zu/%zu", d.ret, d.block_state, d.out_len, g->xlen);
							bad = 1;
						} else if (d.out_len != g->xlen || memcmp(out, g->x, g->xlen)) {
							size_t i = 0;
							while (i < d.out_len && i < g->xlen && out[i] == g->x[i])
								i++;
							v_violation(key, "output differs from the reference at byte %zu (%zu vs %zu bytes)", i, d.out_len, g->xlen);
							bad = 1;
						} else if (d.in_pos != true_end) {
							v_violation(key, "reported input position %zu (consumed minus whole bytes in the bit buffer) but the stream ends at %zu", d.in_pos, true_end);
							bad = 1;
						} else if (d.total_out != (uint32_t)g->xlen) {
							v_violation(key, "total_out %u != %zu", d.total_out, g->xlen);
							bad = 1;
						} else if (modes7[mi] != ISAL_DEFLATE) {
							int gz = modes7[mi] == ISAL_GZIP || modes7[mi] == ISAL_GZIP_NO_HDR || modes7[mi] == ISAL_GZIP_NO_HDR_VER;
							uint32_t want = gz ? ri_crc32(0, g->x, g->xlen) : ri_adler32(1, g->x, g->xlen);
							if (d.crc != want) {
								v_violation(key, "state.crc %08x but the reference checksum of the delivered bytes is %08x", d.crc, want);
								bad = 1;
							}
						}
						if (g_check()) {
							v_violation(key, "%s", g_last_damage());
							bad = 1;
						}
						nfail += bad;
						g_reset();
					}
				}
			}
}

/* ---- window-edge part: isal_inflate() decodes into its internal 64 KiB window first and, once that has been handed over,
 * straight into the caller's buffer. Where the decode kernel runs out of room therefore does NOT depend on small caller
 * buffers but on (a) the amount of output produced before (window edge at 65536) and (b) the end of a large caller buffer.
 * Every small token stream is therefore placed behind a stored filler so that EVERY one of its output positions in turn
 * coincides with (a) the window edge and (b) the end of the first caller buffer. */
static uint8_t *EB, *EX, *EO;
static const struct tok *EDGE_TOKS; static int EDGE_NTOKS; /* set: the stream's matches reach into the filler */
static size_t EDGE_SPLIT_BACK; /* 0: all input in the first call; k > 0: the first call's input ends k bytes before the end of the token stream */
static void edge_run(const struct gstream *g, size_t P, size_t first_out, int junk, int cpu, const char *what)
{
	char key[420];
	/* stream = stored filler of P bytes (non-final blocks) + g; expected output = filler + g->x */
	size_t bl = 0, left = P, off = 0;
	while (left) {
		size_t n = left > 65535 ? 65535 : left;
		EB[bl++] = 0;
		EB[bl++] = (uint8_t)n; EB[bl++] = (uint8_t)(n >> 8); EB[bl++] = (uint8_t)~n; EB[bl++] = (uint8_t)(~n >> 8);
		memcpy(EB + bl, gs_pre + off % 4096, n); /* filler content: xorshift preamble data */
		memcpy(EX + off, gs_pre + off % 4096, n);
		bl += n; off += n; left -= n;
	}
	size_t gb = (g->end_bit + 7) / 8;
	memcpy(EB + bl, g->body, gb);
	bl += gb;
	if (EDGE_TOKS) { /* tokens that reach back into the filler: expected output by simulation */
		size_t q = P;
		for (int i = 0; i < EDGE_NTOKS; i++) {
			if (!EDGE_TOKS[i].len) { EX[q++] = (uint8_t)EDGE_TOKS[i].lit; continue; }
			for (int j = 0; j < EDGE_TOKS[i].len; j++, q++)
				EX[q] = EX[q - EDGE_TOKS[i].dist];
		}
	} else
		memcpy(EX + P, g->x, g->xlen);
	size_t xl = P + g->xlen;
	memset(EB + bl, 0xA5, junk);
	size_t inlen = bl + junk;
	cpu_set_level(cpu);
	struct inflate_state *st = g_alloc(sizeof *st, G_END);
	int ret = -999, fault = 0, calls = 0;
	size_t cap = first_out ? first_out : xl;
	if (V_TRY()) {
		isal_inflate_init(st);
		size_t first_in = EDGE_SPLIT_BACK && EDGE_SPLIT_BACK < gb + 1 ? bl - EDGE_SPLIT_BACK : inlen, given = first_in;
		st->next_in = EB; st->avail_in = first_in;
		st->next_out = EO; st->avail_out = cap;
		do {
			ret = isal_inflate(st);
			if (st->avail_out == 0 && (size_t)(st->next_out - EO) < xl + 8)
				st->avail_out = EO + xl + 8 - st->next_out; /* the rest (+8 so that surplus output is visible) */
			if (st->avail_in == 0 && given < inlen) { /* second input piece */
				st->next_in = EB + given; st->avail_in = inlen - given;
				given = inlen;
			}
		} while (ret == ISAL_DECOMP_OK && st->block_state != ISAL_BLOCK_FINISH && ++calls < 8);
		V_END();
	} else
		fault = 1;
	v_eval();
	snprintf(key, sizeof key, "window-edge %s: %s filler=%zu first-avail_out=%zu junk=%d cpu=%s first-input-ends=%zu-bytes-before-stream-end", what, g->desc, P, cap, junk, cpu_level_name[cpu], EDGE_SPLIT_BACK);
	size_t got = st->next_out - EO;
	size_t in_pos = (inlen - st->avail_in) - (st->read_in_length > 0 ? st->read_in_length / 8 : 0);
	if (fault) {
		v_violation(key, "fault %s", v_fault_desc());
		nfail++;
	} else if (ret != ISAL_DECOMP_OK || st->block_state != ISAL_BLOCK_FINISH) {
		v_violation(key, "return %d block_state %d after %zu of %zu bytes", ret, st->block_state, got, xl);
		nfail++;
	} else if (got != xl || memcmp(EO, EX, xl)) {
		size_t i = 0;
		while (i < got && i < xl && EO[i] == EX[i])
			i++;
		v_violation(key, "output differs from the expected bytes at offset %zu (%zu vs %zu bytes)", i, got, xl);
		nfail++;
	} else if (st->total_out != (uint32_t)xl || in_pos != bl) {
		v_violation(key, "total_out %u (expected %zu), reported input position %zu (stream ends at %zu)", st->total_out, xl, in_pos, bl);
		nfail++;
	}
	v_count("window_edge_runs", 1);
	g_reset();
}
static void edge_stream(const struct gstream *g, void *ctx)
{
	(void)ctx;
	if (nfail > 40 || v_deadline_hit() || g->xlen == 0 || g->xlen > (v_thorough || EDGE_TOKS ? 600 : 80))
		return;
	static const int cpus[] = { CPU_BASE, CPU_SSE, CPU_AVX2 };
	static int gate;
	/* reference gate once per process: the concatenation (stored filler + stream) decodes to filler + payload */
	for (int ji = 0; ji < 2; ji++) {
		int junk = ji ? 5000 : 0;
		for (int ci = 0; ci < 3; ci++) {
			/* the first call's input holds everything, or ends at EVERY byte position inside the token stream (the rest follows) */
			size_t gbytes = (g->end_bit + 7) / 8;
			for (EDGE_SPLIT_BACK = 0; EDGE_SPLIT_BACK <= gbytes; EDGE_SPLIT_BACK++) {
				if (EDGE_SPLIT_BACK && (gbytes > 24 || g->xlen > 40) && !v_thorough && !EDGE_TOKS)
					break; /* quick: the input-split product only for the short streams */
				/* (a) each output position of the stream at the internal window edge (65536 bytes produced) */
				for (size_t e = 0; e <= g->xlen + 1; e++)
					if (65536 + 1 >= e && !(EDGE_TOKS && g->xlen > 40 && e > 7 && e + 5 < g->xlen)) /* long far matches: both ends only */
						edge_run(g, 65536 + 1 - e, 0, junk, cpus[ci], "internal-window");
				/* (b) each output position of the stream at the end of the first (large) caller buffer, decoded in direct mode */
				for (size_t e = 0; e <= g->xlen; e++)
					if (!(EDGE_TOKS && g->xlen > 40 && e > 7 && e + 5 < g->xlen))
						edge_run(g, 70000, 70000 + e, junk, cpus[ci], "caller-buffer");
			}
			EDGE_SPLIT_BACK = 0;
		}
	}
	if (!gate) {
		gate = 1;
		struct ri_opts o;
		memset(&o, 0, sizeof o);
		rr.out = refout;
		rr.out_cap = GS_MAXOUT;
		/* rebuild the last stream and let the reference decode it */
		edge_run(g, 65530, 0, 0, CPU_BASE, "gate");
		ref_inflate(EB, 65530 + 5 * 2 + (g->end_bit + 7) / 8, &o, &rr);
		if (rr.verdict != RI_VALID || rr.out_len != 65530 + g->xlen || memcmp(refout, EX, rr.out_len))
			v_broken("window-edge gate: reference disagrees with the constructed filler+stream (%d %s)", rr.verdict, rr.why ? rr.why : "");
	}
	v_count("window_edge_streams", 1);
	v_nontrivial(v_mix(v_hash(g->body, g->blen, 0), 0xed6e));
}

/* token streams whose match reaches back into the filler: literal(s) + match (short / long, distance codes with 0, 1 and 13 extra bits,
 * extra bits all zero and all one) + literal, in a fixed and in a balanced dynamic block, final and non-final */
static void edge_far_family(void)
{
	static const int lens[] = { 3, 4, 258 }, dists[] = { 1, 2, 5, 6, 24577, 32768 };
	static struct gstream g;
	static uint8_t body[256], xdummy[600];
	uint64_t unit = 424242;
	for (int kind = 0; kind < 2; kind++)
		for (int nlit = 1; nlit <= 2; nlit++)
			for (int li = 0; li < 3; li++)
				for (int di = 0; di < 6; di++)
					for (int fin = 0; fin < 2; fin++) {
						if (!v_mine(unit++))
							continue;
						struct tok t[6];
						int nt = 0;
						for (int i = 0; i < nlit; i++) t[nt++] = (struct tok){ 0, 'B' + i, 0 };
						t[nt++] = (struct tok){ lens[li], 0, dists[di] };
						t[nt++] = (struct tok){ 0, 'Z', 0 };
						struct bw w;
						bw_init(&w, body, sizeof body);
						if (kind == 0)
							gen_fixed(&w, fin, t, nt);
						else {
							uint8_t L[288] = { 0 }, D[32] = { 0 };
							int ul[8], nul = 0, ud[2], nud = 0;
							ul[nul++] = 'B'; if (nlit == 2) ul[nul++] = 'C'; ul[nul++] = 'Z'; ul[nul++] = 256; ul[nul++] = 257 + gen_len_sym(lens[li]);
							ud[nud++] = gen_dist_sym(dists[di]); ud[nud++] = gen_dist_sym(dists[di]) ? 0 : 1;
							shape_balanced(ul, nul, L); shape_balanced(ud, nud, D);
							gen_dynamic(&w, fin, L, 286, D, 30, 0, t, nt);
						}
						if (!fin)
							gen_fixed(&w, 1, NULL, 0); /* empty final block */
						g.body = body; g.blen = bw_bytes(&w); g.end_bit = w.bit;
						g.x = xdummy; g.xlen = nlit + lens[li] + 1;
						g.zlib_ok = 1; g.nblocks = fin ? 1 : 2;
						snprintf(g.desc, sizeof g.desc, "far-token %s%s[%dxL M(%d,%d) LZ]", kind ? "dyn-balanced" : "fixed", fin ? "" : "(non-final)", nlit, lens[li], dists[di]);
						EDGE_TOKS = t; EDGE_NTOKS = nt;
						edge_stream(&g, NULL);
						EDGE_TOKS = NULL;
					}
}

/* ---- near-default headers: the decoder recognises ISA-L's own default dynamic header by comparing the input with it and then
 * installs pregenerated tables. Enumerated here: every header that differs from the default one by ONE or TWO bits within its last 64
 * bits and that the reference still parses as a valid, complete code (e.g. two neighbouring symbols swapping code lengths). Each gets a
 * body coded with ITS OWN codes (literals, a short match, far matches through distance symbols 28/29), placed byte-aligned behind a
 * stored block and followed by enough input for the recognition shortcut to be tried. ISA-L must decode it like the reference. ---- */
extern struct isal_hufftables hufftables_default;
static void neardefault_part(void)
{
	static uint8_t hdr[ISAL_DEF_MAX_HDR_SIZE + 8], strm[70000 + ISAL_DEF_MAX_HDR_SIZE + 4096], probe[ISAL_DEF_MAX_HDR_SIZE + 64];
	static struct ri_result pr;
	static uint8_t ptmp[4096];
	size_t hbits = (size_t)hufftables_default.deflate_hdr_count * 8 + hufftables_default.deflate_hdr_extra_bits;
	memset(hdr, 0, sizeof hdr);
	memcpy(hdr, hufftables_default.deflate_hdr, hufftables_default.deflate_hdr_count + 1);
	if (hbits < 80)
		v_broken("default header too short");
	static struct gstream g;
	static uint8_t gx[400];
	uint64_t unit = 61000;
	long tried = 0, valid = 0;
	size_t lo = hbits - 64;
	for (long b1 = -1; b1 < 64; b1++)
		for (long b2 = b1 + 1; b2 <= 64; b2++) {
			/* b1 == -1: no first flip; b2 == 64: no second flip (so (-1,64) is the unmodified default header) */
			if (!v_mine(unit++))
				continue;
			if (nfail > 40 || v_deadline_hit())
				return;
			memcpy(probe, hdr, hufftables_default.deflate_hdr_count + 8);
			if (b1 >= 0) probe[(lo + b1) >> 3] ^= (uint8_t)(1 << ((lo + b1) & 7));
			if (b2 < 64) probe[(lo + b2) >> 3] ^= (uint8_t)(1 << ((lo + b2) & 7));
			probe[0] &= ~1; /* BFINAL = 0 */
			/* clear the bits behind the header, then let the reference parse the header alone */
			for (size_t i = hbits; i < hbits + 128; i++) probe[i >> 3] &= (uint8_t)~(1 << (i & 7));
			struct ri_opts o;
			memset(&o, 0, sizeof o);
			pr.out = ptmp; pr.out_cap = sizeof ptmp;
			ref_inflate(probe, hufftables_default.deflate_hdr_count + 16, &o, &pr);
			tried++;
			if (pr.nblocks < 1 || pr.blk[0].type != 2 || pr.blk[0].hdr_end_bit != hbits || (pr.verdict == RI_INVALID && pr.cls == RC_BLOCK) || pr.blk[0].ll_incomplete || pr.blk[0].d_incomplete)
				continue;
			uint8_t *ll = pr.blk[0].ll_len, *dl = pr.blk[0].d_len;
			if (!ll['a'] || !ll['b'] || !ll[256] || !ll[257] || !ll[285] || !dl[0] || !dl[28] || !dl[29])
				continue;
			valid++;
			/* stream: stored filler (33000 bytes), then the dynamic block with this header and a body in its own codes */
			struct bw w;
			bw_init(&w, strm, sizeof strm);
			size_t P = 33000;
			gen_stored(&w, 0, gs_pre, (int)P, 0);
			for (size_t i = 0; i < hbits; i++)
				bw_bit(&w, i == 0 ? 1 : (probe[i >> 3] >> (i & 7)) & 1); /* BFINAL = 1 */
			uint16_t llc[288], dc[32];
			uint8_t l2[288] = { 0 }, d2[32] = { 0 };
			memcpy(l2, ll, 288); memcpy(d2, dl, 32);
			gen_canon(l2, 288, llc); gen_canon(d2, 32, dc);
			struct tok t[8] = { { 0, 'a', 0 }, { 0, 'b', 0 }, { 3, 0, 1 }, { 258, 0, 16385 }, { 4, 0, 24577 }, { 5, 0, 32768 }, { 3, 0, 20000 }, { 0, 'a', 0 } };
			gen_tokens(&w, t, 8, l2, llc, d2, dc, 1);
			/* expected output by simulation */
			static uint8_t ex[34000];
			memcpy(ex, gs_pre, P);
			size_t q = P;
			for (int i = 0; i < 8; i++) {
				if (!t[i].len) { ex[q++] = (uint8_t)t[i].lit; continue; }
				for (int j = 0; j < t[i].len; j++, q++) ex[q] = ex[q - t[i].dist];
			}
			g.body = strm; g.blen = bw_bytes(&w); g.end_bit = w.bit; g.x = ex; g.xlen = q; g.zlib_ok = 1; g.nblocks = 2;
			(void)gx;
			snprintf(g.desc, sizeof g.desc, "near-default header (ISA-L default header with bits %ld,%ld of its last 64 flipped; valid complete code) + stored(33000)", b1, b2 < 64 ? b2 : -1);
			full_modes = 0;
			check_stream(&g, NULL);
		}
	v_count("near_default_headers_tried", tried);
	v_count("near_default_headers_valid", valid);
}

int main(int argc, char **argv)
{
	v_init(argc, argv, "C02");
	gs_init();
	wrapped = malloc(GS_MAXBODY + 8192);
	refout = malloc(GS_MAXOUT);
	uint64_t idx = 0;
	if (v_part && !strcmp(v_part, "edge")) {
		EB = malloc(90000 + GS_MAXBODY); EX = malloc(90000 + GS_MAXOUT); EO = malloc(90000 + GS_MAXOUT);
		gs_family_tokens(2, 1, mine, &idx, edge_stream, NULL);
		gs_family_shapes(mine, &idx, edge_stream, NULL);
		edge_far_family();
		if (v_shard == 0) {
			v_sample("window-edge internal-window: F1 dyn-balanced[La] behind a stored filler of 65536 bytes, junk=5000, cpu=avx2: the literal and the end-of-block code share one lookup entry and the internal window is full exactly in front of it");
			v_note("edge part: every output position of every small token stream is made to coincide with the 65536-byte internal window edge (filler length sweep) and with the end of a 70000+e byte first caller buffer (direct-mode decode)");
		}
		return v_finish();
	}
	if (v_part && !strcmp(v_part, "neardefault")) {
		neardefault_part();
		if (v_shard == 0)
			v_note("neardefault part: all 1- and 2-bit variations of the last 64 bits of ISA-L's default dynamic header that remain valid complete codes, each with a body in its own codes behind a stored block, decoded by every API / kernel / trailing-junk combination and compared with the reference");
		return v_finish();
	}
	if (v_part && strcmp(v_part, "streams"))
		return v_finish();
	full_modes = 1;
	gs_family_shapes(mine, &idx, check_stream, NULL);
	gs_family_tokens(v_thorough ? 3 : 2, 1, mine, &idx, check_stream, NULL);
	full_modes = 0;
	if (v_thorough)
		gs_family_tokens(3, 0, mine, &idx, check_stream, NULL);
	gs_family_matches(v_thorough, mine, &idx, check_stream, NULL);
	gs_family_zlib(v_thorough, mine, &idx, check_stream, NULL);
	gs_family_isal(v_thorough, mine, &idx, check_stream, NULL);
	if (v_shard == 0) {
		v_sample("F2 stored(32768) + dyn-long-codes[M(258,32768) La M(3,1)] mode=GZIP api=isal_inflate cpu=avx2 junk=5000: output == ref == zlib, FINISH, position == end of trailer, crc == CRC-32");
		v_sample("F3 dyn tokens=T0 ll_shape=1(depth 15) d_shape=2(11..15-bit codes) style=1(16/17/18 runs) hlit286=1 hdist30=1");
		v_sample("F1 stored(1) + dyn-deep15[L00 M(258,1) Lff]");
		v_sample("F4 zlib level=9 strategy=Z_RLE wbits=9 memLevel=1 input=text:8193");
		v_note("reference agreement gate: every generated stream is first decoded by ref_inflate (must equal the generator's token simulation) and, when its code sets are complete, by zlib; a disagreement is exit 2, not a violation");
		v_note("kernel variants reached through simulated CPU levels base / sse (_01) / avx2 (_04); junk bytes appended so that the reported end position is observable and the SINGLE/DOUBLE/TRIPLE symbol table modes (avail_in thresholds 2048/4096) are all built");
	}
	return v_finish();
}
