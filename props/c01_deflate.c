/* C01 - compression is lossless and RFC 1951/1950/1952 conformant, for every parameter combination
 * and every implementation variant the dispatcher can select. */
#include "codec_common.h"
static long nfail;
#include "c01_encdf.h"

#define MAXIN (800 * 1024)
static uint8_t *inbuf;
static char in_name[64];

/* verification cache: (stream hash, wrapper, input id) already accepted by both decoders */
static uint64_t *vcache;
static size_t vcap = 1 << 22, vn;
static int vcache_add(uint64_t k)
{
	if (!vcache)
		vcache = calloc(vcap, 8);
	if (!k)
		k = 1;
	size_t j = (k * 0x9e3779b97f4a7c15ull) >> 20 & (vcap - 1);
	while (vcache[j]) {
		if (vcache[j] == k)
			return 0;
		j = (j + 1) & (vcap - 1);
	}
	if (vn * 2 > vcap)
		return 1; /* full: verify again, never skip unsoundly */
	vcache[j] = k;
	vn++;
	return 1;
}

static void one(const struct cparams *p, int cpu, uint64_t in_id, size_t len)
{
	char key[400], why[256];
	size_t cap = p->api == API_STATELESS && !p->flush ? stateless_bound(len, p->gzip_flag) : stateless_bound(len, p->gzip_flag) + 2 * len + 2048; /* only the one-shot API has a documented bound */
	uint8_t *in = g_alloc(len, G_END);
	memcpy(in, inbuf, len);
	g_readonly(in, 1);
	uint8_t *out = g_alloc(cap, G_START);
	size_t outlen = 0;
	struct isal_zstream *s = NULL;
	/* a third of the cases hands over the level buffer 16-byte aligned only (what malloc guarantees), not page- or end-aligned.
	 * (An odd address was tried first: the codec clears its hash tables with wmemset, which needs wchar_t alignment, and left stale
	 * entries - but byte alignment is more than a caller of a "generic memory buffer" holding internal structures can expect.) */
	C_LB_OFF = (len + p->level + p->flush) % 3 == 1 ? 16 * (1 + (int)((len + p->api) % 7)) : 0;
	int r = c_deflate(p, in, len, out, cap, &outlen, &s);
	int lboff = C_LB_OFF;
	C_LB_OFF = 0;
	v_eval();
	snprintf(key, sizeof key, "%s%s cpu=%s input=%s", cparams_str(p), lboff ? " level_buf@16-byte-aligned-only" : "", cpu_level_name[cpu], in_name);
	if (r == -1000) {
		v_violation(key, "fault at %s addr=%p (%s)", v_sym(v_fault_rip), (void *)v_fault_addr, v_fault_write ? "write" : "read");
		nfail++;
	} else if (r != COMP_OK || s->internal_state.state != ZSTATE_END) {
		v_violation(key, "return %d state %d (expected COMP_OK and ZSTATE_END) avail_in=%u total_out=%u", r, s->internal_state.state, s->avail_in, s->total_out);
		nfail++;
	} else if (s->avail_in != 0 || s->total_in != (uint32_t)len || s->total_out != (uint32_t)outlen) {
		v_violation(key, "counters: avail_in=%u total_in=%u (len %zu) total_out=%u (produced %zu)", s->avail_in, s->total_in, len, s->total_out, outlen);
		nfail++;
	} else {
		uint64_t h = v_hash(out, outlen, in_id * 8 + p->gzip_flag);
		if (len)
			v_nontrivial(h);
		if (vcache_add(h)) {
			uint32_t window = p->hist_bits ? 1u << p->hist_bits : 0;
			if (!verify_deflate_output(out, outlen, p->gzip_flag, inbuf, len, 0, window, NULL, 0, why, sizeof why)) {
				v_violation(key, "%s; stream(%zu)=%s", why, outlen, v_hex(out, outlen > 96 ? 96 : outlen));
				nfail++;
			} else if (!verify_with_zlib(out, outlen, p->gzip_flag, inbuf, len, why, sizeof why)) {
				v_violation(key, "%s; stream(%zu)=%s", why, outlen, v_hex(out, outlen > 96 ? 96 : outlen));
				nfail++;
			}
			v_count("streams_decoded_by_both_references", 1);
			for (int b = 0; b < vs_res.nblocks && b < RI_MAXBLK; b++)
				if (vs_res.blk[b].type == 2) {
					int ml = 0, md = 0;
					for (int i = 0; i < 286; i++) ml = vs_res.blk[b].ll_len[i] > ml ? vs_res.blk[b].ll_len[i] : ml;
					for (int i = 0; i < 30; i++) md = vs_res.blk[b].d_len[i] > md ? vs_res.blk[b].d_len[i] : md;
					v_max("longest_litlen_code_produced", ml);
					v_max("longest_distance_code_produced", md);
					if (md == 15 && p->level)
						v_count("blocks_with_15_bit_distance_codes", 1);
					if (ml == 15 && p->level)
						v_count("blocks_with_15_bit_litlen_codes", 1);
				}
			if (vs_res.nblocks > 1)
				v_count("multi_block_streams", 1);
		}
	}
	if (g_check()) {
		v_violation(key, "%s", g_last_damage());
		nfail++;
	}
	g_reset();
}

static void sweep(uint64_t in_id, size_t len, int reduced, int big)
{
	static const int hb_q[] = { 0, 9, 12, 15 }, hb_t[] = { 0, 9, 10, 11, 12, 13, 14, 15 };
	static const int cpus_all[] = { CPU_BASE, CPU_SSE, CPU_AVX, CPU_AVX2, CPU_AVX512, CPU_AVX512G2, CPU_AVX2G2 };
	static const int cpus_red[] = { CPU_BASE, CPU_SSE, CPU_AVX2, CPU_AVX512G2 };
	const int *cpus = reduced ? cpus_red : cpus_all;
	int ncpu = reduced ? 4 : 7;
	const int *hb = v_thorough && !reduced ? hb_t : hb_q;
	int nhb = reduced ? 1 : (v_thorough ? 8 : 4);
	/* custom table from the input's own histogram */
	{
		static struct isal_huff_histogram h;
		memset(&h, 0, sizeof h);
		cpu_set_level(CPU_BASE);
		isal_update_histogram(inbuf, (int)len, &h);
		if (isal_create_hufftables(&c_custom_ht, &h) != 0)
			v_violation("isal_create_hufftables failed on input histogram", "input=%s", in_name);
	}
	for (int ci = 0; ci < ncpu; ci++) {
		cpu_set_level(cpus[ci]);
		for (int level = 0; level <= 3; level++)
			for (int flush = 0; flush < 3; flush++)
				for (int gz = 0; gz < 5; gz++) {
					if (reduced && gz > 1)
						continue;
					if (big && gz != 0 && gz != 1 && gz != 3)
						continue;
					if (big == 2 && (gz != 1 || flush == 1))
						continue;
					for (int hi = 0; hi < nhb; hi++)
						for (int huff = 0; huff < 3; huff++) {
							if (level && huff)
								continue;
							if (reduced && huff == 2)
								continue;
							if (big && (huff == 2 || (hi && hb[hi] != 15)))
								continue;
							int nlb = level ? (v_thorough && !reduced && !big ? 5 : 2) : 1;
							for (int lb = 0; lb < nlb; lb++)
								for (int apix = 0; apix < 4; apix++) {
									/* apix 3: all input offered at once, output drained 3 bytes at a time (headers, stored blocks and
									 * flush markers all pass through the codec's small pending-output buffers) */
									int api = apix == 3 ? API_CHUNKED : apix;
									if (apix == 3 && (big || reduced))
										continue;
									if (api == API_STATELESS && flush == SYNC_FLUSH)
										continue;
									if (nfail > 40 || v_deadline_hit())
										return;
									struct cparams p = { level, flush, gz, hb[hi], huff, lb, api, apix == 3 ? 1 << 20 : 97, apix == 3 ? 3 : 61 };
									if (big == 2 && api == API_ONECALL)
										continue;
									if (big && api == API_CHUNKED) {
										p.cin = big == 2 ? 100000 : 8192 + 13;
										p.cout = 4096 + 7;
									}
									one(&p, cpus[ci], in_id, len);
								}
							if (level == 1 && v_thorough && !reduced) {
								struct cparams p = { 1, flush == SYNC_FLUSH ? NO_FLUSH : flush, gz, hb[hi], 0, LB_NULL, API_STATELESS, 0, 0 };
								one(&p, cpus[ci], in_id, len);
							}
						}
				}
	}
}

/* ---- one stream object used for SEVERAL one-shot calls. Two histories are defined by the interface:
 *  (R) retry: a call refused with STATELESS_OVERFLOW (output too small, at several points in mid-input) is repeated on the SAME
 *      object with a larger buffer - raw wrapper (with gzip/zlib the refused attempt leaves "header written" set, so a retry
 *      without re-initialisation is not a defined history);
 *  (N) next buffer: after any first call (successful, refused, stored-block fallback) another, unrelated buffer is compressed
 *      with the same object - raw wrapper only (with gzip/zlib the object deliberately remembers that the header was written).
 * The later call must produce a stream that decodes to its input, and exactly the bytes a fresh object gives. */
static void stateless_reuse(void)
{
	static uint8_t *A, *B, *OA, *OB, *OF;
	enum { AMAX = 2 << 20 };
	if (!A) {
		A = malloc(AMAX); B = malloc(70000); OA = malloc(AMAX + AMAX / 2); OB = malloc(AMAX + AMAX / 2); OF = malloc(AMAX + AMAX / 2);
	}
	static const int cpus[] = { CPU_BASE, CPU_AVX2, CPU_AVX512G2 };
	static const int alen_q[] = { 300000, 2 << 20, 5000 }, blen_q[] = { 5000, 0, 66000 };
	char key[400], why[256];
	uint64_t unit = 5000000;
	for (int level = 0; level <= 3; level++)
		for (int lb = 0; lb < 2; lb++)
			for (int akind = 0; akind < 3; akind++) /* A's data: text, incompressible, mixed */
				for (int ai = 0; ai < 3; ai++)
					for (int ci = 0; ci < 3; ci++)
						for (int fl = 0; fl <= 2; fl += 2) {
							if (level == 0 && lb)
								continue;
							if (!v_thorough && (ci != (level + akind + ai) % 3))
								continue; /* quick: one kernel set per configuration, rotating */
							if (!v_mine(unit++))
								continue;
							if (nfail > 40 || v_deadline_hit())
								return;
							int alen = alen_q[ai];
							if (akind == 0) fill_pattern(A, alen, PAT_TEXT, 3); else if (akind == 1) fill_xorshift(A, alen, 9); else fill_mixed(A, alen, 4);
							cpu_set_level(cpus[ci]);
							uint32_t lbs = level ? lb_size(level, lb ? LB_DEFAULT : LB_MIN) : 0;
							struct isal_zstream *s = g_alloc(sizeof *s, G_END), *f = g_alloc(sizeof *f, G_END);
							uint8_t *lbuf = level ? g_alloc(lbs, G_END) : NULL, *lbuf2 = level ? g_alloc(lbs, G_END) : NULL;
							for (int scen = 1; scen < 3; scen++) { /* 1: retry/raw, 2: next buffer/raw (0, retry/gzip, is not defined: see DESIGN 9.3 observations) */
								int gz = scen == 0 ? IGZIP_GZIP : IGZIP_DEFLATE;
								/* A alone on a scratch object: its size, and the bytes a fresh object gives */
								isal_deflate_stateless_init(f);
								f->level = level; f->level_buf = lbuf2; f->level_buf_size = lbs; f->flush = fl; f->gzip_flag = gz;
								f->next_in = A; f->avail_in = alen; f->end_of_stream = 1; f->next_out = OF; f->avail_out = AMAX + AMAX / 2;
								if (isal_deflate_stateless(f) != COMP_OK)
									continue;
								size_t csize = f->total_out;
								const size_t aouts[] = { AMAX + AMAX / 2, csize - 1, csize / 2, csize / 4, 100, 0 };
								for (unsigned oi = scen < 2 ? 1 : 0; oi < 6; oi++)
									for (int bi = 0; bi < (scen < 2 ? 1 : 3); bi++) {
										const uint8_t *in2 = A;
										int len2 = alen;
										size_t flen = csize;
										if (scen == 2) {
											len2 = blen_q[bi];
											if (len2) { if ((bi + oi) & 1) fill_pattern(B, len2, PAT_TEXT, 8); else fill_mixed(B, len2, 2); }
											in2 = B;
											isal_deflate_stateless_init(f);
											f->level = level; f->level_buf = lbuf2; f->level_buf_size = lbs; f->flush = fl; f->gzip_flag = gz;
											f->next_in = B; f->avail_in = len2; f->end_of_stream = 1; f->next_out = OF; f->avail_out = AMAX + AMAX / 2;
											if (isal_deflate_stateless(f) != COMP_OK)
												v_broken("fresh one-shot call failed");
											flen = f->total_out;
										}
										int ra = -999, rb = -999, fault = 0;
										size_t bl2 = 0;
										if (V_TRY()) {
											isal_deflate_stateless_init(s);
											s->level = level; s->level_buf = lbuf; s->level_buf_size = lbs; s->flush = fl; s->gzip_flag = gz;
											s->next_in = A; s->avail_in = alen; s->end_of_stream = 1; s->next_out = OA; s->avail_out = aouts[oi];
											ra = isal_deflate_stateless(s);
											/* later call on the same object: only the buffer fields are set again */
											s->next_in = (uint8_t *)in2; s->avail_in = len2; s->end_of_stream = 1; s->next_out = OB; s->avail_out = AMAX + AMAX / 2;
											if (scen == 2)
												s->total_in = s->total_out = 0;
											uint32_t to0 = s->total_out;
											rb = isal_deflate_stateless(s);
											bl2 = s->total_out - to0;
											V_END();
										} else
											fault = 1;
										v_eval();
										snprintf(key, sizeof key, "stateless-reuse %s level=%d level_buf=%s flush=%s cpu=%s first-call input=%s:%d avail_out=%s(%zu of %zu)%s", scen == 0 ? "retry wrapper=gzip" : scen == 1 ? "retry wrapper=raw" : "next-buffer wrapper=raw",
											 level, lb ? "DEFAULT" : "MIN", flush_name[fl], cpu_level_name[cpus[ci]], akind == 0 ? "text" : akind == 1 ? "incompressible" : "mixed", alen, oi == 0 ? "ample" : "too-small", aouts[oi], csize,
											 scen == 2 ? (bi == 0 ? " then 5000 bytes" : bi == 1 ? " then 0 bytes" : " then 66000 bytes") : " then the same input with ample space");
										if (fault) {
											v_violation(key, "fault %s", v_fault_desc());
											nfail++;
										} else if (ra != COMP_OK && ra != STATELESS_OVERFLOW) {
											v_violation(key, "first call returned %d", ra);
											nfail++;
										} else if (scen < 2 && ra == COMP_OK) {
											v_count("stateless_reuse_first_call_fit_after_all", 1); /* stored fallback fitted: not a retry history */
										} else if (rb != COMP_OK) {
											v_violation(key, "later call returned %d (first call %d)", rb, ra);
											nfail++;
										} else if (!verify_deflate_output(OB, bl2, gz, in2, len2, 0, 0, NULL, 0, why, sizeof why)) {
											v_violation(key, "later call on the reused object (first call returned %d): %s", ra, why);
											nfail++;
										} else if (bl2 != flen || memcmp(OB, OF, flen)) {
											v_violation(key, "later call gives %zu bytes, a fresh object %zu bytes, or different bytes: the earlier call (returned %d) leaked into it", bl2, flen, ra);
											nfail++;
										}
										v_count("stateless_reuse_histories", 1);
									}
							}
							g_reset();
							v_nontrivial(v_mix(0x5717 + level * 8 + lb, akind * 64 + ai * 16 + ci * 4 + fl));
						}
}

/* level-buffer sizes between the named constants: the size decides the capacity of the token buffer and with it where blocks close
 * (and which of "dynamic / static / stored" is chosen for how many bytes). One-shot and one-call compression of 300 000 bytes of
 * text / incompressible / mixed data, levels 1-3, every named size and the size half-way to the next one, 3 kernel sets. */
static void level_buf_sizes(uint64_t *unit)
{
	static const int cpus[] = { CPU_BASE, CPU_AVX2, CPU_AVX512G2 };
	enum { LL = 300000 };
	for (int kind = 0; kind < 3; kind++)
		for (int level = 1; level <= 3; level++)
			for (int zi = 0; zi < 9; zi++) {
				uint64_t id = (*unit)++;
				if (!v_mine(id))
					continue;
				if (nfail > 40 || v_deadline_hit())
					return;
				uint32_t named[5] = { lvl_min[level], lvl_small[level], lvl_medium[level], lvl_default[level], lvl_xl[level] };
				uint32_t lbs = zi % 2 == 0 ? named[zi / 2] : (named[zi / 2] + named[zi / 2 + 1]) / 2 + 16 * (zi + level);
				if (kind == 0) fill_pattern(inbuf, LL, PAT_TEXT, 11); else if (kind == 1) fill_xorshift(inbuf, LL, 12); else fill_mixed(inbuf, LL, 13);
				snprintf(in_name, sizeof in_name, "lbsizes:%s:%d:level_buf_size=%u", kind == 0 ? "text" : kind == 1 ? "incompressible" : "mixed", LL, lbs);
				for (int ci = 0; ci < 3; ci++)
					for (int api = 0; api < 2; api++)
						for (int gz = 0; gz < 2; gz++) {
							cpu_set_level(cpus[ci]);
							struct cparams p = { level, NO_FLUSH, gz ? IGZIP_GZIP : IGZIP_DEFLATE, 0, 0, LB_MIN, api ? API_ONECALL : API_STATELESS, 0, 0 };
							C_LB_BYTES = lbs;
							one(&p, cpus[ci], id, LL);
							C_LB_BYTES = 0;
						}
			}
}

/* many blocks: one stream with MORE THAN 65536 deflate blocks (N tiny SYNC/FULL-flushed calls, N around 2^16 and 2^17, then 2 MiB in one
 * final call whose blocks close on a full token buffer) - per-block counters, block numbers and "first block" flags kept in 16 bits wrap
 * here and nowhere else. Levels 0-3, smallest and default level buffer, all wrappers; the stream must decode (zlib) to the input. */
static void many_blocks(uint64_t *unit)
{
	static const int cpus[] = { CPU_BASE, CPU_AVX2, CPU_AVX512G2, CPU_SSE };
	static const int NS[] = { 65000, 65534, 65541, 131060 };
	enum { TAIL = 2 << 20, PIECE = 8 };
	static uint8_t *in, *out, *lb;
	size_t cap = (size_t)131060 * (PIECE + 160) + TAIL + TAIL / 4 + 4096; /* level 0 repeats its 110-byte header in every block */
	char key[300], why[256];
	for (int level = 0; level <= 3; level++)
		for (int lbi = 0; lbi < 2; lbi++)
			for (int fl = 0; fl < 2; fl++)
				for (int ni = 0; ni < 4; ni++) {
					uint64_t id = (*unit)++;
					if (!v_mine(id))
						continue;
					if (nfail > 40 || v_deadline_hit())
						return;
					if (level == 0 && lbi)
						continue;
					if (!in) {
						in = malloc((size_t)131060 * PIECE + TAIL);
						out = malloc(cap);
						lb = malloc(ISAL_DEF_LVL3_DEFAULT + 64);
					}
					int N = NS[ni], cpu = cpus[(level + lbi + fl + ni) % 4], gz = (level + fl + ni) % 3 == 0 ? IGZIP_DEFLATE : (level + fl + ni) % 3 == 1 ? IGZIP_GZIP : IGZIP_ZLIB;
					size_t len = (size_t)N * PIECE + TAIL;
					if ((lbi + fl) & 1) fill_mixed(in, len, 40 + ni); else fill_pattern(in, len, PAT_LOG, 41 + ni);
					cpu_set_level(cpu);
					static struct isal_zstream s;
					isal_deflate_init(&s);
					s.level = level;
					s.level_buf = level ? lb : NULL;
					s.level_buf_size = level ? (lbi ? lvl_default[level] : lvl_min[level]) : 0;
					s.gzip_flag = gz;
					s.next_out = out;
					s.avail_out = (uint32_t)cap;
					int r = COMP_OK;
					snprintf(key, sizeof key, "many-blocks level=%d level_buf=%s wrapper=%s cpu=%s: %d calls of %d bytes with %s, then %d bytes to the end", level, lbi ? "DEFAULT" : "MIN", gz_name[gz], cpu_level_name[cpu], N,
						 PIECE, fl ? "FULL_FLUSH" : "SYNC_FLUSH", TAIL);
					if (V_TRY()) {
						for (int i = 0; i < N && r == COMP_OK; i++) {
							s.next_in = in + (size_t)i * PIECE;
							s.avail_in = PIECE;
							s.flush = fl ? FULL_FLUSH : SYNC_FLUSH;
							r = isal_deflate(&s);
							if (s.avail_in)
								r = -77;
						}
						if (r == COMP_OK) {
							s.next_in = in + (size_t)N * PIECE;
							s.avail_in = TAIL;
							s.flush = NO_FLUSH;
							s.end_of_stream = 1;
							r = isal_deflate(&s);
						}
						V_END();
					} else {
						v_violation(key, "fault %s", v_fault_desc());
						nfail++;
						continue;
					}
					size_t outlen = cap - s.avail_out;
					v_eval_n(N + 1);
					if (r != COMP_OK || s.avail_in || s.internal_state.state != ZSTATE_END || s.total_in != (uint32_t)len) {
						v_violation(key, "return %d, avail_in %u, state %d, total_in %u of %zu", r, s.avail_in, s.internal_state.state, s.total_in, len);
						nfail++;
					} else if (!verify_with_zlib(out, outlen, gz, in, len, why, sizeof why)) {
						v_violation(key, "%s", why);
						nfail++;
					}
					v_count("many_block_streams", 1);
					v_nontrivial(v_hash(out, outlen > 4096 ? 4096 : outlen, id));
				}
}

int main(int argc, char **argv)
{
	v_init(argc, argv, "C01");
	inbuf = malloc(MAXIN);
	if (v_part && !strcmp(v_part, "encdf")) {
		encdf_part();
		if (v_shard == 0)
			v_note("encdf part: the three ICF->bits encoders on every assignment of 16 token realisations (widths 2..48, dense around the lane limits 28/29/31/32) to the four lanes of a half-vector x both halves x bit phases 0..7, compared bit for bit with an independent concatenation");
		return v_finish();
	}
	if (v_part && !strcmp(v_part, "reuse")) {
		stateless_reuse();
		if (v_shard == 0)
			v_note("reuse part: one isal_zstream used for two one-shot calls; first call ample / refused at csize-1, csize/2, csize/4, 100, 0 bytes of output; second call must decode to its input and equal a fresh object's output byte for byte");
		return v_finish();
	}
	uint64_t unit = 0;
	/* SHAPES */
	for (int li = 0; li < N_SHAPE_LENS; li++)
		for (int pat = 0; pat < PAT_N; pat++) {
			int len = shape_lens[li];
			if (len <= 4 && pat != PAT_ZERO && pat != PAT_ONE && pat != PAT_XS)
				continue;
			if (len > 4 && len <= 33 && (pat == PAT_P258 || pat == PAT_P259 || pat == PAT_RAMP))
				continue;
			if (!v_thorough && len > 600 && (pat == PAT_P2 || pat == PAT_P5 || pat == PAT_P259))
				continue;
			uint64_t id = unit++;
			if (!v_mine(id))
				continue;
			fill_pattern(inbuf, len, pat, len + pat);
			snprintf(in_name, sizeof in_name, "shape:%s:%d", pat_name[pat], len);
			sweep(id, len, 0, 0);
			if (nfail > 40 || v_deadline_hit())
				goto out;
		}
	/* TINY(sigma3, n) and TINY(sigma2, n): all strings */
	{
		int n3 = v_thorough ? 8 : 6, n2 = v_thorough ? 12 : 10;
		uint64_t c3 = tiny_count(3, n3), c2 = tiny_count(2, n2);
		for (uint64_t i = 0; i < c3 + c2; i++) {
			uint64_t id = unit++;
			if (!v_mine(id))
				continue;
			int len = i < c3 ? tiny_string(sigma3, 3, n3, i, inbuf) : tiny_string(sigma2, 2, n2, i - c3, inbuf);
			snprintf(in_name, sizeof in_name, "tiny:%s:%s", i < c3 ? "s3" : "s2", v_hex(inbuf, len));
			sweep(id, len, 1, 0);
			if (nfail > 40 || v_deadline_hit())
				goto out;
		}
	}
	/* FIBFREQ: byte values (and, through runs, match lengths) with Fibonacci frequencies, shuffled: the per-block Huffman trees the
	 * encoder builds for ITS OWN histograms at levels 1-3 exceed 15 levels and must be length-limited; variants with 18..30 symbols */
	for (int k = 0; k < (v_thorough ? 6 : 3); k++) {
		uint64_t id = unit++;
		if (!v_mine(id))
			continue;
		int nsym = 18 + k * 2 + (k > 3 ? 2 : 0), len = 0;
		uint64_t a = 1, b = 1, rs = 0x1234567 + k;
		for (int i = 0; i < nsym && len < MAXIN - 300000; i++) {
			for (uint64_t c = 0; c < a && len < MAXIN - 300000; c++) {
				inbuf[len++] = (uint8_t)(0x30 + i * 5);
				if (k & 1 && c % 97 == 96) /* every now and then a run: length symbols join the skew */
					for (int r = 0; r < 3 + (int)(c % 250) && len < MAXIN - 300000; r++)
						inbuf[len++] = (uint8_t)(0x30 + i * 5);
			}
			uint64_t t = a + b; a = b; b = t;
		}
		for (int i = len - 1; i > 0; i--) { /* shuffle (runs are broken up on purpose only for the even variants) */
			rs = v_mix(rs, i);
			if (!(k & 1)) { int j = (int)(rs % (uint64_t)(i + 1)); uint8_t t = inbuf[i]; inbuf[i] = inbuf[j]; inbuf[j] = t; }
		}
		snprintf(in_name, sizeof in_name, "fibfreq:%d-symbols:%d%s", nsym, len, k & 1 ? ":with-runs" : "");
		sweep(id, len, len > 8000, len > 8000 ? 1 : 0);
	}
	/* ADLEREDGE: text whose Adler-32 low word A (1 + byte sum mod 65521) is exactly 0, 1 or 65520 at the end of the input, or at the
	 * end of the 6th 97-byte chunk: the zlib trailer must carry the RFC 1950 value at the wrap-around points of the modulus too
	 * (the codec keeps A-1 internally and converts at every call boundary and in the trailer) */
	{
		static const int alens[] = { 257, 600, 4097 };
		static const uint32_t atarget[] = { 65520, 0, 65519 }; /* byte sum mod 65521 -> A = 0, 1, 65520 */
		for (int li = 0; li < 3; li++)
			for (int ti = 0; ti < 3; ti++)
				for (int pre = 0; pre < 2; pre++) {
					int len = alens[li], upto = pre ? 582 : len;
					if (pre && len != 600)
						continue;
					uint64_t id = unit++;
					if (!v_mine(id))
						continue;
					fill_pattern(inbuf, len, PAT_TEXT, len + ti);
					uint32_t S = 0;
					for (int i = 0; i < upto; i++)
						S += inbuf[i];
					uint32_t delta = (atarget[ti] + 65521u * 64 - S) % 65521u;
					for (int i = upto - 1; i >= 0 && delta; i--) {
						uint32_t add = 255u - inbuf[i] < delta ? 255u - inbuf[i] : delta;
						inbuf[i] += add;
						delta -= add;
					}
					if (delta)
						v_broken("adleredge: cannot reach the target sum");
					snprintf(in_name, sizeof in_name, "adleredge:%d:A=%u-after-%d-bytes", len, (atarget[ti] + 1) % 65521u, upto);
					sweep(id, len, 0, 0);
					if (nfail > 40 || v_deadline_hit())
						goto out;
				}
	}
	/* FIBDIST: records of R fresh noise bytes followed by an L-byte copy from a distance whose CODE (distance symbol) is drawn with
	 * Fibonacci frequencies; every copy source lies inside a noise stretch and is used once, so the match finder sees exactly that
	 * distance. The distance trees the encoder builds for its own blocks at levels 1-3 then exceed 15 levels and must be
	 * length-limited (with the large level buffers one block holds enough matches). */
	for (int k = 0; k < (v_thorough ? 6 : 3); k++) {
		uint64_t id = unit++;
		if (!v_mine(id))
			continue;
		int R = k % 3 == 1 ? 5 : 6, L = k % 3 == 1 ? 5 : 4, rec = R + L, s0 = k % 3 == 2 ? 10 : 8, ns = 20;
		int nrec = 17710, len = 0;
		static uint8_t *used;
		if (!used)
			used = malloc(MAXIN / 8 + 1);
		memset(used, 0, MAXIN / 8 + 1);
		uint64_t x = 0x243f6a8885a308d3ull + k;
		/* class weights: Fibonacci, most frequent = nearest distances (k >= 3: most frequent = farthest, after a noise warm-up) */
		uint64_t fib[32], tot = 0;
		fib[0] = fib[1] = 1;
		for (int i = 2; i < ns; i++) fib[i] = fib[i - 1] + fib[i - 2];
		for (int i = 0; i < ns; i++) tot += fib[i];
		if (k >= 3)
			for (; len < 33000; len++) { x ^= x << 13; x ^= x >> 7; x ^= x << 17; inbuf[len] = (uint8_t)(x >> 24); }
		for (int r = 0; r < nrec && len + rec < MAXIN - 300000; r++) {
			for (int j = 0; j < R; j++) { x ^= x << 13; x ^= x >> 7; x ^= x << 17; inbuf[len++] = (uint8_t)(x >> 24); }
			x ^= x << 13; x ^= x >> 7; x ^= x << 17;
			uint64_t pick = (x >> 11) % tot, acc = 0;
			int ci = 0;
			for (; ci < ns; ci++) { acc += fib[ci]; if (pick < acc) break; }
			int sym = k >= 3 ? s0 + ci : s0 + ns - 1 - ci; /* ci = ns-1 is the most frequent class */
			int done = 0;
			for (int tries = 0; tries < 2 && !done; tries++, sym = k >= 3 ? s0 + ns - 1 : s0) {
				uint32_t lo = g_dist_base[sym], hi = lo + (1u << g_dist_extra[sym]) - 1;
				for (uint32_t d = lo; d <= hi && !done; d++) {
					if ((uint32_t)len < d)
						break;
					int p = len - (int)d;
					/* the source must lie inside the noise part of a record (copies of copies would give a second, nearer occurrence) */
					int base = k >= 3 ? 33000 : 0;
					if (p < base || (p - base) % rec + L > R || (used[p >> 3] >> (p & 7) & 1))
						continue;
					used[p >> 3] |= (uint8_t)(1 << (p & 7));
					for (int j = 0; j < L; j++, len++)
						inbuf[len] = inbuf[len - d];
					done = 1;
				}
			}
			if (!done)
				for (int j = 0; j < L; j++) { x ^= x << 13; x ^= x >> 7; x ^= x << 17; inbuf[len++] = (uint8_t)(x >> 24); }
		}
		snprintf(in_name, sizeof in_name, "fibdist:variant%d:%d", k, len);
		sweep(id, len, 1, 1);
	}
	/* FARMIX: back-to-back far matches of assorted lengths (widest encoded symbols); levels 1-3 matter, every CPU level */
	for (int k = 0; k < (v_thorough ? 6 : 1); k++) {
		uint64_t id = unit++;
		if (!v_mine(id))
			continue;
		int len = v_thorough ? 768 * 1024 : 512 * 1024;
		fill_farmix(inbuf, len, 100 + k);
		snprintf(in_name, sizeof in_name, "farmix:%d:seed%d", len, k);
		sweep(id, len, 0, 2);
	}
	level_buf_sizes(&unit);
	many_blocks(&unit);
	/* BIG (thorough): window wrap, stored-block splitting at 65535, 16-bit hash index wrap */
	if (v_thorough)
		for (int li = 0; li < N_BIG_LENS; li++)
			for (int c = 0; c < 3; c++) {
				uint64_t id = unit++;
				if (!v_mine(id))
					continue;
				int len = big_lens[li];
				if (c == 0)
					fill_xorshift(inbuf, len, len);
				else if (c == 1)
					fill_pattern(inbuf, len, PAT_TEXT, len);
				else
					fill_mixed(inbuf, len, len);
				snprintf(in_name, sizeof in_name, "big:%s:%d", c == 0 ? "xorshift" : c == 1 ? "text" : "mixed", len);
				sweep(id, len, 0, 1);
				if (nfail > 40 || v_deadline_hit())
					goto out;
			}
out:
	if (v_shard == 0) {
		v_sample("level=2 flush=FULL_FLUSH wrapper=zlib hist_bits=12 level_buf=MIN api=deflate-chunked(97/61) cpu=avx2 input=shape:text:600 -> ref_inflate and zlib both return the input, trailer accepted, stream consumed to its last byte");
		v_sample("level=0 huff=custom(histogram of the input) wrapper=gzip_no_hdr api=stateless cpu=base input=tiny:s2:00000000000000ff");
		v_note("inputs outside the SHAPES/TINY/BIG families are not covered; identical (stream, wrapper, input) triples are decoded once (hash cache), every distinct stream by both references");
		v_note("compressor output is NOT required to be byte-identical across CPU levels (variants legitimately differ); only decodability to the input is");
	}
	return v_finish();
}
