/* C01 sub-check: the ICF -> bit-stream encoders (encode_deflate_icf_base / _04 / _06) are pure functions of (tokens, code tables,
 * bit buffer). Their vector paths treat 8 tokens at a time with per-lane width limits and fall back to a scalar path otherwise.
 * Enumerated here: EVERY assignment of token widths from a menu (around every lane limit: 27..33, and small / maximal widths) to the
 * four lanes of one half-vector x every bit phase 0..7 of the bit buffer x both halves x 2 realisations of each width (code bits vs
 * extra bits), on every kernel; the produced bits are compared with an independent concatenation of the codes. */
#ifndef C01_ENCDF_H
#define C01_ENCDF_H
#include "encode_df.h"
#include "bitbuf2.h"
extern struct deflate_icf *encode_deflate_icf_base(struct deflate_icf *, struct deflate_icf *, struct BitBuf2 *, struct hufftables_icf *);
extern struct deflate_icf *encode_deflate_icf_04(struct deflate_icf *, struct deflate_icf *, struct BitBuf2 *, struct hufftables_icf *);
extern struct deflate_icf *encode_deflate_icf_06(struct deflate_icf *, struct deflate_icf *, struct BitBuf2 *, struct hufftables_icf *);

struct edf_real { int w, a, b, x; }; /* width = a (lit/len code+extra) + b (dist code) + x (dist extra bits) */
static const struct edf_real EDF_MENU[] = {
	{ 2, 2, 0, 0 }, { 9, 9, 0, 0 }, { 17, 10, 5, 2 }, { 27, 12, 10, 5 }, { 28, 13, 10, 5 }, { 29, 13, 11, 5 }, { 30, 15, 10, 5 }, { 31, 15, 11, 5 },
	{ 32, 15, 12, 5 }, { 33, 20, 8, 5 }, { 41, 20, 15, 6 }, { 48, 20, 15, 13 },
	/* second realisation of the widths around the limits: mostly distance extra bits */
	{ 28, 8, 7, 13 }, { 29, 8, 8, 13 }, { 31, 9, 9, 13 }, { 32, 9, 10, 13 },
};
#define EDF_NMENU (int)(sizeof EDF_MENU / sizeof EDF_MENU[0])

static void encdf_part(void)
{
	static struct hufftables_icf T;
	struct { const char *name; struct deflate_icf *(*f)(struct deflate_icf *, struct deflate_icf *, struct BitBuf2 *, struct hufftables_icf *); int need; } K[] = {
		{ "encode_deflate_icf_base", encode_deflate_icf_base, 0 }, { "encode_deflate_icf_04", encode_deflate_icf_04, 1 }, { "encode_deflate_icf_06", encode_deflate_icf_06, 2 } };
	/* tables: lit/len entry i and distance entry i realise menu item i (arbitrary code bits: the encoders only concatenate) */
	uint64_t rs = 0x9e3779b97f4a7c15ull;
	memset(&T, 0, sizeof T);
	for (int i = 0; i < EDF_NMENU; i++) {
		rs = v_mix(rs, i);
		T.lit_len_table[i].code_and_extra = (uint32_t)(rs & ((1u << EDF_MENU[i].a) - 1));
		T.lit_len_table[i].length2 = EDF_MENU[i].a;
		if (EDF_MENU[i].b) {
			T.dist_table[i].code = (uint16_t)((rs >> 24) & ((1u << EDF_MENU[i].b) - 1));
			T.dist_table[i].extra_bit_count = EDF_MENU[i].x;
			T.dist_table[i].length = EDF_MENU[i].b;
		}
	}
	/* NULL_DIST_SYM (30): literal tokens carry no distance */
	T.dist_table[NULL_DIST_SYM].code = 0; T.dist_table[NULL_DIST_SYM].extra_bit_count = 0; T.dist_table[NULL_DIST_SYM].length = 0;
	char key[300];
	enum { NTOK = 40 };
	uint64_t unit = 31000000;
	long total = 1;
	for (int i = 0; i < 4; i++) total *= EDF_NMENU;
	for (int ki = 0; ki < 3; ki++) {
		if (K[ki].need > v_pcall_level)
			continue; /* the real CPU cannot execute this kernel */
		for (int half = 0; half < 2; half++)
			for (long pat = 0; pat < total; pat++) {
				if (!v_mine(unit++))
					continue;
				if ((pat & 1023) == 0 && (nfail > 40 || v_deadline_hit()))
					return;
				for (int phase = 0; phase < 8; phase++) {
					struct deflate_icf *tok = g_alloc(NTOK * sizeof *tok, G_END);
					int lanes[8];
					long pp = pat;
					for (int l = 0; l < 4; l++) { lanes[half * 4 + l] = (int)(pp % EDF_NMENU); pp /= EDF_NMENU; }
					for (int l = 0; l < 4; l++) lanes[(1 - half) * 4 + l] = (int)((pat + l + phase) % 3); /* small widths in the other half */
					uint64_t r2 = v_mix(pat, phase * 2 + half);
					for (int i = 0; i < NTOK; i++) {
						int m = i < 8 ? lanes[i] : (int)((r2 >> (i % 13)) % 4);
						r2 = v_mix(r2, i);
						tok[i].lit_len = m;
						tok[i].lit_dist = EDF_MENU[m].b ? m : NULL_DIST_SYM;
						tok[i].dist_extra = EDF_MENU[m].b ? (uint32_t)(r2 & ((1u << EDF_MENU[m].x) - 1)) : 0;
					}
					/* expected bit string */
					static uint8_t exp[1024], out[1024 + 64];
					memset(exp, 0, sizeof exp);
					size_t nb = 0;
					uint64_t pbits = r2 & ((1u << phase) - 1);
					#define PUT(v, n) do { for (int _b = 0; _b < (int)(n); _b++, nb++) if (((uint64_t)(v) >> _b) & 1) exp[nb >> 3] |= (uint8_t)(1 << (nb & 7)); } while (0)
					PUT(pbits, phase);
					for (int i = 0; i < NTOK; i++) {
						struct huff_code ls = T.lit_len_table[tok[i].lit_len], ds = T.dist_table[tok[i].lit_dist];
						PUT(ls.code_and_extra, ls.length2);
						PUT(ds.code, ds.length);
						PUT(tok[i].dist_extra, ds.extra_bit_count);
					}
					#undef PUT
					struct BitBuf2 bb;
					memset(out, 0x5A, sizeof out);
					bb.m_bits = pbits; bb.m_bit_count = phase;
					bb.m_out_buf = bb.m_out_start = out; bb.m_out_end = out + 1024 - 8;
					struct deflate_icf *ret = NULL;
					v_pcall_mode = 1 + (phase & 1);
					if (V_TRY()) {
						ret = (struct deflate_icf *)PCALL(K[ki].f, tok, tok + NTOK, &bb, &T);
						V_END();
					} else {
						snprintf(key, sizeof key, "%s fault lanes=%d,%d,%d,%d,%d,%d,%d,%d phase=%d", K[ki].name, EDF_MENU[lanes[0]].w, EDF_MENU[lanes[1]].w, EDF_MENU[lanes[2]].w, EDF_MENU[lanes[3]].w, EDF_MENU[lanes[4]].w,
							 EDF_MENU[lanes[5]].w, EDF_MENU[lanes[6]].w, EDF_MENU[lanes[7]].w, phase);
						v_violation(key, "%s", v_fault_desc());
						nfail++;
						g_reset();
						continue;
					}
					v_eval();
					/* reassemble: bytes written + residual bits */
					size_t wb = bb.m_out_buf - out;
					int bad = ret != tok + NTOK || wb * 8 + bb.m_bit_count != nb || bb.m_bit_count > 63;
					if (!bad) {
						bad = memcmp(out, exp, wb) != 0;
						for (unsigned i = 0; i < bb.m_bit_count && !bad; i++)
							if (((bb.m_bits >> i) & 1) != ((exp[(wb * 8 + i) >> 3] >> ((wb * 8 + i) & 7)) & 1))
								bad = 1;
					}
					if (bad) {
						size_t fb = 0;
						while (fb < wb && out[fb] == exp[fb]) fb++;
						snprintf(key, sizeof key, "%s wrong-bits token-widths=%d,%d,%d,%d|%d,%d,%d,%d bit-phase=%d", K[ki].name, EDF_MENU[lanes[0]].w, EDF_MENU[lanes[1]].w, EDF_MENU[lanes[2]].w, EDF_MENU[lanes[3]].w,
							 EDF_MENU[lanes[4]].w, EDF_MENU[lanes[5]].w, EDF_MENU[lanes[6]].w, EDF_MENU[lanes[7]].w, phase);
						v_violation(key, "consumed %ld of %d tokens, %zu bytes + %u bits written (expected %zu bits), first differing byte %zu", (long)(ret - tok), NTOK, wb, bb.m_bit_count, nb, fb);
						nfail++;
					}
					g_reset();
				}
				v_count("encoder_width_patterns", 1);
			}
		v_nontrivial(v_mix(0xedf, ki));
	}
}
#endif
