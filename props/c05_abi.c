/* C05 (part abi) - "reads only inside the source ranges and writes only inside the destination ranges implied by its arguments".
 * The arguments of the data-plane entry points that are narrower than 64 bits (int len, int k, int rows, int vec_i, int vects)
 * travel in 64-bit registers whose upper half the psABI leaves unspecified: a caller that narrows a 64-bit value passes the
 * register as it is (gcc -O2 turns f(buf, (int) n) into a plain jump). An entry point that uses the whole register then works on a
 * length of 4 GiB and more. Every erasure-code, RAID and constant-multiply entry point is called once with clean registers and
 * once with bits 63..32 of every int argument set (small valid shapes, exact-size buffers ending at inaccessible pages); the
 * second call must behave like the first. The entry points that fail today are listed, one by one, in known_findings.txt. */
#include "ec_common.h"
#include "raid.h"
#include "gf_vect_mul.h"

extern int xor_gen_avx512(int, int, void **), pq_gen_avx512(int, int, void **);


#define DIRTY 0xdecafbad00000000ull
#define KEYFMT "int argument taken from the whole 64-bit register (upper half unspecified by the psABI): %s"
enum { LEN = 256, K = 3 };

static uint64_t up(int v, int dirty) { return (uint64_t)(uint32_t)v | (dirty ? DIRTY : 0); }

static void ec_probe(const struct ecimpl *im, int update)
{
	char key[300];
	int rows = im->width ? im->width : 4;
	uint8_t a[8 * K], want[8][LEN], *src[K], *dst[8];
	ec_coeffs(a, rows * K, 17);
	snprintf(key, sizeof key, KEYFMT, im->name);
	for (int dirty = 0; dirty < 2; dirty++) {
		uint8_t *tbl = g_alloc(im->gfni ? (size_t)8 * K * rows : ec_tbl_size(K, rows), G_END);
		ec_tables(im, K, rows, a, tbl);
		for (int i = 0; i < K; i++) {
			src[i] = g_alloc(LEN, G_END);
			fill_xorshift(src[i], LEN, 40 + i);
		}
		for (int r = 0; r < rows; r++) {
			dst[r] = g_alloc(LEN, G_END);
			memset(dst[r], update ? 0x5a : 0xaa, LEN);
			for (int j = 0; j < LEN; j++) {
				uint8_t s = update ? 0x5a ^ rgf_mul(a[r * K + 1], src[1][j]) : 0;
				if (!update)
					for (int i = 0; i < K; i++)
						s ^= rgf_mul(a[r * K + i], src[i][j]);
				want[r][j] = s;
			}
		}
		uint8_t **srcv = g_alloc(K * sizeof *srcv, G_END), **dstv = g_alloc(rows * sizeof *dstv, G_END);
		memcpy(srcv, src, K * sizeof *srcv);
		memcpy(dstv, dst, rows * sizeof *dstv);
		int fault = 0;
		v_pcall_mode = 1;
		if (V_TRY()) {
			switch (im->kind) {
			case K_DP1: PCALL(im->fn, up(LEN, dirty), up(K, dirty), tbl, srcv, dst[0]); break;
			case K_DPN: PCALL(im->fn, up(LEN, dirty), up(K, dirty), tbl, srcv, dstv); break;
			case K_ENC: PCALL(im->fn, up(LEN, dirty), up(K, dirty), up(rows, dirty), tbl, srcv, dstv); break;
			case K_MAD1: PCALL(im->fn, up(LEN, dirty), up(K, dirty), up(1, dirty), tbl, src[1], dst[0]); break;
			case K_MADN: PCALL(im->fn, up(LEN, dirty), up(K, dirty), up(1, dirty), tbl, src[1], dstv); break;
			default: PCALL(im->fn, up(LEN, dirty), up(K, dirty), up(rows, dirty), up(1, dirty), tbl, src[1], dstv); break;
			}
			V_END();
		} else
			fault = 1;
		v_eval();
		int wrong = 0;
		for (int r = 0; r < rows && !fault; r++)
			wrong |= memcmp(dst[r], want[r], LEN) != 0;
		int damage = !fault && g_check();
		g_reset();
		if (!dirty && (fault || wrong || damage))
			v_broken("abi probe: %s fails with clean registers", im->name);
		if (dirty && (fault || wrong || damage))
			v_violation(key, "len=%d k=%d rows=%d passed with bits 63..32 of the argument registers set: %s (the same call with clean registers is right)", LEN, K, rows,
				    fault ? v_fault_desc() : wrong ? "wrong output" : "wrote outside the destination blocks");
	}
	v_count("abi_probes", 1);
	v_nontrivial(v_hash(im->name, strlen(im->name), 1));
}

typedef int (*raid_fn)(int, int, void **);
static void raid_probe(const char *name, raid_fn f, int pq, int check)
{
	char key[300];
	enum { V = 6 };
	snprintf(key, sizeof key, KEYFMT, name);
	for (int dirty = 0; dirty < 2; dirty++) {
		void **arr = g_alloc(V * sizeof(void *), G_END);
		uint8_t *v[V], wp[LEN], wq[LEN];
		int nsrc = V - (pq ? 2 : 1);
		for (int i = 0; i < V; i++) {
			v[i] = g_alloc_end_aligned(LEN, 32);
			if (i < nsrc)
				fill_xorshift(v[i], LEN, 70 + i);
			arr[i] = v[i];
		}
		for (int j = 0; j < LEN; j++) {
			uint8_t p = 0, q = 0;
			for (int i = nsrc - 1; i >= 0; i--) {
				p ^= v[i][j];
				q = rgf_mul_slow(q, 2) ^ v[i][j];
			}
			wp[j] = p; wq[j] = q;
		}
		if (check) {
			memcpy(v[nsrc], wp, LEN);
			if (pq)
				memcpy(v[nsrc + 1], wq, LEN);
		} else {
			memset(v[nsrc], 0xaa, LEN);
			if (pq)
				memset(v[nsrc + 1], 0x55, LEN);
		}
		int fault = 0, r = -999;
		v_pcall_mode = 1;
		if (V_TRY()) {
			r = (int)PCALL(f, up(V, dirty), up(LEN, dirty), arr);
			V_END();
		} else
			fault = 1;
		v_eval();
		int wrong = !fault && (r != 0 || memcmp(v[nsrc], wp, LEN) || (pq && memcmp(v[nsrc + 1], wq, LEN)));
		int damage = !fault && g_check();
		g_reset();
		if (!dirty && (fault || wrong || damage))
			v_broken("abi probe: %s fails with clean registers", name);
		if (dirty && (fault || wrong || damage))
			v_violation(key, "vects=%d len=%d passed with bits 63..32 of the argument registers set: %s (the same call with clean registers is right)", V, LEN,
				    fault ? v_fault_desc() : wrong ? "wrong result" : "wrote outside the parity blocks");
	}
	v_count("abi_probes", 1);
	v_nontrivial(v_hash(name, strlen(name), 2));
}

typedef int (*mul_fn)(int, unsigned char *, void *, void *);
static void mul_probe(const char *name, mul_fn f)
{
	char key[300];
	snprintf(key, sizeof key, KEYFMT, name);
	for (int dirty = 0; dirty < 2; dirty++) {
		uint8_t tbl[32], *src = g_alloc_end_aligned(LEN, 32), *dst = g_alloc_end_aligned(LEN, 32);
		gf_vect_mul_init(0x53, tbl);
		fill_xorshift(src, LEN, 99);
		memset(dst, 0xaa, LEN);
		int fault = 0, r = -999, wrong = 0;
		if (V_TRY()) {
			r = (int)PCALL(f, up(LEN, dirty), tbl, src, dst);
			V_END();
		} else
			fault = 1;
		v_eval();
		for (int j = 0; j < LEN && !fault; j++)
			wrong |= dst[j] != rgf_mul(0x53, src[j]);
		wrong |= !fault && r != 0;
		int damage = !fault && g_check();
		g_reset();
		if (!dirty && (fault || wrong || damage))
			v_broken("abi probe: %s fails with clean registers", name);
		if (dirty && (fault || wrong || damage))
			v_violation(key, "len=%d passed with bits 63..32 of its register set: %s", LEN, fault ? v_fault_desc() : wrong ? "wrong result" : "wrote outside the destination");
	}
	v_count("abi_probes", 1);
	v_nontrivial(v_hash(name, strlen(name), 3));
}

#include "igzip_lib.h"
extern void isal_update_histogram_base(uint8_t *, int, struct isal_huff_histogram *), isal_update_histogram_01(uint8_t *, int, struct isal_huff_histogram *),
	isal_update_histogram_04(uint8_t *, int, struct isal_huff_histogram *);
static void hist_probe(const char *name, void *f)
{
	char key[300];
	static struct isal_huff_histogram h[2];
	snprintf(key, sizeof key, KEYFMT, name);
	int fault = 0;
	for (int dirty = 0; dirty < 2 && !fault; dirty++) {
		uint8_t *in = g_alloc(3000, G_END);
		fill_pattern(in, 3000, PAT_LOG, 3);
		g_readonly(in, 1);
		memset(&h[dirty], 0, sizeof h[dirty]);
		if (V_TRY()) {
			PCALL(f, in, up(3000, dirty), &h[dirty]);
			V_END();
		} else
			fault = 1;
		v_eval();
		g_reset();
		if (!dirty && fault)
			v_broken("abi probe: %s fails with clean registers", name);
	}
	if (fault || memcmp(&h[0], &h[1], sizeof h[0]))
		v_violation(key, "length=3000 passed with bits 63..32 of its register set: %s", fault ? v_fault_desc() : "different histogram");
	v_count("abi_probes", 1);
	v_nontrivial(v_hash(name, strlen(name), 4));
}

int main(int argc, char **argv)
{
	v_init(argc, argv, "C05");
	rgf_init();
	if (v_shard == 0) {
		cpu_set_level(CPU_HOST);
		for (int i = 0; dp_impls[i].name; i++)
			ec_probe(&dp_impls[i], 0);
		for (int i = 0; mad_impls[i].name; i++)
			ec_probe(&mad_impls[i], 1);
		static struct ecimpl disp[2] = { { "ec_encode_data", K_ENC, 0, 0, 0, (void *)ec_encode_data, CPU_HOST }, { "ec_encode_data_update", K_UPD, 0, 0, 0, (void *)ec_encode_data_update, CPU_HOST } };
		ec_probe(&disp[0], 0);
		ec_probe(&disp[1], 1);
		raid_probe("xor_gen_base", xor_gen_base, 0, 0); raid_probe("xor_gen_sse", xor_gen_sse, 0, 0); raid_probe("xor_gen_avx", xor_gen_avx, 0, 0);
		raid_probe("xor_gen_avx512", xor_gen_avx512, 0, 0); raid_probe("xor_gen", xor_gen, 0, 0);
		raid_probe("pq_gen_base", pq_gen_base, 1, 0); raid_probe("pq_gen_sse", pq_gen_sse, 1, 0); raid_probe("pq_gen_avx", pq_gen_avx, 1, 0);
		raid_probe("pq_gen_avx2", pq_gen_avx2, 1, 0); raid_probe("pq_gen_avx512", pq_gen_avx512, 1, 0); raid_probe("pq_gen", pq_gen, 1, 0);
		raid_probe("xor_check_base", xor_check_base, 0, 1); raid_probe("xor_check_sse", xor_check_sse, 0, 1); raid_probe("xor_check", xor_check, 0, 1);
		raid_probe("pq_check_base", pq_check_base, 1, 1); raid_probe("pq_check_sse", pq_check_sse, 1, 1); raid_probe("pq_check", pq_check, 1, 1);
		mul_probe("gf_vect_mul_base", (mul_fn)gf_vect_mul_base); mul_probe("gf_vect_mul_sse", (mul_fn)gf_vect_mul_sse); mul_probe("gf_vect_mul_avx", (mul_fn)gf_vect_mul_avx);
		mul_probe("gf_vect_mul", (mul_fn)gf_vect_mul);
		hist_probe("isal_update_histogram_base", (void *)isal_update_histogram_base); hist_probe("isal_update_histogram_01", (void *)isal_update_histogram_01);
		hist_probe("isal_update_histogram_04", (void *)isal_update_histogram_04); hist_probe("isal_update_histogram", (void *)isal_update_histogram);
		v_note("abi part: every erasure-code, RAID and constant-multiply entry point once with clean argument registers and once with bits 63..32 of every int argument set");
	}
	return v_finish();
}
