/* C14 - flush points are byte-aligned, complete and (full flush) independent.
 * Uses the shared explorer: every flush point reached in the deflate graphs is checked (marker, prefix
 * decodes to the input handed over so far, state NEW_HDR) and every FULL-flush suffix is decoded with an
 * empty window at the terminal state. Plus flush-position sweeps on longer inputs and the one-shot API. */
#include "stream_explore.h"

static uint8_t *LIN;
static void sweep_positions(const char *name, int len, int level, int gz, int cpu, int cin)
{
	/* uniform input chunks, ample output; one flush request at call index i (all i), and two at (i, j) for all pairs, all kind combinations */
	if (!DST) {
		DST = g_persist(sizeof *DST, G_END);
		DLB = g_persist(ISAL_DEF_LVL3_MIN, G_END);
	}
	DIN = LIN; DINLEN = len; DLEVEL = level; DGZ = gz; DLBS = lvl_min[level];
	cpu_set_level(cpu);
	int ncalls = (len + cin - 1) / cin + 1;
	for (int i = -1; i < ncalls; i++)
		for (int j = i; j < ncalls; j++) {
			if (j == i && i >= 0)
				continue; /* j == i only for the no-second-flush case below */
			for (int kinds = 0; kinds < 4; kinds++) {
				int k1 = 1 + (kinds & 1), k2 = 1 + (kinds >> 1);
				if (i < 0 && kinds)
					continue;
				int second = j > i && i >= 0;
				if (!second && (kinds >> 1))
					continue;
				snprintf(ctxdesc, sizeof ctxdesc, "input=%s level=%d wrapper=%s cpu=%s chunks=%d flush@%d=%s flush@%d=%s", name, level, gz_name[gz], cpu_level_name[cpu], cin, i,
					 i < 0 ? "-" : flush_name[k1], second ? j : -1, second ? flush_name[k2] : "-");
				g_strict_free = 1;
				def_reset(8);
				ex_depth = 0;
				int r = EX_NEXT, call = 0;
				while (r == EX_NEXT && call < ncalls + 40) {
					int fl = call == i ? k1 : (second && call == j) ? k2 : NO_FLUSH;
					r = def_call(cin, -1, fl, 0, NULL);
					call++;
				}
				g_strict_free = 0;
				v_eval();
				v_count("flush_position_runs", 1);
				/* the same positions with a flush request issued on an EMPTY call (no new input) right after data call i:
				 * data call carries flush kind a in {NO,SYNC,FULL}, the empty call kind b in {SYNC,FULL}; kinds taken from the loop variable */
				if (i >= 0 && j == i + 1 && kinds == 0 && r != EX_VIOLATION) {
					for (int a = 0; a < 3 && nfail <= 20; a++)
						for (int b = 1; b < 3; b++) {
							snprintf(ctxdesc, sizeof ctxdesc, "input=%s level=%d wrapper=%s cpu=%s chunks=%d data-call@%d=%s then empty-call=%s", name, level, gz_name[gz], cpu_level_name[cpu], cin, i,
								 flush_name[a], flush_name[b]);
							g_strict_free = 1;
							def_reset(8);
							int rr = EX_NEXT, c2 = 0;
							while (rr == EX_NEXT && c2 < ncalls + 40) {
								rr = def_call(cin, -1, c2 == i ? a : NO_FLUSH, 1, NULL); /* eos announced late: an empty call may follow the last chunk */
								if (c2 == i && rr == EX_NEXT)
									rr = def_call(0, -1, b, 1, NULL);
								c2++;
								if (DCUR.in_off == DINLEN && rr == EX_NEXT) {
									rr = def_finish_generously(NULL, 8) ? EX_VIOLATION : EX_TERMINAL;
									break;
								}
							}
							g_strict_free = 0;
							v_eval();
							v_count("empty_flush_call_runs", 1);
						}
				}
				if (r == EX_NEXT) {
					char key[600];
					snprintf(key, sizeof key, "deflate no-termination %s", ctxdesc);
					v_violation(key, "stream not finished after %d calls", call);
					nfail++;
				}
				if (nfail > 20)
					return;
			}
			if (i < 0)
				break;
		}
	v_nontrivial(v_hash(ctxdesc, strlen(ctxdesc), 3));
}

/* exact-fit histories: the call that carries the flush request offers exactly as many bytes as the codec's internal staging buffer
 * (history + input kept from earlier calls + this piece) still has room for, or 1-2 bytes fewer / more. The room is read from the
 * live object after the preceding calls (steering only; the oracle is the usual flush-point check inside def_call). */
static void exact_fit(int level, int gz, int cpu, int kind)
{
	enum { XL = 140000 };
	static const int firsts[] = { 1, 100, 300, 1000, -40000, -70000 }; /* negative: that many bytes first (SYNC_FLUSH for 40000), then 100 more with NO_FLUSH */
	if (!DST) {
		DST = g_persist(sizeof *DST, G_END);
		DLB = g_persist(ISAL_DEF_LVL3_MIN, G_END);
	}
	if (kind)
		fill_xorshift(LIN, XL, 99);
	else
		for (int i = 0; i < XL; i++)
			LIN[i] = (uint8_t)("flush point test data, quite repetitive. 0123456789 abcdefghi "[i % 61]);
	DIN = LIN; DINLEN = XL; DLEVEL = level; DGZ = gz; DLBS = lvl_min[level];
	cpu_set_level(cpu);
	for (unsigned hi = 0; hi < 6; hi++)
		for (int which = 0; which < 2; which++)
			for (int d = -2; d <= 2; d++)
				for (int fl = 1; fl < 3; fl++) {
					g_strict_free = 1;
					def_reset(8);
					ex_depth = 0;
					snprintf(ctxdesc, sizeof ctxdesc, "exact-fit(prefix) input=%s:%d level=%d wrapper=%s cpu=%s history=%d", kind ? "incompressible" : "period61", XL, level, gz_name[gz], cpu_level_name[cpu], firsts[hi]);
					int r;
					if (firsts[hi] > 0)
						r = def_call(firsts[hi], -1, NO_FLUSH, 0, NULL);
					else {
						r = def_call(-firsts[hi], -1, firsts[hi] == -40000 ? SYNC_FLUSH : NO_FLUSH, 0, NULL);
						if (r == EX_NEXT)
							r = def_call(100, -1, NO_FLUSH, 0, NULL);
					}
					if (r != EX_NEXT) {
						g_strict_free = 0;
						continue;
					}
					uint32_t bv = DST->internal_state.b_bytes_valid, bp = DST->internal_state.b_bytes_processed;
					uint32_t shift = which && bp > 32768 ? bp - 32768 : 0;
					int n = (int)sizeof DST->internal_state.buffer - (int)(bv - shift) + d;
					if ((which && !shift) || n <= 0 || DCUR.in_off + n > XL) {
						g_strict_free = 0;
						continue;
					}
					snprintf(ctxdesc, sizeof ctxdesc, "exact-fit input=%s:%d level=%d wrapper=%s cpu=%s history=%d then %d bytes (room in the staging buffer %+d) with %s", kind ? "incompressible" : "period61", XL, level,
						 gz_name[gz], cpu_level_name[cpu], firsts[hi], n, d, flush_name[fl]);
					r = def_call(n, -1, fl, 0, NULL);
					if (r == EX_NEXT)
						r = def_call(97, -1, NO_FLUSH, 0, NULL);
					if (r == EX_NEXT)
						def_finish_generously(NULL, 12);
					g_strict_free = 0;
					v_eval();
					v_count("exact_fit_runs", 1);
				}
	v_nontrivial(v_hash(ctxdesc, strlen(ctxdesc), 5));
}

/* flush requests that cannot complete at once: a first segment of some KiB ends with a completed FULL_FLUSH (so the match tables are
 * full of positions from before the flush point); the next segment starts with a SHORT call that carries FULL_FLUSH / SYNC_FLUSH and
 * has so little output space that it returns with the flush pending; then the output is drained in small pieces, with or without
 * further input, and finally generously. Every completed flush point is checked as usual, FULL-flush suffixes are decoded on their
 * own at the end, and the stream object sits directly behind an inaccessible page every other run. */
static void pending_flush(int level, int gz, int cpu, int kind)
{
	enum { XL = 60000 };
	static const int as[] = { 3000, 9000, 40000 }, bs[] = { 1, 100, 1000, 2047, 2048, 8191 }, os[] = { 1, 10, 100 }, cs[] = { 0, 500 }, o2s[] = { 10, -1 };
	if (!DST) {
		DST = g_persist(sizeof *DST, G_END);
		DLB = g_persist(ISAL_DEF_LVL3_MIN, G_END);
	}
	if (kind)
		for (int i = 0; i < XL; i++) /* 16-byte rows from 11 round-robin channels */
			LIN[i] = (uint8_t)("chan00 chan01 chan02 chan03 chan04 chan05 chan06 chan07 chan08 chan09 chan10 "[((i / 16) % 11) * 7 + (i % 16 < 6 ? i % 16 : 6)] + (i % 16 >= 7 ? (i / 176 + i % 16) % 3 : 0));
	else
		fill_pattern(LIN, XL, PAT_LOG, 14);
	DIN = LIN; DINLEN = XL; DLEVEL = level; DGZ = gz; DLBS = lvl_min[level];
	cpu_set_level(cpu);
	for (int ai = 0; ai < 3; ai++)
		for (int bi = 0; bi < 6; bi++)
			for (int oi = 0; oi < 3; oi++)
				for (int ci = 0; ci < 2; ci++)
					for (int o2 = 0; o2 < 2; o2++)
						for (int fl = 1; fl < 3; fl++) {
							if (nfail > 20)
								return;
							snprintf(ctxdesc, sizeof ctxdesc, "pending-flush input=%s:%d level=%d wrapper=%s cpu=%s first-segment=%d+FULL_FLUSH then call(in=%d,out=%d,%s) then calls(in=%d,out=%d)", kind ? "channel-rows" : "log", XL,
								 level, gz_name[gz], cpu_level_name[cpu], as[ai], bs[bi], os[oi], flush_name[fl], cs[ci], o2s[o2]);
							g_strict_free = 1;
							def_reset(8);
							ex_depth = 0;
							int r = def_call(as[ai], -1, FULL_FLUSH, 0, NULL);
							if (r == EX_NEXT)
								r = def_call(bs[bi], os[oi], fl, 0, NULL);
							for (int k = 0; k < 40 && r == EX_NEXT; k++)
								r = def_call(cs[ci], o2s[o2], k < 3 ? fl : NO_FLUSH, 0, NULL);
							if (r == EX_NEXT || r == EX_SKIP)
								def_finish_generously(NULL, 12);
							g_strict_free = 0;
							v_eval();
							v_count("pending_flush_runs", 1);
						}
	/* steered variant: the flushing call gets its output ONE byte at a time until the codec sits exactly between the end-of-block symbol
	 * and the flush marker (state read from the live object: steering only), and exactly then new input arrives with FULL_FLUSH and
	 * ample output. Only FULL flushes are requested, so the end-of-stream check decodes from behind every marker. */
	for (int ai = 0; ai < 3; ai++)
		for (int bi = 1; bi < 6; bi++)
			for (int ci = 0; ci < 2; ci++) {
				if (nfail > 20)
					return;
				snprintf(ctxdesc, sizeof ctxdesc, "pending-marker input=%s:%d level=%d wrapper=%s cpu=%s first-segment=%d+FULL_FLUSH then %d bytes+FULL_FLUSH drained bytewise up to the marker, then %d new bytes+FULL_FLUSH",
					 kind ? "channel-rows" : "log", XL, level, gz_name[gz], cpu_level_name[cpu], as[ai], bs[bi], ci ? 3000 : 500);
				g_strict_free = 1;
				def_reset(40);
				ex_depth = 0;
				int r = def_call(as[ai], -1, FULL_FLUSH, 0, NULL);
				if (r == EX_NEXT)
					r = def_call(bs[bi], 1, FULL_FLUSH, 0, NULL);
				for (int k = 0; k < 30000 && r == EX_NEXT && DST->internal_state.state != ZSTATE_SYNC_FLUSH && DST->internal_state.state != ZSTATE_TMP_SYNC_FLUSH && DST->internal_state.state != ZSTATE_NEW_HDR; k++) {
					DCUR.flush_budget = 40;
					DCUR.zero_budget = 2;
					r = def_call(0, 1, FULL_FLUSH, 0, NULL);
				}
				if (r == EX_NEXT) {
					DCUR.flush_budget = 40;
					r = def_call(ci ? 3000 : 500, -1, FULL_FLUSH, 0, NULL);
				}
				if (r == EX_NEXT || r == EX_SKIP)
					def_finish_generously(NULL, 12);
				g_strict_free = 0;
				v_eval();
				v_count("pending_marker_runs", 1);
			}
	v_nontrivial(v_hash(ctxdesc, strlen(ctxdesc), 6));
}

static void stateless_pairs(void)
{
	static uint8_t A[9000], B[9000], outA[20000], outB[20000], cat[40000], both[18000];
	static const int cpus[] = { CPU_BASE, CPU_AVX2, CPU_AVX512G2 };
	int nt = (int)tiny_count(3, 3);
	int n = nt + 8;
	static const int slen[8] = { 8, 9, 258, 300, 600, 4096, 8192, 1000 };
	static const int spat[8] = { PAT_ZERO, PAT_ONE, PAT_P3, PAT_TEXT, PAT_XS, PAT_TEXT, PAT_P258, PAT_ZERO };
	uint64_t unit = 0;
	for (int a = 0; a < n; a++)
		for (int b = 0; b < n; b++) {
			if (!v_mine(unit++))
				continue;
			if (v_deadline_hit() || nfail > 20)
				return;
			int la = a < nt ? tiny_string(sigma3, 3, 3, a, A) : (fill_pattern(A, slen[a - nt], spat[a - nt], a), slen[a - nt]);
			int lb = b < nt ? tiny_string(sigma3, 3, 3, b, B) : (fill_pattern(B, slen[b - nt], spat[b - nt], b + 100), slen[b - nt]);
			if (a >= nt && b >= nt && spat[a - nt] == spat[b - nt])
				memcpy(B, A, lb < la ? lb : la); /* shared content: a cross-boundary match would be tempting */
			memcpy(both, A, la);
			memcpy(both + la, B, lb);
			for (int level = 0; level <= 3; level++)
				for (int ci = 0; ci < 3; ci++) {
					char key[300], why[256];
					cpu_set_level(cpus[ci]);
					snprintf(key, sizeof key, "stateless-full-flush A=%d(len %d) B=%d(len %d) level=%d cpu=%s", a, la, b, lb, level, cpu_level_name[cpus[ci]]);
					struct isal_zstream *s = g_alloc(sizeof *s, G_END);
					uint8_t *lbuf = level ? g_alloc(lvl_default[level], G_END) : NULL;
					int r1 = -1000, r2 = -1000;
					size_t n1 = 0, n2 = 0;
					if (V_TRY()) {
						isal_deflate_stateless_init(s);
						s->level = level; s->level_buf = lbuf; s->level_buf_size = level ? lvl_default[level] : 0;
						s->flush = FULL_FLUSH; s->end_of_stream = 0;
						s->next_in = A; s->avail_in = la; s->next_out = outA; s->avail_out = sizeof outA;
						r1 = isal_deflate_stateless(s);
						n1 = sizeof outA - s->avail_out;
						isal_deflate_stateless_init(s);
						s->level = level; s->level_buf = lbuf; s->level_buf_size = level ? lvl_default[level] : 0;
						s->flush = NO_FLUSH; s->end_of_stream = 1;
						s->next_in = B; s->avail_in = lb; s->next_out = outB; s->avail_out = sizeof outB;
						r2 = isal_deflate_stateless(s);
						n2 = sizeof outB - s->avail_out;
						V_END();
					} else {
						v_violation(key, "fault at %s", v_sym(v_fault_rip));
						nfail++;
						g_reset();
						continue;
					}
					v_eval();
					g_reset();
					if (r1 != COMP_OK || r2 != COMP_OK) {
						v_violation(key, "return codes %d %d", r1, r2);
						nfail++;
						continue;
					}
					/* A alone: byte-aligned, unterminated prefix that decodes to A */
					if (!verify_deflate_output(outA, n1, IGZIP_DEFLATE, A, la, 1, 0, NULL, 0, why, sizeof why) || vs_res.saw_bfinal) {
						v_violation(key, "one-shot FULL_FLUSH output is not a byte-aligned unterminated prefix: %s%s; stream=%s", why, vs_res.saw_bfinal ? " (BFINAL seen)" : "", v_hex(outA, n1 > 64 ? 64 : n1));
						nfail++;
						continue;
					}
					memcpy(cat, outA, n1);
					memcpy(cat + n1, outB, n2);
					if (!verify_deflate_output(cat, n1 + n2, IGZIP_DEFLATE, both, la + lb, 0, 0, NULL, 0, why, sizeof why) ||
					    !verify_with_zlib(cat, n1 + n2, IGZIP_DEFLATE, both, la + lb, why, sizeof why)) {
						v_violation(key, "stateless(A,FULL_FLUSH) ++ stateless(B) is not one valid stream for A++B: %s", why);
						nfail++;
						continue;
					}
					v_count("stateless_pairs_verified", 1);
				}
			v_nontrivial(v_mix(a, b));
		}
}

int main(int argc, char **argv)
{
	v_init(argc, argv, "C14");
	g_canary_span = 256;
	gs_init();
	fill_xorshift(se_in17, 17, 5);
	static const int din_a[] = { 0, 1, 2, -1 }, dout_a[] = { 0, 1, 8, 17, -1 };
	static const int din_q[] = { 0, 1, -1 }, dout_q[] = { 0, 1, 8, -1 };
	if (!v_part || !strcmp(v_part, "graphs")) {
		DA_IN = din_a; NDA_IN = 4; DA_OUT = dout_a; NDA_OUT = 5;
		if (!v_thorough) { DA_IN = din_q; NDA_IN = 3; DA_OUT = dout_q; NDA_OUT = 4; }
		static const int sel_q[] = { 1, 2 }, sel_t[] = { 1, 2, 3, 5, 7 };
		static const int cpus[] = { CPU_BASE, CPU_AVX2, CPU_AVX512G2 };
		uint64_t unit = 0;
		int n = v_thorough ? 5 : 2;
		for (int ii = 0; ii < n; ii++)
			for (int level = 0; level <= 3; level++)
				for (int gz = 0; gz < (v_thorough ? 2 : 1); gz++) {
					if (!v_mine(unit++))
						continue;
					if (nfail > 20 || v_deadline_hit())
						break;
					int di = v_thorough ? sel_t[ii] : sel_q[ii];
					if (!v_thorough && di == 2 && level == 0)
						continue; /* 0.5M+ states: thorough tier only */
					deflate_graph(se_din[di].name, se_din[di].p, se_din[di].len, level, gz ? IGZIP_ZLIB : IGZIP_DEFLATE, cpus[(ii + level) % 3], 2, v_thorough ? 3000000 : 500000);
				}
	}
	if (!v_part || !strcmp(v_part, "positions")) {
		LIN = malloc(200000);
		static const int cpus[] = { CPU_BASE, CPU_SSE, CPU_AVX2, CPU_AVX512G2 };
		uint64_t unit = 0;
		for (int variant = 0; variant < (v_thorough ? 8 : 4); variant++)
			for (int level = 0; level <= 3; level++)
				for (int ci = 0; ci < 4; ci++) {
					if (!v_mine(unit++))
						continue;
					if (nfail > 20 || v_deadline_hit())
						break;
					/* variant 2 / 5: large pieces handed over in single calls (compressed straight from the caller's buffer, no internal buffering) */
					/* variant 3 / 7: flush points that are whole multiples of 64 KiB (and 32 KiB) apart - positions are kept in 16-bit hash indices */
					static const int vlen[] = { 600, 1500, 32000, 171072, 3000, 300, 39000, 140000 }, vcin[] = { 97, 97, 9000, 65536, 300, 97, 13000, 32768 };
					int len = vlen[variant];
					/* content with repeats across every possible flush point: period 61 text */
					for (int i = 0; i < len; i++)
						LIN[i] = (uint8_t)("flush point test data, quite repetitive. 0123456789 abcdefghi "[i % 61]);
					char nm[64];
					for (SE_CONTIG = 0; SE_CONTIG < 2; SE_CONTIG++) {
						snprintf(nm, sizeof nm, "period61:%d%s", len, SE_CONTIG ? ":contiguous" : ":fresh-chunks");
						sweep_positions(nm, len, level, variant % 2 ? IGZIP_GZIP : IGZIP_DEFLATE, cpus[ci], vcin[variant]);
					}
					SE_CONTIG = 0;
				}
	}
	if (!v_part || !strcmp(v_part, "positions")) {
		static const int cpus[] = { CPU_BASE, CPU_SSE, CPU_AVX2, CPU_AVX512G2 };
		uint64_t unit = 700000;
		for (int level = 0; level <= 3; level++)
			for (int kind = 0; kind < 2; kind++)
				for (int ci = 0; ci < 4; ci++) {
					if (!v_thorough && ci != (level + kind) % 4)
						continue;
					if (!v_mine(unit++))
						continue;
					if (nfail > 20 || v_deadline_hit())
						break;
					exact_fit(level, (level + kind + ci) % 2 ? IGZIP_GZIP : IGZIP_DEFLATE, cpus[ci], kind);
					pending_flush(level, (level + kind + ci) % 2 ? IGZIP_DEFLATE : IGZIP_ZLIB, cpus[ci], kind);
				}
	}
	if (!v_part || !strcmp(v_part, "stateless"))
		stateless_pairs();
	if (v_shard == 0) {
		v_sample("graph input=abcab level=1 flush_budget=2: every call made with SYNC/FULL that returns with avail_in==0 && avail_out>0 is a flush point: output ends 00 00 FF FF, prefix decodes to the input so far, state NEW_HDR");
		v_sample("period61:600 level=2 chunks=97 flush@2=FULL_FLUSH flush@5=SYNC_FLUSH: suffix from the FULL flush point decodes with an empty window");
		v_sample("stateless(A=text:300,FULL_FLUSH) ++ stateless(B=text:4096,NO_FLUSH) decodes (ref + zlib) to A++B; A part is unterminated and byte aligned");
		v_note("an oracle sanity probe (DESIGN C14) showed the suffix-isolation decode rejects the suffix after a SYNC flush, so it has teeth");
	}
	return v_finish();
}
