/* C04 - CRC / Adler-32 equal their definitions and compose, in every variant. */
#include "verif.h"
#include "ref_crc.h"
#include "crc.h"
#include "crc64.h"
#include "igzip_lib.h"

enum fam { F_T10, F_T10C, F_IEEE, F_GZIP, F_ISCSI, F_E_R, F_E_N, F_I_R, F_I_N, F_J_R, F_J_N, F_R_R, F_R_N, F_ADLER, F_NFAM };
static const char *fam_name[] = { "crc16_t10dif", "crc16_t10dif_copy", "crc32_ieee", "crc32_gzip_refl", "crc32_iscsi", "crc64_ecma_refl", "crc64_ecma_norm",
				  "crc64_iso_refl", "crc64_iso_norm", "crc64_jones_refl", "crc64_jones_norm", "crc64_rocksoft_refl", "crc64_rocksoft_norm", "adler32" };
static const int fam_width[] = { 16, 16, 32, 32, 32, 64, 64, 64, 64, 64, 64, 64, 64, 32 };
static struct rcrc *fam_r64[] = { 0, 0, 0, 0, 0, &R_ECMA_R, &R_ECMA_N, &R_ISO_R, &R_ISO_N, &R_JONES_R, &R_JONES_N, &R_ROCK_R, &R_ROCK_N, 0 };

typedef uint16_t (*k16)(uint16_t, const uint8_t *, uint64_t);
typedef uint16_t (*k16c)(uint16_t, uint8_t *, uint8_t *, uint64_t);
typedef uint32_t (*k32)(uint32_t, const uint8_t *, uint64_t);
typedef unsigned (*k32i)(unsigned char *, int, unsigned);
typedef uint64_t (*k64)(uint64_t, const uint8_t *, uint64_t);

#define D(n) extern void n(void)
D(crc16_t10dif_01); D(crc16_t10dif_02); D(crc16_t10dif_by4); D(crc16_t10dif_by16_10);
D(crc16_t10dif_copy_by4); D(crc16_t10dif_copy_by4_02);
D(crc32_ieee_01); D(crc32_ieee_02); D(crc32_ieee_by4); D(crc32_ieee_by16_10);
D(crc32_gzip_refl_by8); D(crc32_gzip_refl_by8_02); D(crc32_gzip_refl_by16_10);
D(crc32_iscsi_00); D(crc32_iscsi_01); D(crc32_iscsi_by16_10);
D(crc64_ecma_refl_by16_10); D(crc64_ecma_norm_by16_10); D(crc64_iso_refl_by16_10); D(crc64_iso_norm_by16_10);
D(crc64_jones_refl_by16_10); D(crc64_jones_norm_by16_10); D(crc64_rocksoft_refl_by16_10); D(crc64_rocksoft_norm_by16_10);
D(adler32_base); D(adler32_sse); D(adler32_avx2_4);
#undef D

struct impl { const char *name; int fam; void *fn; int level; };
#define I(n, f) { #n, f, (void *)n, -1 }
static struct impl impls[160] = {
	I(crc16_t10dif_base, F_T10), I(crc16_t10dif_01, F_T10), I(crc16_t10dif_02, F_T10), I(crc16_t10dif_by4, F_T10), I(crc16_t10dif_by16_10, F_T10),
	I(crc16_t10dif_copy_base, F_T10C), I(crc16_t10dif_copy_by4, F_T10C), I(crc16_t10dif_copy_by4_02, F_T10C),
	I(crc32_ieee_base, F_IEEE), I(crc32_ieee_01, F_IEEE), I(crc32_ieee_02, F_IEEE), I(crc32_ieee_by4, F_IEEE), I(crc32_ieee_by16_10, F_IEEE),
	I(crc32_gzip_refl_base, F_GZIP), I(crc32_gzip_refl_by8, F_GZIP), I(crc32_gzip_refl_by8_02, F_GZIP), I(crc32_gzip_refl_by16_10, F_GZIP),
	I(crc32_iscsi_base, F_ISCSI), I(crc32_iscsi_00, F_ISCSI), I(crc32_iscsi_01, F_ISCSI), I(crc32_iscsi_by16_10, F_ISCSI),
	I(crc64_ecma_refl_base, F_E_R), I(crc64_ecma_refl_by8, F_E_R), I(crc64_ecma_refl_by16_10, F_E_R),
	I(crc64_ecma_norm_base, F_E_N), I(crc64_ecma_norm_by8, F_E_N), I(crc64_ecma_norm_by16_10, F_E_N),
	I(crc64_iso_refl_base, F_I_R), I(crc64_iso_refl_by8, F_I_R), I(crc64_iso_refl_by16_10, F_I_R),
	I(crc64_iso_norm_base, F_I_N), I(crc64_iso_norm_by8, F_I_N), I(crc64_iso_norm_by16_10, F_I_N),
	I(crc64_jones_refl_base, F_J_R), I(crc64_jones_refl_by8, F_J_R), I(crc64_jones_refl_by16_10, F_J_R),
	I(crc64_jones_norm_base, F_J_N), I(crc64_jones_norm_by8, F_J_N), I(crc64_jones_norm_by16_10, F_J_N),
	I(crc64_rocksoft_refl_base, F_R_R), I(crc64_rocksoft_refl_by8, F_R_R), I(crc64_rocksoft_refl_by16_10, F_R_R),
	I(crc64_rocksoft_norm_base, F_R_N), I(crc64_rocksoft_norm_by8, F_R_N), I(crc64_rocksoft_norm_by16_10, F_R_N),
	I(adler32_base, F_ADLER), I(adler32_sse, F_ADLER), I(adler32_avx2_4, F_ADLER),
};
static int nimpl;
static int ndirect;

static uint64_t wmask(int f) { return fam_width[f] == 64 ? ~0ull : ((1ull << fam_width[f]) - 1); }

#define UPPER(x) (((x) & 1) ? 0xdecafbad00000000ull : 0)
static uint64_t call_impl(const struct impl *im, uint64_t seed, uint8_t *buf, size_t len, uint8_t *dst)
{
	/* every kernel call is made with the caller-saved vector/mask registers, rax, r10, r11 and the flags poisoned (engine/pcall.S) */
	v_pcall_mode = 1 + (int)(len & 1);
	switch (im->fam) {
	/* arguments narrower than 64 bits travel in 64-bit registers whose upper half is unspecified by the psABI (a caller that
	 * narrows a 64-bit value passes it as it is): every other call sets bits 63..32 of those registers */
	case F_T10: return (uint16_t)PCALL(im->fn, (uint64_t)(uint16_t)seed | UPPER(len), buf, len);
	case F_T10C: return (uint16_t)PCALL(im->fn, (uint64_t)(uint16_t)seed | UPPER(len), dst, buf, len);
	case F_IEEE: case F_GZIP: case F_ADLER: return (uint32_t)PCALL(im->fn, (uint64_t)(uint32_t)seed | UPPER(len), buf, len);
	case F_ISCSI: return (uint32_t)PCALL(im->fn, buf, (uint64_t)(uint32_t)len | UPPER(len + 1), (uint64_t)(uint32_t)seed | UPPER(len));
	default: return PCALL(im->fn, seed, buf, len);
	}
}
static uint64_t ref_fam(int f, uint64_t seed, const uint8_t *buf, size_t len)
{
	switch (f) {
	case F_T10: case F_T10C: return ref_crc16_t10dif((uint16_t)seed, buf, len);
	case F_IEEE: return ref_crc32_ieee((uint32_t)seed, buf, len);
	case F_GZIP: return ref_crc32_gzip_refl((uint32_t)seed, buf, len);
	case F_ISCSI: return ref_crc32_iscsi(buf, len, (uint32_t)seed);
	case F_ADLER: return ref_adler32((uint32_t)seed, buf, len);
	default: return ref_crc64(fam_r64[f], seed, buf, len);
	}
}

static long nfail;
static void check_case(const struct impl *im, uint64_t seed, uint8_t *buf, size_t len, uint64_t expect, const char *what, const char *place)
{
	char key[256];
	uint8_t *dst = NULL;
	if (im->fam == F_T10C) {
		dst = g_alloc(len, G_END);
		memset(dst, 0xEE, len);
	}
	uint64_t got = 0;
	/* a checksum only reads its message: the buffer is write-protected for the call (arena buffers; the >4 GiB mappings are checked by value) */
	int ro = g_owns(buf);
	if (ro)
		g_readonly(buf, 1);
	if (V_TRY()) {
		got = call_impl(im, seed, buf, len, dst);
		V_END();
		if (ro)
			g_readonly(buf, 0);
	} else {
		if (ro)
			g_readonly(buf, 0);
		snprintf(key, sizeof key, "%s fault len=%zu %s", im->name, len, place);
		v_violation(key, "fault at %s addr=%p (%s) %s seed=%llx", v_sym(v_fault_rip), (void *)v_fault_addr, v_fault_write ? "write" : "read", what, (unsigned long long)seed);
		return;
	}
	v_eval();
	if ((got & wmask(im->fam)) != (expect & wmask(im->fam))) {
		snprintf(key, sizeof key, "%s wrong len=%zu %s %s", im->name, len, what, place);
		v_violation(key, "seed=%llx got %llx expected %llx data(first 64)=%s", (unsigned long long)seed, (unsigned long long)got,
			    (unsigned long long)expect, v_hex(buf, len > 64 ? 64 : len));
		nfail++;
	}
	if (dst && memcmp(dst, buf, len)) {
		snprintf(key, sizeof key, "%s copy-mismatch len=%zu %s", im->name, len, place);
		v_violation(key, "destination differs from source");
	}
}

static uint64_t seed_for(int f, int which)
{
	if (f == F_ADLER) {
		static const uint32_t s[] = { 1, 0, 0xFFF0FFF0u, 0x1234ABCDu % 65521 | (0x7777u << 16) };
		return s[which & 3];
	}
	static const uint64_t s[] = { 0, ~0ull, 0x0123456789abcdefull, 0x8000000000000001ull };
	return s[which & 3] & wmask(f);
}

/* ---- messages longer than 4 GiB (len is a uint64_t): counters kept in 32-bit registers would wrap ----
 * The message is all zero except one byte and lives in a MAP_NORESERVE mapping backed by the shared zero page. The expected value
 * comes from the bit-serial reference without running it over 4 GiB: for a fixed family, seed -> f(seed, one zero byte) is an
 * affine map over GF(2) (measured column by column FROM THE REFERENCE, then validated against the reference on short runs);
 * repeated squaring gives the map for n zero bytes, and f(seed, A||B) = f(f(seed, A), B) is the composition law under test in (C). */
#include <sys/mman.h>
struct aff { uint64_t col[64], c; };
static uint64_t aff_apply(const struct aff *a, uint64_t x)
{
	uint64_t r = a->c;
	for (int i = 0; i < 64; i++)
		if (x >> i & 1)
			r ^= a->col[i];
	return r;
}
static void aff_compose(struct aff *o, const struct aff *a, const struct aff *b) /* o = a after b */
{
	struct aff t;
	t.c = aff_apply(a, b->c);
	for (int i = 0; i < 64; i++)
		t.col[i] = aff_apply(a, b->col[i]) ^ a->c;
	*o = t;
}
static uint64_t zeros_advance(int f, uint64_t seed, uint64_t n)
{
	if (f == F_ADLER) { /* definition: A unchanged, B += n*A (mod 65521) */
		uint64_t a = seed & 0xffff, b = seed >> 16 & 0xffff;
		a %= 65521; b %= 65521;
		b = (b + (n % 65521) * a) % 65521;
		return b << 16 | a;
	}
	static const uint8_t z = 0;
	struct aff step, acc;
	memset(&step, 0, sizeof step);
	step.c = ref_fam(f, 0, &z, 1);
	for (int i = 0; i < fam_width[f]; i++)
		step.col[i] = ref_fam(f, 1ull << i, &z, 1) ^ step.c;
	memset(&acc, 0, sizeof acc);
	for (int i = 0; i < 64; i++)
		acc.col[i] = 1ull << i; /* identity */
	while (n) {
		if (n & 1)
			aff_compose(&acc, &step, &acc);
		aff_compose(&step, &step, &step);
		n >>= 1;
	}
	return aff_apply(&acc, seed) & wmask(f);
}
static void huge_part(void)
{
	const uint64_t G4 = 1ull << 32, MAPLEN = G4 + (32u << 20);
	uint8_t *map = mmap(NULL, MAPLEN, PROT_READ | PROT_WRITE, MAP_PRIVATE | MAP_ANONYMOUS | MAP_NORESERVE, -1, 0);
	if (map == MAP_FAILED) {
		v_not_exhaustive("huge part: cannot map 4 GiB + 32 MiB of address space");
		return;
	}
	/* validate the zero-run operator against the reference itself */
	{
		static uint8_t zz[3000];
		for (int f = 0; f < F_NFAM; f++)
			for (int n = 0; n <= 3000; n += (n < 70 ? 1 : 977))
				for (int s = 0; s < 4; s++)
					if (zeros_advance(f, seed_for(f, s), n) != (ref_fam(f, seed_for(f, s), zz, n) & wmask(f)))
						v_broken("zero-run operator disagrees with the reference: family %s n=%d", fam_name[f], n);
	}
	char key[256];
	uint64_t unit = 0;
	int curlevel = -2;
	for (int ii = 0; ii < nimpl; ii++) {
		const struct impl *im = &impls[ii];
		int f = im->fam;
		if (f == F_ISCSI || f == F_T10C)
			continue; /* int length / needs a 4 GiB destination */
		int slow = strstr(im->name, "_base") != NULL;
		if (im->level >= 0 && im->level != CPU_AVX512G2 && im->level != CPU_AVX2 && !(v_thorough && im->level == CPU_SSE))
			continue;
		/* 2^28+1000 and 2^29+2^20+33: internal chunking constants of the portable code (every kernel, also the table-driven base ones);
		 * 2^32 and beyond: 32-bit counters (vector kernels in the quick tier, all kernels in the thorough tier) */
		/* 2^32 + k*5552 (+ a multiple of the kernels' own block sizes): the remaining count after a block is then a non-zero multiple of 2^32 */
		const uint64_t lens[] = { (1ull << 28) + 1000, (1ull << 29) + (1u << 20) + 33, G4, G4 + 1, G4 + 4097, G4 + (16u << 20) + 3, G4 + 5552, G4 + 3 * 5552, G4 + 4096 * 64, G4 + 128 };
		for (unsigned li = 0; li < 10; li++) {
			if (!v_thorough && li != 1 && li != 3 && li != 5 && !(li >= 6 && (f == F_ADLER || li == 8 || li == 9)))
				continue;
			if (slow && !v_thorough && li != 1)
				continue;
			if (!v_mine(unit++))
				continue;
			if (v_deadline_hit())
				goto out;
			if (im->level >= 0 && im->level != curlevel) {
				cpu_set_level(im->level);
				curlevel = im->level;
			}
			uint64_t len = lens[li];
			const uint64_t pos[] = { len - 1, G4 + 1 < len ? G4 : len - 1, 77 };
			for (unsigned pi = 0; pi < 3; pi++) {
				uint64_t q = pos[pi];
				uint8_t b = 0xA7;
				uint64_t sd = seed_for(f, 2);
				uint64_t mid = ref_fam(f, zeros_advance(f, sd, q), &b, 1) & wmask(f);
				uint64_t expect = zeros_advance(f, mid, len - q - 1);
				map[q] = b;
				uint64_t got = call_impl(im, sd, map, len, NULL) & wmask(f);
				map[q] = 0;
				v_eval();
				if (got != expect) {
					snprintf(key, sizeof key, "%s huge wrong len=%llu byte-at=len-%llu", im->name, (unsigned long long)len, (unsigned long long)(len - q));
					v_violation(key, "seed=%llx got %llx expected %llx (message: zeros, one byte a7 at offset %llu)", (unsigned long long)sd, (unsigned long long)got, (unsigned long long)expect, (unsigned long long)q);
					nfail++;
				}
			}
			v_count("messages_over_4GiB_checked", 3);
			v_nontrivial(v_mix(0x4619 + ii, li));
		}
	}
out:
	munmap(map, MAPLEN);
}

int main(int argc, char **argv)
{
	v_init(argc, argv, "C04");
	int r = rcrc_init();
	if (r)
		v_broken("ref_crc self-test %d", r);
	{
		static const uint8_t wiki[] = "Wikipedia";
		if (ref_adler32(1, wiki, 9) != 0x11E60398)
			v_broken("ref_adler32 self-test");
	}
	while (impls[nimpl].name)
		nimpl++;
	ndirect = nimpl;
	/* dispatched entries under each simulated CPU level */
	static char names[128][64];
	static void *entry[] = { crc16_t10dif, crc16_t10dif_copy, crc32_ieee, crc32_gzip_refl, crc32_iscsi, crc64_ecma_refl, crc64_ecma_norm, crc64_iso_refl,
				 crc64_iso_norm, crc64_jones_refl, crc64_jones_norm, crc64_rocksoft_refl, crc64_rocksoft_norm, isal_adler32 };
	int nn = 0;
	for (int lvl = 0; lvl < CPU_NLEVELS; lvl++)
		for (int f = 0; f < F_NFAM; f++) {
			snprintf(names[nn], 64, "%s@%s", f == F_ADLER ? "isal_adler32" : fam_name[f], cpu_level_name[lvl]);
			impls[nimpl++] = (struct impl){ names[nn++], f, entry[f], lvl };
		}

	if (v_part && !strcmp(v_part, "huge")) {
		huge_part();
		if (v_shard == 0)
			v_note("huge part: messages of 2^32 .. 2^32+16 MiB bytes (zero-page-backed), one non-zero byte at the end / just beyond 4 GiB / near the start; expected values from the reference via the zero-run operator (affine map measured from the reference, repeated squaring)");
		return v_finish();
	}
	int N = v_thorough ? 2200 : 600;
	int NI = v_thorough ? 300 : 160; /* impulse sweep bound */
	int NC = v_thorough ? 400 : 200; /* composition bound */
	static const int aq[] = { 0, 1, 7, 8, 15, 16, 31, 63 };
	uint8_t *data[4];
	for (int d = 0; d < 4; d++)
		data[d] = malloc(N + 64);
	memset(data[0], 0, N + 64);
	memset(data[1], 0xff, N + 64);
	for (int i = 0; i < N + 64; i++)
		data[2][i] = (uint8_t)i;
	fill_xorshift(data[3], N + 64, 4242);
	static const char *dname[] = { "zero", "ff", "ramp", "xorshift" };
	int curlevel = -2;

	for (int ii = 0; ii < nimpl; ii++) {
		const struct impl *im = &impls[ii];
		if (im->level >= 0 && im->level != curlevel) {
			cpu_set_level(im->level);
			curlevel = im->level;
		}
		int f = im->fam;
		int direct = im->level < 0;
		for (int len = 0; len <= N; len++) {
			if (!v_mine(len))
				continue;
			if (v_deadline_hit())
				goto out;
			if (f == F_ISCSI && len > 0x7fffffff)
				continue;
			/* (A) designed data x seeds x placements */
			uint64_t exp[4][4];
			for (int d = 0; d < 4; d++)
				for (int s = 0; s < 4; s++)
					exp[d][s] = ref_fam(f, seed_for(f, s), data[d], len);
			int nplace = direct ? (len <= 300 ? 65 : 9) : 2;
			for (int pl = 0; pl < nplace; pl++) {
				uint8_t *p;
				char place[16];
				if (pl == 0) {
					p = g_alloc(len, G_END);
					strcpy(place, "E");
				} else {
					int off = direct ? (len <= 300 ? pl - 1 : aq[pl - 1]) : 0;
					p = g_alloc_off(len, off);
					snprintf(place, sizeof place, "S+%d", off);
				}
				for (int d = 0; d < 4; d++) {
					memcpy(p, data[d], len);
					for (int s = 0; s < 4; s++) {
						if (pl > 1 && (d + s) % 2 && len > 64)
							continue; /* thin the product for interior alignments of long buffers */
						check_case(im, seed_for(f, s), p, len, exp[d][s], dname[d], place);
					}
				}
				if (g_check()) {
					char key[128];
					snprintf(key, sizeof key, "%s wrote outside len=%d %s", im->name, len, place);
					v_violation(key, "%s", g_last_damage());
				}
				g_reset();
			}
			v_nontrivial(v_mix(ii, len));
			if (!direct)
				continue;
			/* (B) unit impulses: every bit of every byte (CRC: GF(2)-affine in the message), Adler: values 1 and 255 at every byte */
			if (len <= NI && len > 0) {
				uint8_t *p = g_alloc(len, G_END);
				memset(p, 0, len);
				uint8_t tmp[NI + 1];
				memset(tmp, 0, len);
				for (int pos = 0; pos < len; pos++) {
					int nb = f == F_ADLER ? 2 : 8;
					for (int b = 0; b < nb; b++) {
						uint8_t v = f == F_ADLER ? (b ? 255 : 1) : (uint8_t)(1 << b);
						p[pos] = tmp[pos] = v;
						uint64_t sd = f == F_ADLER ? 1 : 0;
						check_case(im, sd, p, len, ref_fam(f, sd, tmp, len), "impulse", "E");
						if (nfail > 40)
							goto out;
					}
					p[pos] = tmp[pos] = 0;
				}
				g_reset();
				v_count("impulse_cases", (int64_t)len * (f == F_ADLER ? 2 : 8));
			}
			/* (C) unit seeds on the zero message */
			if (len <= 300 || len % 37 == 0) {
				uint8_t *p = g_alloc(len, G_END);
				memset(p, 0, len);
				for (int b = 0; b < fam_width[f]; b++) {
					uint64_t sd = 1ull << b;
					if (f == F_ADLER && ((sd & 0xffff) >= 65521 || (sd >> 16) >= 65521))
						continue;
					check_case(im, sd, p, len, ref_fam(f, sd, data[0], len), "unit-seed", "E");
				}
				g_reset();
			}
			/* (E) composition at every split point */
			if (len <= NC) {
				uint8_t *p = g_alloc(len, G_END);
				memcpy(p, data[3], len);
				uint64_t sd = seed_for(f, 2);
				uint64_t whole = ref_fam(f, sd, data[3], len);
				for (int s = 0; s <= len; s++) {
					uint64_t a = 0, b = 0;
					uint8_t *dst = im->fam == F_T10C ? g_alloc(len, G_END) : NULL;
					if (V_TRY()) {
						a = call_impl(im, sd, p, s, dst);
						b = call_impl(im, a & wmask(f), p + s, len - s, dst ? dst + s : NULL);
						V_END();
					} else {
						char key[128];
						snprintf(key, sizeof key, "%s fault split len=%d", im->name, len);
						v_violation(key, "fault at %s split=%d", v_sym(v_fault_rip), s);
						break;
					}
					v_eval();
					if ((b & wmask(f)) != (whole & wmask(f))) {
						char key[128];
						snprintf(key, sizeof key, "%s compose len=%d split=%d", im->name, len, s);
						v_violation(key, "f(f(seed,m[0..%d)),m[%d..%d))=%llx but f(seed,m)=%llx", s, s, len, (unsigned long long)b, (unsigned long long)whole);
						if (++nfail > 40)
							goto out;
					}
				}
				v_count("split_cases", len + 1);
				g_reset();
			}
		}
		/* (D) large lengths, all-FF and xorshift: Adler deferred-modulo schedule, 256-byte by16 loops */
		{
			static const size_t big[] = { 5551, 5552, 5553, 65519, 65520, 65521, 65522, 65535, 65536, 65537, 131071, 1048576 + 5, 16777216 + 7 };
			int nb = v_thorough ? 13 : 12;
			for (int bi = 0; bi < nb; bi++) {
				if (!v_mine(ii * 16 + bi) || !direct)
					continue;
				if (v_deadline_hit())
					goto out;
				size_t len = big[bi];
				for (int d = 0; d < 2; d++) {
					uint8_t *p = g_alloc(len, G_END);
					if (d == 0)
						memset(p, 0xff, len);
					else
						fill_xorshift(p, len, len);
					uint64_t sd = f == F_ADLER ? 0xFFF0FFF0u : seed_for(f, 1);
					check_case(im, sd, p, len, ref_fam(f, sd, p, len), d ? "big-xorshift" : "big-ff", "E");
					g_reset();
				}
				v_nontrivial(v_mix(ii + 1000, len));
			}
		}
		/* (F) medium lengths: EVERY length behind the dense sweep up to two full periods of the largest block structure any kernel has
		 * (crc32_iscsi_*: 3 x 1024-byte streams = 3072 bytes, recombined through a 128-entry constant table indexed by the chunk count of
		 * a partial block; Adler: 5552) - one placement (end at a guard page / page-aligned start alternating), xorshift data, one seed;
		 * the reference value is carried forward byte by byte */
		if (direct) {
			int M = v_thorough ? 20000 : 6400;
			static uint8_t *md;
			if (!md) {
				md = malloc(20000 + 64);
				fill_xorshift(md, 20000 + 64, 777);
			}
			uint64_t sd = seed_for(f, 2);
			uint64_t cur = ref_fam(f, sd, md, N);
			for (int len = N + 1; len <= M; len++) {
				cur = ref_fam(f, cur, md + len - 1, 1);
				if (!v_mine(len))
					continue;
				if (v_deadline_hit() || nfail > 40)
					goto out;
				uint8_t *p = len & 1 ? g_alloc(len, G_END) : g_alloc_off(len, 0);
				memcpy(p, md, len);
				check_case(im, sd, p, len, cur, "medium-xorshift", len & 1 ? "E" : "S+0");
				g_reset();
				v_count("medium_length_cases", 1);
			}
			v_nontrivial(v_mix(ii + 2000, M));
		}
	}
out:
	if (v_shard == 0) {
		uint8_t chk[] = "123456789";
		v_sample("crc32_gzip_refl(0,'123456789')=%08x (check CBF43926)", crc32_gzip_refl(0, chk, 9));
		v_sample("crc64_ecma_refl_by8(0,'123456789')=%016llx (XZ check 995DC9BBDF1939FA)", (unsigned long long)crc64_ecma_refl_by8(0, chk, 9));
		v_sample("impulse case: crc16_t10dif_by4(0, e(byte 37, bit 5), len 100) vs bit-serial reference");
		v_sample("split case: crc32_iscsi_01 len=200 split=77: f(f(seed,m[0..77)),m[77..200)) == f(seed,m)");
		v_note("CRC functions are GF(2)-affine in (seed,message) for fixed length: zero message + all unit impulses + all unit seeds determine "
		       "them for every message of that length, under the assumption that the kernels have no data-dependent control flow (checked on dense xorshift data, not proved)");
		v_count("implementations", nimpl);
	}
	return v_finish();
}
