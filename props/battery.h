/* Data-plane agreement battery: exercises every public dispatched entry point under the CPU
 * configuration currently loaded into verif_simcpu (slots must have been reset) and compares with the
 * independent references. Used by C16 (invariant 4: whatever is selected, results are identical)
 * and by C15 (same bodies under the write monitor / threads). Returns number of cases run. */
#ifndef BATTERY_H
#define BATTERY_H
#include "verif.h"
#include "ref_crc.h"
#include "ref_gf.h"
#include "crc.h"
#include "crc64.h"
#include "erasure_code.h"
#include "raid.h"
#include "mem_routines.h"
#include "igzip_lib.h"
#include <zlib.h>

static int bat_inited;
static void bat_init(void)
{
	if (bat_inited)
		return;
	int r = rcrc_init();
	if (r)
		v_broken("ref_crc self-test %d failed", r);
	rgf_init();
	bat_inited = 1;
}

#define BAT_FAIL(entry, ...)                                                                              \
	do {                                                                                              \
		char k_[256], d_[1024];                                                                   \
		snprintf(k_, sizeof k_, "agreement entry=%s selected=%s", entry, cpu_selected(entry));    \
		snprintf(d_, sizeof d_, __VA_ARGS__);                                                     \
		v_violation(k_, "%s; %s", d_, ctx);                                                       \
	} while (0)

typedef uint64_t (*crc64_fn)(uint64_t, const unsigned char *, uint64_t);

static int bat_zlib_inflate(const uint8_t *in, size_t inlen, uint8_t *out, size_t outcap, int wbits, size_t *outlen)
{
	z_stream z;
	memset(&z, 0, sizeof z);
	if (inflateInit2(&z, wbits) != Z_OK)
		return -100;
	z.next_in = (Bytef *)in;
	z.avail_in = inlen;
	z.next_out = out;
	z.avail_out = outcap;
	int r = inflate(&z, Z_FINISH);
	*outlen = z.total_out;
	int left = z.avail_in;
	inflateEnd(&z);
	if (r != Z_STREAM_END)
		return r == Z_OK ? -101 : r;
	return left ? -102 : 0;
}

static int battery_run(const char *ctx, int depth)
{
	bat_init();
	int cases = 0;
	static const int lens[] = { 0, 1, 7, 15, 16, 17, 31, 32, 33, 63, 64, 65, 127, 128, 129, 255, 256, 257, 511, 1027 };
	int nl = sizeof lens / sizeof lens[0];
	uint8_t *buf = g_alloc(2048, G_END);
	/* ---- CRC family ---- */
	for (int li = 0; li < nl; li++) {
		int len = lens[li];
		uint8_t *p = buf + 2048 - len; /* end-flush */
		fill_xorshift(p, len, 1000 + len);
		uint64_t seed = 0x0123456789abcdefull ^ (uint64_t)len * 0x9e3779b97f4a7c15ull;
		uint64_t got, exp;
		if (!V_TRY()) {
			BAT_FAIL("crc*", "%s len=%d", v_fault_desc(), len);
			continue;
		}
		got = crc16_t10dif((uint16_t)seed, p, len); exp = ref_crc16_t10dif((uint16_t)seed, p, len);
		if (got != exp) BAT_FAIL("crc16_t10dif", "len=%d got %llx expected %llx", len, (unsigned long long)got, (unsigned long long)exp);
		got = crc32_ieee((uint32_t)seed, p, len); exp = ref_crc32_ieee((uint32_t)seed, p, len);
		if (got != exp) BAT_FAIL("crc32_ieee", "len=%d got %llx expected %llx", len, (unsigned long long)got, (unsigned long long)exp);
		got = crc32_gzip_refl((uint32_t)seed, p, len); exp = ref_crc32_gzip_refl((uint32_t)seed, p, len);
		if (got != exp) BAT_FAIL("crc32_gzip_refl", "len=%d got %llx expected %llx", len, (unsigned long long)got, (unsigned long long)exp);
		got = crc32_iscsi(p, len, (uint32_t)seed); exp = ref_crc32_iscsi(p, len, (uint32_t)seed);
		if (got != exp) BAT_FAIL("crc32_iscsi", "len=%d got %llx expected %llx", len, (unsigned long long)got, (unsigned long long)exp);
		{
			uint8_t dst[1100];
			memset(dst, 0xEE, sizeof dst);
			got = crc16_t10dif_copy((uint16_t)seed, dst + 8, p, len); exp = ref_crc16_t10dif((uint16_t)seed, p, len);
			if (got != exp || memcmp(dst + 8, p, len) || dst[7] != 0xEE || dst[8 + len] != 0xEE)
				BAT_FAIL("crc16_t10dif_copy", "len=%d got %llx expected %llx (or copy mismatch)", len, (unsigned long long)got, (unsigned long long)exp);
		}
		static const struct { const char *n; crc64_fn f; struct rcrc *r; } c64[] = {
			{ "crc64_ecma_refl", crc64_ecma_refl, &R_ECMA_R }, { "crc64_ecma_norm", crc64_ecma_norm, &R_ECMA_N },
			{ "crc64_iso_refl", crc64_iso_refl, &R_ISO_R }, { "crc64_iso_norm", crc64_iso_norm, &R_ISO_N },
			{ "crc64_jones_refl", crc64_jones_refl, &R_JONES_R }, { "crc64_jones_norm", crc64_jones_norm, &R_JONES_N },
			{ "crc64_rocksoft_refl", crc64_rocksoft_refl, &R_ROCK_R }, { "crc64_rocksoft_norm", crc64_rocksoft_norm, &R_ROCK_N } };
		for (int i = 0; i < 8; i++) {
			got = c64[i].f(seed, p, len); exp = ref_crc64(c64[i].r, seed, p, len);
			if (got != exp) BAT_FAIL(c64[i].n, "len=%d got %llx expected %llx", len, (unsigned long long)got, (unsigned long long)exp);
		}
		got = isal_adler32((uint32_t)seed % 65521 | ((uint32_t)(seed >> 32) % 65521) << 16, p, len);
		exp = ref_adler32((uint32_t)seed % 65521 | ((uint32_t)(seed >> 32) % 65521) << 16, p, len);
		if (got != exp) BAT_FAIL("isal_adler32", "len=%d got %llx expected %llx", len, (unsigned long long)got, (unsigned long long)exp);
		/* zero detect */
		memset(p, 0, len);
		int z = isal_zero_detect(p, len);
		if (z != 0) BAT_FAIL("isal_zero_detect", "len=%d all-zero reported %d", len, z);
		if (len) {
			p[len - 1] = 0x80;
			z = isal_zero_detect(p, len);
			if (z == 0) BAT_FAIL("isal_zero_detect", "len=%d non-zero last byte missed", len);
			p[len - 1] = 0; p[0] = 1;
			z = isal_zero_detect(p, len);
			if (z == 0) BAT_FAIL("isal_zero_detect", "len=%d non-zero first byte missed", len);
		}
		V_END();
		cases += 16;
	}
	g_reset();
	/* ---- RAID ---- */
	{
		static const int rl[] = { 32, 64, 96, 128, 160, 1024 };
		for (unsigned li = 0; li < sizeof rl / sizeof rl[0]; li++) {
			int len = rl[li], vects = 6;
			void *arr[8];
			for (int i = 0; i < vects; i++) {
				arr[i] = g_alloc_end_aligned(len, 32);
				fill_xorshift(arr[i], len, 77 + i * 5 + len);
			}
			uint8_t ep[1024], eq[1024];
			for (int j = 0; j < len; j++) {
				uint8_t p = 0, q = 0;
				for (int i = vects - 3; i >= 0; i--) {
					uint8_t d = ((uint8_t *)arr[i])[j];
					p ^= d;
					q = rgf_mul(q, 2) ^ d;
				}
				ep[j] = p; eq[j] = q;
			}
			if (V_TRY()) {
				int r = pq_gen(vects, len, arr);
				if (r != 0 || memcmp(arr[vects - 2], ep, len) || memcmp(arr[vects - 1], eq, len))
					BAT_FAIL("pq_gen", "vects=%d len=%d ret=%d wrong parity", vects, len, r);
				r = pq_check(vects, len, arr);
				if (r != 0) BAT_FAIL("pq_check", "consistent array reported %d (len=%d)", r, len);
				((uint8_t *)arr[2])[len - 1] ^= 0x40;
				r = pq_check(vects, len, arr);
				if (r == 0) BAT_FAIL("pq_check", "corruption missed (len=%d)", len);
				((uint8_t *)arr[2])[len - 1] ^= 0x40;
				/* xor over vects-1 arrays: last is parity */
				uint8_t ex[1024];
				for (int j = 0; j < len; j++) {
					uint8_t x = 0;
					for (int i = 0; i < vects - 2; i++)
						x ^= ((uint8_t *)arr[i])[j];
					ex[j] = x;
				}
				r = xor_gen(vects - 1, len, arr);
				if (r != 0 || memcmp(arr[vects - 2], ex, len)) BAT_FAIL("xor_gen", "vects=%d len=%d ret=%d wrong parity", vects - 1, len, r);
				r = xor_check(vects - 1, len, arr);
				if (r != 0) BAT_FAIL("xor_check", "consistent array reported %d (len=%d)", r, len);
				((uint8_t *)arr[0])[0] ^= 1;
				r = xor_check(vects - 1, len, arr);
				if (r == 0) BAT_FAIL("xor_check", "corruption missed (len=%d)", len);
			} else
				BAT_FAIL("raid", "%s len=%d", v_fault_desc(), len);
			V_END();
			if (g_check()) BAT_FAIL("raid", "%s", g_last_damage());
			g_reset();
			cases += 7;
		}
	}
	/* ---- erasure code ---- */
	{
		static const int el[] = { 1, 15, 16, 17, 31, 32, 33, 63, 64, 65, 100, 255, 1024 };
		for (unsigned li = 0; li < sizeof el / sizeof el[0]; li++)
			for (int rows = 1; rows <= (depth > 1 ? 13 : 7); rows++) {
				int len = el[li], k = 4;
				uint8_t a[13 * 4], *tbl = g_alloc(32 * k * rows, G_END);
				uint8_t *src[4], *dst[13], *upd[13];
				for (int i = 0; i < k * rows; i++)
					a[i] = (uint8_t)(i * 37 + 3 + len);
				for (int i = 0; i < k; i++) {
					src[i] = g_alloc(len, G_END);
					fill_xorshift(src[i], len, i * 11 + len);
				}
				for (int i = 0; i < rows; i++) {
					dst[i] = g_alloc(len, G_END);
					upd[i] = g_alloc(len, G_END);
					memset(dst[i], 0xAA, len);
					memset(upd[i], 0, len);
				}
				if (V_TRY()) {
					ec_init_tables(k, rows, a, tbl);
					ec_encode_data(len, k, rows, tbl, src, dst);
					for (int i = k - 1; i >= 0; i--)
						ec_encode_data_update(len, k, rows, i, tbl, src[i], upd);
					for (int r = 0; r < rows; r++)
						for (int j = 0; j < len; j++) {
							uint8_t e = 0;
							for (int i = 0; i < k; i++)
								e ^= rgf_mul(a[r * k + i], src[i][j]);
							if (dst[r][j] != e) {
								BAT_FAIL("ec_encode_data", "len=%d rows=%d row %d byte %d got %02x expected %02x (tables by %s)", len, rows, r, j, dst[r][j], e, cpu_selected("ec_init_tables"));
								r = rows;
								break;
							}
							if (upd[r][j] != e) {
								BAT_FAIL("ec_encode_data_update", "len=%d rows=%d row %d byte %d got %02x expected %02x", len, rows, r, j, upd[r][j], e);
								r = rows;
								break;
							}
						}
				} else
					BAT_FAIL("ec_encode_data", "%s len=%d rows=%d", v_fault_desc(), len, rows);
				V_END();
				if (g_check()) BAT_FAIL("ec_encode_data", "%s len=%d rows=%d", g_last_damage(), len, rows);
				g_reset();
				cases += 2;
			}
		/* gf_vect_dot_prod / gf_vect_mad / gf_vect_mul take 32-byte tables always */
		for (unsigned li = 0; li < sizeof el / sizeof el[0]; li++) {
			int len = el[li], k = 5;
			uint8_t *tbl = g_alloc(32 * k, G_END), *src[5], *d1 = g_alloc(len, G_END), *d2 = g_alloc(len, G_END);
			uint8_t coef[5];
			for (int i = 0; i < k; i++) {
				coef[i] = (uint8_t)(0x53 * (i + 1) + len);
				gf_vect_mul_init(coef[i], tbl + 32 * i);
				src[i] = g_alloc(len, G_END);
				fill_xorshift(src[i], len, 900 + i + len);
			}
			memset(d2, 0, len);
			if (V_TRY()) {
				if (len >= 16) { /* documented minimum for gf_vect_dot_prod: len >= 16 (32 for avx2) ; use 32 */
				}
				if (len >= 64) { /* documented minimum: gf_vect_dot_prod len >= 32, gf_vect_mad len >= 64 */
					gf_vect_dot_prod(len, k, tbl, src, d1);
					for (int i = 0; i < k; i++)
						gf_vect_mad(len, k, i, tbl, src[i], d2);
					for (int j = 0; j < len; j++) {
						uint8_t e = 0;
						for (int i = 0; i < k; i++)
							e ^= rgf_mul(coef[i], src[i][j]);
						if (d1[j] != e) { BAT_FAIL("gf_vect_dot_prod", "len=%d byte %d got %02x expected %02x", len, j, d1[j], e); break; }
						if (d2[j] != e) { BAT_FAIL("gf_vect_mad", "len=%d byte %d got %02x expected %02x", len, j, d2[j], e); break; }
					}
				}
				if (len % 32 == 0) {
					int r = gf_vect_mul(len, tbl, src[0], d1);
					if (r != 0) BAT_FAIL("gf_vect_mul", "len=%d returned %d", len, r);
					for (int j = 0; j < len; j++)
						if (d1[j] != rgf_mul(coef[0], src[0][j])) { BAT_FAIL("gf_vect_mul", "len=%d byte %d wrong", len, j); break; }
				}
			} else
				BAT_FAIL("gf_vect_*", "%s len=%d", v_fault_desc(), len);
			V_END();
			if (g_check()) BAT_FAIL("gf_vect_*", "%s len=%d", g_last_damage(), len);
			g_reset();
			cases += 3;
		}
	}
	/* ---- igzip: round trips through zlib (foreign decoder / encoder) ---- */
	{
		static const int zl[] = { 0, 1, 9, 300, 4096, 70000 };
		static const int zp[] = { PAT_TEXT, PAT_XS, PAT_ZERO, PAT_P258 };
		static uint8_t *in, *out, *back, *lvlbuf;
		if (!in) {
			in = malloc(70000); out = malloc(160000); back = malloc(70000 + 64); lvlbuf = malloc(ISAL_DEF_LVL3_DEFAULT);
		}
		for (unsigned li = 0; li < sizeof zl / sizeof zl[0]; li++)
			for (unsigned pi = 0; pi < (depth > 1 ? 4 : 2); pi++)
				for (int level = 0; level <= 3; level++)
					for (int api = 0; api < 2; api++) {
						int len = zl[li];
						if (len == 70000 && depth < 2 && (pi || api == 0))
							continue;
						fill_pattern(in, len, zp[pi], len);
						struct isal_zstream s;
						int r = -999;
						static const int lsz[] = { 0, ISAL_DEF_LVL1_DEFAULT, ISAL_DEF_LVL2_DEFAULT, ISAL_DEF_LVL3_DEFAULT };
						if (V_TRY()) {
							if (api == 0)
								isal_deflate_stateless_init(&s);
							else
								isal_deflate_init(&s);
							s.level = level;
							s.level_buf = level ? lvlbuf : NULL;
							s.level_buf_size = lsz[level];
							s.gzip_flag = IGZIP_GZIP;
							s.next_in = in; s.avail_in = len; s.end_of_stream = 1;
							s.next_out = out; s.avail_out = 160000; /* only the one-shot API has an output bound */
							r = api == 0 ? isal_deflate_stateless(&s) : isal_deflate(&s);
						} else {
							BAT_FAIL(api ? "isal_deflate_body" : "isal_deflate_body", "%s compressing len=%d level=%d api=%d", v_fault_desc(), len, level, api);
							V_END();
							continue;
						}
						V_END();
						size_t bl = 0;
						int zr = r == 0 ? bat_zlib_inflate(out, s.total_out, back, 70000 + 64, 15 + 16, &bl) : -1;
						if (r != 0 || zr != 0 || bl != (size_t)len || memcmp(back, in, len)) {
							char e[64];
							snprintf(e, sizeof e, "isal_deflate%s level%d", api ? "" : "_stateless", level);
							char k_[256];
							snprintf(k_, sizeof k_, "agreement deflate level=%d api=%d body=%s icf=%s", level, api, cpu_selected("isal_deflate_body"), cpu_selected("isal_deflate_icf_body_lvl1"));
							v_violation(k_, "ret=%d zlib=%d len=%d pattern=%s: gzip stream does not decode to the input; %s", r, zr, len, pat_name[zp[pi]], ctx);
						}
						cases++;
						/* decode our own stream and a zlib-produced one */
						if (r == 0 && level == 1) {
							struct inflate_state st;
							int ir = -999;
							if (V_TRY()) {
								isal_inflate_init(&st);
								st.crc_flag = ISAL_GZIP;
								st.next_in = out; st.avail_in = s.total_out;
								st.next_out = back; st.avail_out = 70000 + 64;
								ir = api == 0 ? isal_inflate_stateless(&st) : isal_inflate(&st);
							} else
								BAT_FAIL("decode_huffman_code_block_stateless", "%s len=%d", v_fault_desc(), len);
							V_END();
							if (ir != 0 || st.total_out != (uint32_t)len || memcmp(back, in, len) || st.block_state != ISAL_BLOCK_FINISH)
								BAT_FAIL("decode_huffman_code_block_stateless", "inflate ret=%d total_out=%u len=%d state=%d", ir, st.total_out, len, st.block_state);
							/* zlib encoder, level 6, raw */
							uLongf cl = 160000;
							if (compress2(out, &cl, in, len, 6) == Z_OK) {
								if (V_TRY()) {
									isal_inflate_init(&st);
									st.crc_flag = ISAL_ZLIB;
									st.next_in = out; st.avail_in = cl;
									st.next_out = back; st.avail_out = 70000 + 64;
									ir = api == 0 ? isal_inflate_stateless(&st) : isal_inflate(&st);
								} else
									BAT_FAIL("decode_huffman_code_block_stateless", "%s (zlib stream) len=%d", v_fault_desc(), len);
								V_END();
								if (ir != 0 || st.total_out != (uint32_t)len || memcmp(back, in, len) || st.block_state != ISAL_BLOCK_FINISH)
									BAT_FAIL("decode_huffman_code_block_stateless", "zlib-made stream: inflate ret=%d total_out=%u len=%d", ir, st.total_out, len);
							}
							cases += 2;
						}
					}
		/* custom table from the dispatched histogram collector */
		{
			static struct isal_huff_histogram h;
			static struct isal_hufftables ht;
			int len = 4096;
			fill_pattern(in, len, PAT_TEXT, 5);
			memset(&h, 0, sizeof h);
			struct isal_zstream s;
			int r = -999;
			if (V_TRY()) {
				isal_update_histogram(in, len, &h);
				r = isal_create_hufftables(&ht, &h);
				if (r == 0) {
					isal_deflate_stateless_init(&s);
					s.hufftables = &ht;
					s.next_in = in; s.avail_in = len; s.end_of_stream = 1;
					s.next_out = out; s.avail_out = 80000;
					r = isal_deflate_stateless(&s);
				}
			} else
				BAT_FAIL("isal_update_histogram", "%s", v_fault_desc());
			V_END();
			size_t bl = 0;
			int zr = r == 0 ? bat_zlib_inflate(out, s.total_out, back, 70000, -15, &bl) : -1;
			if (r != 0 || zr != 0 || bl != (size_t)len || memcmp(back, in, len))
				BAT_FAIL("isal_update_histogram", "custom-table stream does not round trip ret=%d zlib=%d", r, zr);
			cases++;
		}
	}
	return cases;
}
#endif
