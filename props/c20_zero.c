/* C20 - zero detection is exact for every length, alignment and byte position. */
#include "verif.h"
#include "mem_routines.h"

typedef int (*zd_fn)(void *, size_t);
extern int mem_zero_detect_base(void *, size_t), mem_zero_detect_sse(void *, size_t), mem_zero_detect_avx(void *, size_t),
	mem_zero_detect_avx2(void *, size_t), mem_zero_detect_avx512(void *, size_t);
static struct { const char *name; zd_fn f; int level; } impl[] = {
	{ "mem_zero_detect_base", mem_zero_detect_base, -1 }, { "mem_zero_detect_sse", mem_zero_detect_sse, -1 },
	{ "mem_zero_detect_avx", mem_zero_detect_avx, -1 },   { "mem_zero_detect_avx2", mem_zero_detect_avx2, -1 },
	{ "mem_zero_detect_avx512", mem_zero_detect_avx512, -1 },
	{ "isal_zero_detect@base", isal_zero_detect, CPU_BASE }, { "isal_zero_detect@sse", isal_zero_detect, CPU_SSE },
	{ "isal_zero_detect@avx", isal_zero_detect, CPU_AVX },   { "isal_zero_detect@avx2", isal_zero_detect, CPU_AVX2 },
	{ "isal_zero_detect@avx512", isal_zero_detect, CPU_AVX512 }, { "isal_zero_detect@avx512g2", isal_zero_detect, CPU_AVX512G2 },
};
#define NIMPL (int)(sizeof impl / sizeof impl[0])

static void one_buffer(int ii, uint8_t *p, int len, const char *place)
{
	char key[200];
	zd_fn f = impl[ii].f;
	static const uint8_t vals[] = { 0x01, 0x80, 0xff };
	int nv = 3;
	memset(p, 0, len);
	int r = -12345;
	if (V_TRY()) {
		v_pcall_mode = 1 + (len & 1);
		r = (int)PCALL(f, p, len);
		V_END();
		v_eval();
		if (r != 0) {
			snprintf(key, sizeof key, "%s all-zero len=%d %s", impl[ii].name, len, place);
			v_violation(key, "returned %d for an all-zero region (neighbours outside are non-zero)", r);
		}
		for (int pos = 0; pos < len; pos++) {
			/* thorough: all 255 values near either end and near vector boundaries */
			int all = v_thorough && (pos < 64 || len - pos <= 64 || (pos & 63) == 0 || (pos & 63) == 63);
			int n = all ? 255 : nv;
			for (int vi = 0; vi < n; vi++) {
				uint8_t v = all ? (uint8_t)(vi + 1) : vals[vi];
				p[pos] = v;
				v_fault_armed = 1;
				if (sigsetjmp(v_fault_jmp, 1) == 0)
					r = (int)PCALL(f, p, len);
				else {
					snprintf(key, sizeof key, "%s fault len=%d %s", impl[ii].name, len, place);
					v_violation(key, "fault at %s addr=%p (%s) pos=%d", v_sym(v_fault_rip), (void *)v_fault_addr, v_fault_write ? "write" : "read", pos);
					return;
				}
				v_fault_armed = 0;
				v_eval();
				if (r == 0) {
					snprintf(key, sizeof key, "%s missed len=%d pos=%d %s", impl[ii].name, len, pos, place);
					v_violation(key, "non-zero byte %02x at offset %d of %d not detected", v, pos, len);
				}
			}
			p[pos] = 0;
		}
		/* the routine only reads: every byte the harness set has been restored, so the region must be all zero again */
		for (int j = 0; j < len; j++)
			if (p[j]) {
				snprintf(key, sizeof key, "%s modified-the-region len=%d %s", impl[ii].name, len, place);
				v_violation(key, "byte %d of the region is %02x after the single-byte sweep (the routine wrote to its input)", j, p[j]);
				p[j] = 0;
			}
		/* dense families: runs of non-zero bytes (every byte lane of a vector block non-zero at once).
		 *   suffix [q,len) for every q, prefix [0,q) for every q, sliding window [q,q+128) and [q,q+64) for every q;
		 * fill values ff / 01 / 80. The answer must be non-zero and nothing outside the region may be read. */
		static const uint8_t dv[] = { 0xff, 0x01, 0x80 };
		for (int fam = 0; fam < 4 && len; fam++)
			for (int vi = 0; vi < 3; vi++) {
				uint8_t v = dv[vi];
				int w = fam == 2 ? 128 : 64;
				memset(p, 0, len);
				for (int q = 0; q < len; q++) {
					/* incremental construction of the q-th member */
					if (fam == 0)
						p[len - 1 - q] = v;          /* suffix [len-1-q, len) */
					else if (fam == 1)
						p[q] = v;                    /* prefix [0, q] */
					else {
						p[q] = v;                    /* window (q-w, q] */
						if (q >= w)
							p[q - w] = 0;
					}
					v_fault_armed = 1;
					if (sigsetjmp(v_fault_jmp, 1) == 0)
						r = (int)PCALL(f, p, len);
					else {
						snprintf(key, sizeof key, "%s fault dense len=%d %s", impl[ii].name, len, place);
						v_violation(key, "fault at %s addr=%p (%s): region = %s of %02x bytes, member %d (%s)", v_sym(v_fault_rip), (void *)v_fault_addr, v_fault_write ? "write" : "read",
							    fam == 0 ? "zeros then a suffix" : fam == 1 ? "a prefix then zeros" : fam == 2 ? "a 128-byte window" : "a 64-byte window", v, q,
							    fam == 0 ? "suffix starts at len-1-member" : fam == 1 ? "prefix ends at member" : "window ends at member");
						return;
					}
					v_fault_armed = 0;
					v_eval();
					if (r == 0) {
						snprintf(key, sizeof key, "%s missed dense len=%d fam=%d q=%d %s", impl[ii].name, len, fam, q, place);
						v_violation(key, "a run of %02x bytes not detected", v);
					}
				}
			}
		memset(p, 0, len);
	} else {
		snprintf(key, sizeof key, "%s fault len=%d %s", impl[ii].name, len, place);
		v_violation(key, "fault at %s addr=%p (%s) on all-zero input", v_sym(v_fault_rip), (void *)v_fault_addr, v_fault_write ? "write" : "read");
	}
	if (g_check()) {
		snprintf(key, sizeof key, "%s wrote outside len=%d %s", impl[ii].name, len, place);
		v_violation(key, "%s", g_last_damage());
	}
}

/* cancelling content: two non-zero words that annihilate each other under an arithmetic or exclusive-or combination (a kernel
 * that accumulates loaded words with add / sub / xor instead of or reports zero). For word widths W = 1, 2, 4, 8 bytes and
 * distances d in {W, 2W, 16, 32, 64, 128}: word A at every offset i holds one non-zero byte x (lowest or highest byte of the word),
 * word B at i+d holds A itself (xor / sub cancel) or the W-byte two's complement of A (add cancels); everything else is zero. */
static void cancel_family(int ii, uint8_t *p, int len, const char *place)
{
	char key[200];
	zd_fn f = impl[ii].f;
	static const int Ws[] = { 1, 2, 4, 8 };
	static const uint8_t xs[] = { 0x01, 0x80, 0x40 };
	memset(p, 0, len);
	for (int wi = 0; wi < 4; wi++) {
		int W = Ws[wi];
		const int ds[6] = { W, 2 * W, 16, 32, 64, 128 };
		for (int di = 0; di < 6; di++) {
			int d = ds[di];
			if (di >= 2 && d <= 2 * W)
				continue;
			for (int i = 0; i + d + W <= len; i++)
				for (int hi = 0; hi < (W > 1 ? 2 : 1); hi++)
					for (int xi = 0; xi < 3; xi++)
						for (int neg = 0; neg < 2; neg++) {
							uint64_t a = (uint64_t)xs[xi] << (hi ? 8 * (W - 1) : 0), b = neg ? (uint64_t)0 - a : a;
							memcpy(p + i, &a, W);
							memcpy(p + i + d, &b, W);
							int r;
							v_fault_armed = 1;
							if (sigsetjmp(v_fault_jmp, 1) == 0)
								r = (int)PCALL(f, p, len);
							else {
								snprintf(key, sizeof key, "%s fault cancelling-pair len=%d %s", impl[ii].name, len, place);
								v_violation(key, "fault at %s addr=%p (%s)", v_sym(v_fault_rip), (void *)v_fault_addr, v_fault_write ? "write" : "read");
								return;
							}
							v_fault_armed = 0;
							v_eval();
							if (r == 0) {
								snprintf(key, sizeof key, "%s missed cancelling-pair len=%d %s", impl[ii].name, len, place);
								v_violation(key, "%d-byte word %0*llx at offset %d and %s at offset %d (rest zero) reported as all-zero", W, 2 * W, (unsigned long long)a, i, neg ? "its two's complement" : "the same word", i + d);
							}
							memset(p + i, 0, W);
							memset(p + i + d, 0, W);
						}
		}
	}
}

/* byte-granular observation: inaccessible pages only see an over-read that crosses a page. Here the byte directly in front of the
 * region and the byte directly behind it are watched by hardware data breakpoints (debug registers, programmed through
 * perf_event_open and enabled only around the call): a routine that loads a wider word than the region and masks the surplus away
 * gives right answers and never faults, yet it reads what it was not given. Regions of 0..48 bytes at 16 start offsets in the
 * interior of a mapping (so that nothing faults), all-zero and with each single byte set. */
#include <linux/perf_event.h>
#include <linux/hw_breakpoint.h>
#include <sys/syscall.h>
#include <sys/ioctl.h>
static int wp_open(void *addr)
{
	struct perf_event_attr a;
	memset(&a, 0, sizeof a);
	a.type = PERF_TYPE_BREAKPOINT;
	a.size = sizeof a;
	a.bp_type = HW_BREAKPOINT_RW;
	a.bp_addr = (uintptr_t)addr;
	a.bp_len = HW_BREAKPOINT_LEN_1;
	a.disabled = 1;
	a.exclude_kernel = 1;
	a.exclude_hv = 1;
	return (int)syscall(SYS_perf_event_open, &a, 0, -1, -1, 0);
}
static long wp_count(int fd)
{
	long long c = 0;
	if (read(fd, &c, sizeof c) != sizeof c)
		return -1;
	return (long)c;
}
static void watched_regions(void)
{
	char key[200];
	static uint8_t *area;
	if (!area)
		area = g_persist(8192, G_END);
	/* self-test: a deliberate 8-byte load across the end of a 3-byte region must be seen */
	{
		memset(area, 0, 8192);
		int fd = wp_open(area + 2048 + 3);
		if (fd < 0) {
			v_note("hardware watchpoints unavailable (perf_event_open refused): the byte-granular over-read check was not run");
			v_not_exhaustive("hardware watchpoints unavailable");
			return;
		}
		ioctl(fd, PERF_EVENT_IOC_RESET, 0);
		ioctl(fd, PERF_EVENT_IOC_ENABLE, 0);
		volatile uint64_t sink = *(volatile uint64_t *)(area + 2048);
		(void)sink;
		ioctl(fd, PERF_EVENT_IOC_DISABLE, 0);
		long c = wp_count(fd);
		close(fd);
		if (c < 1) {
			v_note("hardware watchpoints do not count on this machine: the byte-granular over-read check was not run");
			v_not_exhaustive("hardware watchpoints do not count");
			return;
		}
	}
	uint64_t unit = 300000;
	for (int ii = 0; ii < NIMPL; ii++)
		for (int off = 0; off < 16; off++) {
			if (!v_mine(unit++))
				continue;
			if (v_deadline_hit())
				return;
			if (impl[ii].level >= 0)
				cpu_set_level(impl[ii].level);
			zd_fn f = impl[ii].f;
			for (int len = 0; len <= 48; len++) {
				uint8_t *p = area + 2048 + off;
				memset(area, 0xEE, 8192);
				memset(p, 0, len);
				int fb = wp_open(p - 1), fa = wp_open(p + len);
				if (fb < 0 || fa < 0)
					v_broken("perf_event_open failed after the self-test succeeded");
				ioctl(fb, PERF_EVENT_IOC_RESET, 0);
				ioctl(fa, PERF_EVENT_IOC_RESET, 0);
				for (int pos = -1; pos < len; pos++) {
					if (pos >= 0)
						p[pos] = 0x80;
					ioctl(fb, PERF_EVENT_IOC_ENABLE, 0);
					ioctl(fa, PERF_EVENT_IOC_ENABLE, 0);
					int r = f(p, len);
					ioctl(fa, PERF_EVENT_IOC_DISABLE, 0);
					ioctl(fb, PERF_EVENT_IOC_DISABLE, 0);
					if (pos >= 0)
						p[pos] = 0;
					v_eval();
					if ((r != 0) != (pos >= 0)) {
						snprintf(key, sizeof key, "%s wrong (watched) len=%d offset=%d", impl[ii].name, len, off);
						v_violation(key, "returned %d with %s", r, pos < 0 ? "an all-zero region" : "one byte set");
					}
				}
				long cb = wp_count(fb), ca = wp_count(fa);
				close(fb);
				close(fa);
				if (cb || ca) {
					snprintf(key, sizeof key, "%s reads outside the region (watchpoint) len=%d", impl[ii].name, len);
					v_violation(key, "region of %d bytes at page offset %d: %ld access(es) to the byte directly in front of it, %ld to the byte directly behind it (answers were right, nothing faulted)", len,
						    2048 + off, cb, ca);
				}
				v_count("watched_region_cases", 1);
			}
			v_nontrivial(v_mix(0x3a7c + ii, off));
		}
}

/* long regions (64 KiB .. 4 MiB): kernels may switch strategy above a size threshold. For each length x start alignment: all-zero, and a
 * single non-zero byte at every offset of the first and the last 640 bytes, around every power of two and at every 4099th offset */
static void long_regions(void)
{
	static const size_t lens[] = { 65536 + 77, (1 << 20) + 127, (1 << 20) + 128 + 33, (1 << 20) + 4096, (4 << 20) + 1 };
	static const int als[] = { 0, 1, 8, 15, 16, 31, 33 };
	char key[200];
	uint8_t *base = g_persist((4 << 20) + 4096 + 64, G_END);
	uint64_t unit = 100000;
	for (int ii = 0; ii < NIMPL; ii++)
		for (unsigned li = 0; li < 5; li++)
			for (unsigned ai = 0; ai < 7; ai++) {
				if (!v_mine(unit++))
					continue;
				if (v_deadline_hit())
					return;
				if (impl[ii].level >= 0)
					cpu_set_level(impl[ii].level);
				size_t len = lens[li];
				/* the region ends at the inaccessible page when the alignment is 0, else it starts `als` bytes into the mapping's tail */
				uint8_t *end = base + (4 << 20) + 4096 + 64, *p = end - len - (als[ai] ? 64 - als[ai] : 0);
				memset(base, 0, (4 << 20) + 4096 + 64);
				for (uint8_t *q = p + len; q < end; q++)
					*q = 0xEE; /* non-zero neighbours behind the region */
				if (p > base)
					p[-1] = 0xEE;
				zd_fn f = impl[ii].f;
				int r = -1;
				if (!V_TRY()) {
					snprintf(key, sizeof key, "%s fault long len=%zu align=%d", impl[ii].name, len, als[ai]);
					v_violation(key, "fault at %s addr=%p (%s)", v_sym(v_fault_rip), (void *)v_fault_addr, v_fault_write ? "write" : "read");
					continue;
				}
				r = (int)PCALL(f, p, len);
				v_eval();
				if (r != 0) {
					snprintf(key, sizeof key, "%s all-zero long len=%zu align=%d", impl[ii].name, len, als[ai]);
					v_violation(key, "returned %d for an all-zero region", r);
				}
				for (size_t pos = 0; pos < len; pos++) {
					int near_pow2 = 0;
					for (size_t b = 1024; b < len; b <<= 1)
						if (pos + 40 >= b && pos < b + 40)
							near_pow2 = 1;
					if (!(pos < 640 || len - pos <= 640 || near_pow2 || pos % 4099 == 0))
						continue;
					p[pos] = (uint8_t)(1 + pos % 255);
					r = (int)PCALL(f, p, len);
					p[pos] = 0;
					v_eval();
					if (r == 0) {
						snprintf(key, sizeof key, "%s missed long len=%zu align=%d", impl[ii].name, len, als[ai]);
						v_violation(key, "non-zero byte at offset %zu of %zu (start address %% 64 = %d) not detected", pos, len, (int)((uintptr_t)p % 64));
						break;
					}
				}
				V_END();
				v_nontrivial(v_mix(0x10c9 + ii, li * 8 + ai));
			}
}

/* regions larger than 4 GiB (len is a size_t): block counters and offsets kept in 32-bit registers would wrap.
 * The region lives in a MAP_NORESERVE anonymous mapping that is never written except for the single probe byte,
 * so it is backed by the shared zero page and costs no memory. */
#include <sys/mman.h>
static void huge_part(void)
{
	const size_t G4 = 1ull << 32, MAPLEN = G4 + (32u << 20);
	uint8_t *map = mmap(NULL, MAPLEN, PROT_READ | PROT_WRITE, MAP_PRIVATE | MAP_ANONYMOUS | MAP_NORESERVE, -1, 0);
	if (map == MAP_FAILED) {
		v_not_exhaustive("huge part: cannot map 4 GiB + 32 MiB of address space");
		return;
	}
	static const size_t aligns[] = { 0, 1, 63 };
	const size_t lens[] = { G4 - 1, G4, G4 + 1, G4 + 64, G4 + 65, G4 + 4096 + 129, G4 + (16u << 20) + 7 };
	char key[200];
	uint64_t unit = 0;
	for (int ii = 0; ii < NIMPL; ii++) {
		if (impl[ii].level >= 0 && impl[ii].level != CPU_AVX512 && impl[ii].level != CPU_AVX2 && !v_thorough)
			continue;
		for (unsigned ai = 0; ai < 3; ai++)
			for (unsigned li = 0; li < sizeof lens / sizeof lens[0]; li++) {
				if (!v_thorough && (ai == 2 || (li != 1 && li != 4 && li != 6)))
					continue;
				if (!v_mine(unit++))
					continue;
				if (v_deadline_hit())
					goto out;
				if (impl[ii].level >= 0)
					cpu_set_level(impl[ii].level);
				uint8_t *p = map + aligns[ai];
				size_t len = lens[li];
				int r = impl[ii].f(p, len);
				v_eval();
				if (r != 0) {
					snprintf(key, sizeof key, "%s huge all-zero len=2^32%+lld align=%zu", impl[ii].name, (long long)(len - G4), aligns[ai]);
					v_violation(key, "returned %d for an all-zero region", r);
				}
				/* single non-zero byte: last byte, first byte beyond 4 GiB, a few positions around 2^32 and the middle */
				const size_t pos[] = { len - 1, len - 64, len - 129, G4 - aligns[ai], G4 + 5, G4 - 1, G4 / 2 + 3, 4097 };
				for (unsigned pi = 0; pi < sizeof pos / sizeof pos[0]; pi++) {
					if (pos[pi] >= len)
						continue;
					p[pos[pi]] = 0x40;
					r = impl[ii].f(p, len);
					p[pos[pi]] = 0;
					v_eval();
					if (r == 0) {
						snprintf(key, sizeof key, "%s huge missed len=2^32%+lld align=%zu pos=len-%zu", impl[ii].name, (long long)(len - G4), aligns[ai], len - pos[pi]);
						v_violation(key, "non-zero byte at offset %zu of %zu not detected", pos[pi], len);
					}
				}
				v_count("regions_over_4GiB_checked", 1);
				v_nontrivial(v_mix(0x4619 + ii, li * 8 + ai));
			}
	}
out:
	munmap(map, MAPLEN);
}

int main(int argc, char **argv)
{
	v_init(argc, argv, "C20");
	if (v_part && !strcmp(v_part, "huge")) {
		huge_part();
		if (v_shard == 0)
			v_note("huge part: regions of 2^32-1 .. 2^32+16 MiB bytes in a zero-page-backed MAP_NORESERVE mapping; all-zero and single non-zero bytes at the end, just beyond 4 GiB and in the middle, per variant");
		return v_finish();
	}
	int N = v_thorough ? 1100 : 600;
	static const int aq[] = { 0, 1, 7, 8, 15, 16, 31, 32, 63 };
	for (int ii = 0; ii < NIMPL; ii++) {
		if (impl[ii].level >= 0) {
			cpu_set_level(impl[ii].level);
			if (v_shard == 0)
				v_sample("%s resolves to %s", impl[ii].name, (cpu_resolve_all(), cpu_selected("isal_zero_detect")));
		}
		for (int len = 0; len <= N; len++) {
			if (!v_mine(len))
				continue;
			if (v_deadline_hit())
				goto out;
			/* placement E: last byte directly before an inaccessible page (start alignment = -len mod 64) */
			uint8_t *p = g_alloc(len, G_END);
			one_buffer(ii, p, len, "E");
			if (len <= (v_thorough ? 600 : 300))
				cancel_family(ii, p, len, "E");
			g_reset();
			/* placement S + alignment sweep: first byte `off` bytes after an inaccessible page */
			int full = len <= 256;
			int na = full ? 64 : (int)(sizeof aq / sizeof aq[0]);
			for (int a = 0; a < na; a++) {
				int off = full ? a : aq[a];
				char pl[16];
				snprintf(pl, sizeof pl, "S+%d", off);
				p = g_alloc_off(len, off);
				one_buffer(ii, p, len, pl);
				if (len <= (v_thorough ? 600 : 300) && (off == 0 || off == 1 || off == 8))
					cancel_family(ii, p, len, pl);
				g_reset();
			}
			v_nontrivial(v_mix(ii, len));
		}
	}
	long_regions();
	watched_regions();
out:
	if (v_shard == 0) {
		v_sample("len=17 placement E: region all zero -> 0; byte 0x80 at offset 16 -> non-zero; canary neighbours non-zero");
		v_note("dense families: zeros + non-zero suffix, non-zero prefix + zeros, sliding 64- and 128-byte non-zero windows, every start, fill ff/01/80 (all byte lanes of a vector block non-zero at once)");
		v_note("cancelling pairs: words of 1/2/4/8 bytes with one non-zero byte, repeated or negated at distance W, 2W, 16, 32, 64, 128, at every offset (placements E, S+0, S+1, S+8)");
		v_note("watched regions: hardware data breakpoints on the byte in front of and the byte behind regions of 0..48 bytes at 16 interior offsets (over-reads that never cross a page)");
		v_note("long regions: 64 KiB+77 .. 4 MiB+1 bytes x 7 start alignments: all-zero and a single non-zero byte at every offset of the first/last 640 bytes, around every power of two and every 4099th offset");
		v_note("placements: E (ends at PROT_NONE page), S+off (starts off bytes after a PROT_NONE page), off=0..63 for len<=256 else {0,1,7,8,15,16,31,32,63}");
	}
	return v_finish();
}
