/* C18 - custom Huffman tables built from any histogram are valid and usable. */
#include "stream_explore.h"


static struct isal_huff_histogram H;
static struct isal_hufftables HT;
static uint8_t *ebuf, *eout, *cbuf;
static struct ri_result ER;
static char hdesc[300];
static int CT_RUNCHECK; /* set by the histogram loops for the tables that get the run-prefix one-shot check */
#define PAYMAX 260000

static void emit(struct bw *w, uint64_t code, uint64_t len) { bw_bits(w, (uint32_t)code, (int)len); }
/* re-statement of igzip/huffman.h get_*_code (how the encoder turns table entries into bits) */
static void t_lit(struct bw *w, int lit) { emit(w, HT.lit_table[lit], HT.lit_table_sizes[lit]); }
static void t_len(struct bw *w, int len) { emit(w, HT.len_table[len - 3] >> 5, HT.len_table[len - 3] & 0x1f); }
static void t_dist(struct bw *w, int dist)
{
	if (dist <= IGZIP_DIST_TABLE_SIZE) {
		emit(w, HT.dist_table[dist - 1] >> 5, HT.dist_table[dist - 1] & 0x1f);
		return;
	}
	uint32_t d = dist - 1, msb = 32 - __builtin_clz(d), nx = msb - 2, xb = d & ((1u << nx) - 1), sym = (d >> nx) + 2 * nx;
	emit(w, HT.dcodes[sym - IGZIP_DECODE_OFFSET] | ((uint64_t)xb << HT.dcodes_sizes[sym - IGZIP_DECODE_OFFSET]), HT.dcodes_sizes[sym - IGZIP_DECODE_OFFSET] + nx);
}


/* A literal that has no match, immediately followed by a match of length mlen at distance dist (dist >= mlen + 2):
 *   A (mlen bytes without the literal), filler run, L, A again, terminator. Returns the new payload length. */
static size_t add_triple(uint8_t *pay, size_t pl, int L, int mlen, int dist, const uint8_t *alpha, int na, uint64_t seed, int parity)
{
	uint8_t fill = alpha[0] == L ? alpha[1] : alpha[0], term = 0;
	for (int i = 0; i < na; i++)
		if (alpha[i] != L && alpha[i] != fill) { term = alpha[i]; break; }
	for (int i = 0; i < parity; i++)
		pay[pl++] = fill;
	size_t a0 = pl;
	uint64_t sd = seed;
	for (int i = 0; i < mlen; i++) {
		uint8_t c;
		do
			c = alpha[xs_next(&sd) % na];
		while (c == L || (i == 0 && c == fill) || (i == mlen - 1 && c == fill));
		pay[pl++] = c;
	}
	for (int i = 0; i < dist - mlen - 1; i++)
		pay[pl++] = fill;
	pay[pl++] = (uint8_t)L;
	memcpy(pay + pl, pay + a0, mlen);
	pl += mlen;
	pay[pl++] = term;
	pay[pl++] = (uint8_t)L;
	return pl;
}

/* returns 0 ok */
static int check_tables(int subset, const char *builder, int deep)
{
	char key[420];
	snprintf(key, sizeof key, "%s %s", builder, hdesc);
	/* (1) the stored header parses (independent parser) to complete codes with every length <= 15 */
	size_t hbytes = HT.deflate_hdr_count + (HT.deflate_hdr_extra_bits ? 1 : 0);
	if (HT.deflate_hdr_count > ISAL_DEF_MAX_HDR_SIZE || HT.deflate_hdr_extra_bits > 7) {
		v_violation(key, "deflate_hdr_count %u / extra bits %u out of range", HT.deflate_hdr_count, HT.deflate_hdr_extra_bits);
		return 1;
	}
	struct ri_opts o;
	memset(&o, 0, sizeof o);
	ER.out = eout;
	ER.out_cap = GS_MAXOUT;
	ref_inflate(HT.deflate_hdr, hbytes, &o, &ER);
	size_t hdr_bits = (size_t)HT.deflate_hdr_count * 8 + HT.deflate_hdr_extra_bits;
	/* only the header section is judged here: what follows it in this probe is zero padding, so the verdict past hdr_end_bit is irrelevant */
	int hdr_bad = ER.nblocks < 1 || ER.blk[0].type != 2 || ER.blk[0].hdr_end_bit != hdr_bits || (ER.verdict == RI_INVALID && ER.cls == RC_BLOCK);
	if (hdr_bad) {
		v_violation(key, "stored dynamic-block header does not parse: %s %s (header ends at bit %zu, table says %zu bits)", ER.verdict == RI_INVALID ? ri_class_name(ER.cls) : "", ER.why ? ER.why : "",
			    ER.nblocks ? ER.blk[0].hdr_end_bit : 0, hdr_bits);
		return 1;
	}
	struct ri_block *b = &ER.blk[0];
	long kl = 0, kd = 0;
	int maxl = 0, nd = 0;
	for (int i = 0; i < 288; i++)
		if (b->ll_len[i]) { kl += 1L << (15 - b->ll_len[i]); if (b->ll_len[i] > maxl) maxl = b->ll_len[i]; }
	for (int i = 0; i < 32; i++)
		if (b->d_len[i]) { kd += 1L << (15 - b->d_len[i]); nd++; if (b->d_len[i] > maxl) maxl = b->d_len[i]; }
	if (kl != 1L << 15 || (kd != 1L << 15 && !(nd == 1)) || maxl > 15) {
		v_violation(key, "codes in the header are not complete prefix codes with lengths <= 15 (lit/len Kraft %ld/32768, dist %ld/32768, max length %d)", kl, kd, maxl);
		return 1;
	}
	/* literals with non-zero count must have a code (subset builder); the full builder assigns every symbol */
	for (int i = 0; i < 257; i++)
		if (!b->ll_len[i] && (!subset || H.lit_len_histogram[i] || i == 256)) {
			v_violation(key, "literal/EOB %d has no code", i);
			return 1;
		}
	/* (2) every packed table entry, emitted the way the encoder emits it, decodes (independent decoder, codes from the
	 *     parsed header) to the intended symbol: 257 literal/EOB + 256 length + distance-table + 30 distance-code entries */
	struct bw w;
	bw_init(&w, ebuf, 70000);
	for (size_t i = 0; i < hdr_bits; i++)
		bw_bit(&w, HT.deflate_hdr[i >> 3] >> (i & 7) & 1);
	size_t xl = 0;
	static uint8_t *x;
	if (!x)
		x = malloc(GS_MAXOUT);
	for (int l = 0; l < 256; l++)
		if (b->ll_len[l]) { t_lit(&w, l); x[xl++] = (uint8_t)l; }
	for (int len = 3; len <= 258 && xl; len++) {
		int d = xl >= 2 ? 1 + (len % 2) : 1;
		t_len(&w, len); t_dist(&w, d);
		for (int j = 0; j < len; j++, xl++) x[xl] = x[xl - d];
	}
	for (int sym = 0; sym < 30; sym++)
		for (int hi = 0; hi < 2; hi++) {
			int dist = g_dist_base[sym] + (hi ? (1 << g_dist_extra[sym]) - 1 : 0);
			if ((size_t)dist > xl || (hi && !g_dist_extra[sym]))
				continue;
			t_len(&w, 3 + sym); t_dist(&w, dist);
			for (int j = 0; j < 3 + sym; j++, xl++) x[xl] = x[xl - dist];
		}
	if (IGZIP_DIST_TABLE_SIZE > 2) {
		/* LONGER_HUFFTABLE builds: the packed distance table covers distances up to 8 KiB; first produce enough history */
		while (xl && xl <= (size_t)IGZIP_DIST_TABLE_SIZE + 8) {
			t_len(&w, 258); t_dist(&w, 1);
			for (int j = 0; j < 258; j++, xl++) x[xl] = x[xl - 1];
		}
	}
	if (IGZIP_DIST_TABLE_SIZE > 2 && xl)
		for (int dist = 3; dist <= IGZIP_DIST_TABLE_SIZE; dist += 1 + dist / 64) {
			t_len(&w, 4); t_dist(&w, dist);
			for (int j = 0; j < 4; j++, xl++) x[xl] = x[xl - dist];
		}
	t_lit(&w, 256);
	/* the stored header has BFINAL=0: terminate with an empty final stored block */
	gen_stored(&w, 1, NULL, 0, 0);
	ref_inflate(ebuf, bw_bytes(&w), &o, &ER);
	v_eval();
	if (ER.verdict != RI_VALID || ER.out_len != xl || memcmp(eout, x, xl)) {
		size_t i = 0;
		while (i < xl && i < ER.out_len && eout[i] == x[i])
			i++;
		v_violation(key, "table entries do not match the codes in the header: emitting every literal, length and distance entry decodes wrongly at output byte %zu (%s %s)", i,
			    ER.verdict == RI_INVALID ? ri_class_name(ER.cls) : "", ER.why ? ER.why : "");
		return 1;
	}
	v_count("table_entries_decoded", 257 + 256 + 58);
	/* (2b) the one-shot path that emits a canned block for a leading run of 00 / FF and then writes THIS table's stored header at an
	 * unaligned bit position: run lengths 4096..4103 (every bit phase of the canned block) x both fill bytes, followed by bytes that
	 * have codes; checked with zlib. Done for a thirteenth of the histograms (every table has its own header length and tail bits). */
	if (deep || CT_RUNCHECK) {
		static uint8_t rin[4600], rout[12000], rback[4700];
		uint8_t tailb[2];
		int nt2 = 0;
		for (int i = 255; i >= 0 && nt2 < 2; i--)
			if (b->ll_len[i] && (!subset || H.lit_len_histogram[i]))
				tailb[nt2++] = (uint8_t)i;
		for (int fill = 0; fill < 2 && nt2 == 2; fill++) {
			uint8_t fb = fill ? 0xff : 0x00;
			if (!b->ll_len[fb] || (subset && !H.lit_len_histogram[fb]))
				continue;
			for (int r = 0; r < 8; r++) {
				int rl = 4096 + r, n = rl + 300;
				memset(rin, fb, rl);
				for (int i = rl; i < n; i++)
					rin[i] = tailb[(i * 7 + i / 3) & 1];
				static struct isal_zstream zs;
				isal_deflate_stateless_init(&zs);
				zs.level = 0;
				zs.hufftables = &HT;
				zs.next_in = rin; zs.avail_in = n; zs.end_of_stream = 1; zs.next_out = rout; zs.avail_out = sizeof rout;
				int rr2 = isal_deflate_stateless(&zs);
				v_eval();
				z_stream z;
				memset(&z, 0, sizeof z);
				inflateInit2(&z, -15);
				z.next_in = rout; z.avail_in = zs.total_out; z.next_out = rback; z.avail_out = sizeof rback;
				int zr = inflate(&z, Z_FINISH);
				int ok = rr2 == COMP_OK && zr == Z_STREAM_END && z.total_out == (uLong)n && !memcmp(rback, rin, n);
				inflateEnd(&z);
				if (!ok) {
					v_violation(key, "one-shot level 0 with this table on %d x %02x + 300 coded bytes: isal_deflate_stateless %d, zlib %d after %lu bytes (stored header: %u bytes + %u bits)", rl, fb, rr2, zr, z.total_out,
						    HT.deflate_hdr_count, HT.deflate_hdr_extra_bits);
					return 1;
				}
				v_count("run_prefix_round_trips", 1);
			}
		}
	}
	if (!deep)
		return 0;
	/* (3) usable by the real encoder: worst-case payload + designed inputs, level 0, all flush modes, 3 kernels: round trip */
	static uint8_t *pay;
	if (!pay)
		pay = malloc(PAYMAX);
	int longest = 0, ll = 0;
	for (int i = 0; i < 256; i++)
		if (b->ll_len[i] > ll && (!subset || H.lit_len_histogram[i])) { ll = b->ll_len[i]; longest = i; }
	size_t pl = 0;
	/* literal with the longest code, then a run (forces long matches at distance 1), then far repeats */
	for (int i = 0; i < 40; i++) pay[pl++] = (uint8_t)longest;
	if (!subset) {
		fill_xorshift(pay + pl, 300, 77); pl += 300;
		for (int i = 0; i < 600; i++, pl++) pay[pl] = pay[pl - 300 + (i % 7 == 0)];
		fill_pattern(pay + pl, 4096, PAT_TEXT, 3); pl += 4096;
		for (int i = 0; i < 5000; i++, pl++) pay[pl] = pay[pl - 4097];
		/* far matches of assorted lengths (13 distance extra bits + the longest length codes): the widest symbols the encoder must fit in its bit buffer */
		{
			static uint8_t *far;
			if (!far) { far = malloc(60000); fill_farmix(far, 60000, 7); }
			memcpy(pay + pl, far, 60000);
			pl += 60000;
		}
	} else {
		/* only literals that had non-zero counts may appear */
		uint8_t alpha[256]; int na = 0;
		for (int i = 0; i < 256; i++) if (H.lit_len_histogram[i]) alpha[na++] = (uint8_t)i;
		uint64_t s = 99;
		for (int i = 0; i < 3000 && na; i++) pay[pl++] = alpha[xs_next(&s) % na];
		for (int i = 0; i < 3000 && na; i++, pl++) pay[pl] = pay[pl - 2999];
		if (!na) pl = 0;
	}
	/* the widest single emission this table allows: the literal with the longest code, directly followed by a match whose
	 * length symbol has the largest (code + extra bits) at a distance whose symbol has the largest (code + extra bits),
	 * taken from the codes parsed out of the header; both parities of the literal's position; extra bits all ones and all zeros */
	{
		uint8_t alpha[256];
		int na = 0;
		for (int i = 0; i < 256; i++)
			if (b->ll_len[i] && (!subset || H.lit_len_histogram[i]))
				alpha[na++] = (uint8_t)i;
		int S = -1, D = -1, sb = -1, db = -1;
		for (int i = 0; i < 29; i++)
			if (b->ll_len[257 + i] && b->ll_len[257 + i] + g_len_extra[i] >= sb) { sb = b->ll_len[257 + i] + g_len_extra[i]; S = i; }
		for (int i = 0; i < 30; i++)
			if (b->d_len[i] && b->d_len[i] + g_dist_extra[i] >= db) { db = b->d_len[i] + g_dist_extra[i]; D = i; }
		if (na >= 8 && S >= 0 && D >= 0 && pl) {
			int lmax = S == 28 ? 258 : g_len_base[S] + (1 << g_len_extra[S]) - 1, lmin = g_len_base[S];
			int dmax = g_dist_base[D] + (1 << g_dist_extra[D]) - 1, dmin = g_dist_base[D];
			int done_any = 0;
			if (dmax >= lmax + 2) {
				pl = add_triple(pay, pl, longest, lmax, dmax, alpha, na, 11, 0);
				pl = add_triple(pay, pl, longest, lmax, dmax, alpha, na, 12, 1);
				done_any = 1;
			}
			if (dmin >= lmin + 2) {
				pl = add_triple(pay, pl, longest, lmin, dmin, alpha, na, 13, pl & 1);
				done_any = 1;
			} else if (dmax >= lmin + 2) {
				pl = add_triple(pay, pl, longest, lmin, dmax, alpha, na, 14, 0);
				pl = add_triple(pay, pl, longest, lmin, dmax, alpha, na, 15, 1);
				done_any = 1;
			}
			if (done_any) {
				v_count("worst_case_triple_payloads", 1);
				v_max("widest_emission_bits_exercised", ll + sb + db);
			}
		}
	}
	static const int cpus[] = { CPU_BASE, CPU_SSE, CPU_AVX2 };
	for (int ci = 0; ci < 3; ci++)
		for (int flush = 0; flush < 3; flush++)
			for (int api = 0; api < 3; api++) {
				if (api == API_STATELESS && flush == SYNC_FLUSH)
					continue;
				cpu_set_level(cpus[ci]);
				memcpy(&c_custom_ht, &HT, sizeof HT);
				struct cparams p = { 0, flush, IGZIP_DEFLATE, 0, HUFF_CUSTOM, LB_MIN, api, 257, 113 };
				size_t ol;
				struct isal_zstream *s;
				char why[256];
				int r = c_deflate(&p, pay, pl, cbuf, 3 * pl + 4096, &ol, &s);
				v_eval();
				if (r != COMP_OK || s->internal_state.state != ZSTATE_END || !verify_deflate_output(cbuf, ol, IGZIP_DEFLATE, pay, pl, 0, 0, NULL, 0, why, sizeof why) ||
				    !verify_with_zlib(cbuf, ol, IGZIP_DEFLATE, pay, pl, why, sizeof why)) {
					v_violation(key, "compressing with this table (flush=%s api=%d cpu=%s): return %d state %d: %s", flush_name[flush], api, cpu_level_name[cpus[ci]], r, s ? (int)s->internal_state.state : -1, why);
					g_reset();
					return 1;
				}
				g_reset();
				v_count("round_trips_with_custom_table", 1);
			}
	return 0;
}

static void run_hist(int deep)
{
	static struct isal_huff_histogram hc;
	for (int subset = 0; subset < 2; subset++) {
		memcpy(&hc, &H, sizeof hc);
		int r = -999;
		cpu_set_level(CPU_AVX2);
		/* both objects are exactly their struct size and end at an inaccessible page (canaries in front); the table object is
		 * pre-filled, the histogram is copied back afterwards */
		struct isal_hufftables *ht = g_alloc(sizeof *ht, G_END);
		struct isal_huff_histogram *hh = g_alloc(sizeof *hh, G_END);
		memset(ht, 0xEE, sizeof *ht);
		memcpy(hh, &H, sizeof *hh);
		int outside = 0;
		if (V_TRY()) {
			r = subset ? isal_create_hufftables_subset(ht, hh) : isal_create_hufftables(ht, hh);
			V_END();
			memcpy(&HT, ht, sizeof HT);
			memcpy(&H, hh, sizeof H);
			outside = g_check();
			g_reset();
			if (outside) {
				char key[420];
				snprintf(key, sizeof key, "%s wrote outside its objects %s", subset ? "isal_create_hufftables_subset" : "isal_create_hufftables", hdesc);
				v_violation(key, "%s", g_last_damage());
				nfail++;
			}
		} else {
			g_reset();
			char key[420];
			snprintf(key, sizeof key, "%s %s", subset ? "isal_create_hufftables_subset" : "isal_create_hufftables", hdesc);
			v_violation(key, "%s at %s (table creation must succeed for any histogram)", v_fault_sig == 6 ? "assertion failed / abort" : "fault", v_sym(v_fault_rip));
			nfail++;
			continue;
		}
		v_eval();
		if (r != 0) {
			char key[420];
			snprintf(key, sizeof key, "%s %s", subset ? "isal_create_hufftables_subset" : "isal_create_hufftables", hdesc);
			v_violation(key, "returned %d", r);
			nfail++;
			continue;
		}
		if (memcmp(hc.lit_len_histogram, H.lit_len_histogram, sizeof hc.lit_len_histogram) || memcmp(hc.dist_histogram, H.dist_histogram, sizeof hc.dist_histogram))
			v_note("the builder modifies the caller's histogram (observed; not part of the property)");
		memcpy(&H, &hc, sizeof hc);
		nfail += check_tables(subset, subset ? "isal_create_hufftables_subset" : "isal_create_hufftables", deep);
	}
}

static void set_hufftables_hook(void)
{
	/* installing a table is accepted iff a block is not open (state NEW_HDR / TMP_NEW_HDR per igzip_lib.h), and a refusal changes nothing */
	static struct isal_zstream before;
	memcpy(&before, DST, sizeof before);
	int st = DST->internal_state.state;
	for (int type = 0; type < 3; type++) {
		int r = isal_deflate_set_hufftables(DST, &c_custom_ht, type);
		int block_open = !(st == ZSTATE_NEW_HDR || st == ZSTATE_TMP_NEW_HDR);
		v_count("set_hufftables_attempts", 1);
		if (st == ZSTATE_NEW_HDR && r == COMP_OK)
			v_count("set_hufftables_accepted", 1);
		/* the property demands refusal while a block is open (and, per igzip_lib.h, acceptance at ZSTATE_NEW_HDR); being stricter at TMP_NEW_HDR is allowed */
		if ((block_open && r == COMP_OK) || (st == ZSTATE_NEW_HDR && r != COMP_OK) || (r != COMP_OK && r != ISAL_INVALID_OPERATION)) {
			char key[300];
			snprintf(key, sizeof key, "isal_deflate_set_hufftables state=%d type=%d", st, type);
			v_violation(key, "returned %d in state %d (a table may be installed only before a block is open); %s", r, st, ctxdesc);
		} else if (r != COMP_OK && memcmp(&before, DST, sizeof before)) {
			char key[300];
			snprintf(key, sizeof key, "isal_deflate_set_hufftables refusal-modifies state=%d", st);
			v_violation(key, "refused (%d) but the stream was modified", r);
		}
		memcpy(DST, &before, sizeof before);
	}
}

int main(int argc, char **argv)
{
	v_init(argc, argv, "C18");
	gs_init();
	ebuf = malloc(70000); eout = malloc(GS_MAXOUT); cbuf = malloc(3 * PAYMAX + 4096);
	static const uint64_t W[8] = { 0, 1, 2, 1ull << 10, 1ull << 20, 1ull << 30, 1ull << 43, (1ull << 44) - 1 };
	/* position menu: literal 0, 'a', 255; EOB 256; length 257, 264, 265, 284, 285; distance 0, 3, 4, 28, 29 (as 286+d) */
	static const int menu[14] = { 0, 'a', 255, 256, 257, 264, 265, 284, 285, 286 + 0, 286 + 3, 286 + 4, 286 + 28, 286 + 29 };
	static const int subsets[12][6] = { { 0, 3, 4, 9, 13, 1 },  { 1, 3, 5, 10, 12, 2 }, { 2, 3, 8, 11, 9, 0 },  { 0, 1, 3, 7, 13, 4 }, { 1, 2, 4, 9, 10, 3 },  { 0, 3, 6, 12, 13, 2 },
					    { 2, 3, 5, 6, 11, 9 },  { 0, 1, 2, 3, 9, 13 },  { 3, 4, 8, 9, 13, 1 },  { 1, 3, 7, 8, 10, 12 }, { 0, 2, 3, 4, 12, 10 }, { 1, 3, 4, 5, 9, 11 } };
	uint64_t unit = 0;
	if (!v_part || !strcmp(v_part, "weights")) {
		int n = v_thorough ? 6 : 5;
		uint64_t total = 1;
		for (int i = 0; i < n; i++) total *= 8;
		for (int si = 0; si < 12; si++)
			for (uint64_t code = 0; code < total; code++) {
				if (!v_mine(unit++))
					continue;
				if ((code & 63) == 0 && (nfail > 20 || v_deadline_hit()))
					goto done;
				memset(&H, 0, sizeof H);
				uint64_t c = code;
				char wd[120] = "";
				for (int i = 0; i < n; i++) {
					int pos = menu[subsets[si][i]];
					uint64_t wv = W[c & 7];
					c >>= 3;
					if (pos < 286) H.lit_len_histogram[pos] = wv; else H.dist_histogram[pos - 286] = wv;
					snprintf(wd + strlen(wd), sizeof wd - strlen(wd), "%d:%llx ", pos, (unsigned long long)wv);
				}
				snprintf(hdesc, sizeof hdesc, "histogram{%s}", wd);
				CT_RUNCHECK = code % 13 == 0;
				run_hist(code % 97 == 0);
				CT_RUNCHECK = 0;
				v_nontrivial(v_mix(si, code));
			}
	}
	if (!v_part || !strcmp(v_part, "shapes")) {
		/* depth breakers: Fibonacci / powers of two on prefixes of 17..40 lit/len symbols and 16..30 distance symbols; constants; single symbols */
		for (int kind = 0; kind < 2; kind++)
			for (int nll = 17; nll <= 40; nll++)
				for (int ndd = 16; ndd <= 30; ndd += (v_thorough ? 1 : 7)) {
					if (!v_mine(unit++))
						continue;
					memset(&H, 0, sizeof H);
					uint64_t a = 1, b2 = 1;
					for (int i = 0; i < nll; i++) {
						uint64_t v = kind ? (i < 44 ? 1ull << i : (1ull << 44) - 1) : a;
						H.lit_len_histogram[(i * 7) % 286] = v >= (1ull << 44) ? (1ull << 44) - 1 : v;
						uint64_t t = a + b2; a = b2; b2 = t;
					}
					a = b2 = 1;
					for (int i = 0; i < ndd; i++) {
						uint64_t v = kind ? 1ull << i : a;
						H.dist_histogram[i] = v;
						uint64_t t = a + b2; a = b2; b2 = t;
					}
					snprintf(hdesc, sizeof hdesc, "histogram{%s on %d lit/len and %d dist symbols}", kind ? "powers-of-two" : "fibonacci", nll, ndd);
					run_hist(1);
					v_nontrivial(v_mix(1000 + kind, nll * 100 + ndd));
				}
		/* asymmetric depth: one chosen distance symbol, one chosen length symbol and one literal sit at the bottom of a
		 * Fibonacci chain whose other members are cheap symbols (few extra bits), everything else is heavy: the chosen symbols
		 * are the ONLY wide ones (a deepest symbol's sibling is then a narrow one) */
		{
			static const int lsyms[] = { 284, 285, 281, 277, 273, 269, 265, 264, 257 };
			for (int ds = 0; ds < 30; ds++)
				for (int lsi = 0; lsi < (v_thorough ? 9 : 3); lsi++)
					for (int cl = 10; cl <= 22; cl += (v_thorough ? 3 : 6)) {
						if (!v_mine(unit++))
							continue;
						if (nfail > 20 || v_deadline_hit())
							goto done;
						memset(&H, 0, sizeof H);
						for (int i = 0; i < 286; i++) H.lit_len_histogram[i] = 1ull << 30;
						for (int i = 0; i < 30; i++) H.dist_histogram[i] = 1ull << 30;
						uint64_t a = 1, b2 = 2;
						H.lit_len_histogram['X'] = 1;
						H.lit_len_histogram[lsyms[lsi]] = 1;
						for (int i = 0; i < cl; i++) {
							H.lit_len_histogram[1 + i] = b2;
							uint64_t t = a + b2; a = b2; b2 = t;
						}
						a = 1; b2 = 1;
						H.dist_histogram[ds] = 1;
						for (int i = 0, k = 0; k < cl && i < 30; i++) {
							if (i == ds)
								continue;
							H.dist_histogram[i] = b2;
							uint64_t t = a + b2; a = b2; b2 = t;
							k++;
						}
						snprintf(hdesc, sizeof hdesc, "histogram{asymmetric: dist %d, lit/len %d and literal 'X' alone at the bottom of a %d-long fibonacci chain of cheap symbols, rest 2^30}", ds, lsyms[lsi], cl);
						run_hist(1);
						v_nontrivial(v_mix(5000 + ds, lsi * 100 + cl));
					}
		}
		/* mixed magnitudes: 8..256 literals at the top of the domain (2^44-1, or 2^43) next to literals with counts 1..3, with sparse or rich
		 * length/distance counts: the total exceeds 2^48 (any internal scaling or saturation must not lose the small counts - the
		 * subset builder owes every literal with a non-zero count a code) */
		{
			static const int nbigs[] = { 8, 15, 16, 17, 40, 120, 253 };
			for (int bi = 0; bi < 7; bi++)
				for (uint64_t tiny = 1; tiny <= 3; tiny++)
					for (int rich = 0; rich < 2; rich++)
						for (int top = 0; top < 2; top++) {
							if (!v_mine(unit++))
								continue;
							if (nfail > 20 || v_deadline_hit())
								goto done;
							memset(&H, 0, sizeof H);
							int placed = 0;
							for (int i = 0; placed < nbigs[bi] && i < 256; i++) {
								int sym = (i * 7) % 256;
								if (sym == 9 || sym == 200 || sym == 'z')
									continue;
								H.lit_len_histogram[sym] = top ? (1ull << 44) - 1 : 1ull << 43;
								placed++;
							}
							H.lit_len_histogram[9] = tiny;
							H.lit_len_histogram[200] = tiny;
							H.lit_len_histogram['z'] = tiny + 1;
							if (rich) {
								for (int i = 257; i < 286; i++) H.lit_len_histogram[i] = (1ull << 30) + i;
								for (int i = 0; i < 30; i++) H.dist_histogram[i] = (1ull << 20) + i;
							} else {
								H.lit_len_histogram[257] = 5;
								H.dist_histogram[3] = 5;
							}
							snprintf(hdesc, sizeof hdesc, "histogram{%d literals at %s, literals 09, c8 at %llu and 'z' at %llu, %s length/distance counts}", nbigs[bi], top ? "2^44-1" : "2^43", (unsigned long long)tiny,
								 (unsigned long long)tiny + 1, rich ? "rich" : "sparse");
							run_hist(1);
							v_nontrivial(v_mix(7000 + bi, tiny * 4 + rich * 2 + top));
						}
		}
		for (int v = 0; v < 3; v++) {
			if (!v_mine(unit++))
				continue;
			memset(&H, 0, sizeof H);
			uint64_t val = v == 0 ? 0 : v == 1 ? 1 : (1ull << 44) - 1;
			for (int i = 0; i < 286; i++) H.lit_len_histogram[i] = val;
			for (int i = 0; i < 30; i++) H.dist_histogram[i] = val;
			snprintf(hdesc, sizeof hdesc, "histogram{uniform %llx}", (unsigned long long)val);
			run_hist(1);
			v_nontrivial(v_mix(2000, v));
		}
		for (int m = 0; m < 14; m++) {
			if (!v_mine(unit++))
				continue;
			memset(&H, 0, sizeof H);
			if (menu[m] < 286) H.lit_len_histogram[menu[m]] = 5; else H.dist_histogram[menu[m] - 286] = 5;
			snprintf(hdesc, sizeof hdesc, "histogram{single symbol %d}", menu[m]);
			run_hist(1);
			v_nontrivial(v_mix(3000, m));
		}
		/* histograms collected from data by every collector variant */
		static const int cpus[] = { CPU_BASE, CPU_SSE, CPU_AVX2 };
		static uint8_t *data;
		if (!data) data = malloc(8200);
		for (int li = 0; li < N_SHAPE_LENS; li++)
			for (int pat = 0; pat < PAT_N; pat += 2)
				for (int ci = 0; ci < 3; ci++) {
					if (!v_mine(unit++))
						continue;
					if (nfail > 20 || v_deadline_hit())
						goto done;
					int len = shape_lens[li];
					fill_pattern(data, len, pat, len);
					memset(&H, 0, sizeof H);
					cpu_set_level(cpus[ci]);
					snprintf(hdesc, sizeof hdesc, "histogram{isal_update_histogram@%s on %s:%d}", cpu_level_name[cpus[ci]], pat_name[pat], len);
					{
						/* the collector reads exactly len bytes (read-only, ending at an inaccessible page) and writes only the histogram object;
						 * literal counts must equal a plain count when no matches are found and never exceed it */
						uint8_t *din = g_alloc(len, G_END);
						memcpy(din, data, len);
						g_readonly(din, 1);
						struct isal_huff_histogram *hh = g_alloc(sizeof *hh, G_END);
						memset(hh, 0, sizeof *hh);
						int ok = 1;
						if (V_TRY()) {
							isal_update_histogram(din, len, hh);
							V_END();
						} else {
							v_violation(hdesc, "isal_update_histogram: %s", v_fault_desc());
							nfail++;
							ok = 0;
						}
						if (ok && g_check()) {
							v_violation(hdesc, "isal_update_histogram: %s", g_last_damage());
							nfail++;
						}
						if (ok) {
							memcpy(&H, hh, sizeof H);
							/* accounting: every input byte is covered by exactly one literal or one match */
							uint64_t lits = 0, matches = 0;
							for (int i = 0; i < 256; i++) lits += H.lit_len_histogram[i];
							for (int i = 257; i < 286; i++) matches += H.lit_len_histogram[i];
							uint64_t dsum = 0;
							for (int i = 0; i < 30; i++) dsum += H.dist_histogram[i];
							if (dsum != matches || lits + 3 * matches > (uint64_t)len || (len && lits + 258 * matches < (uint64_t)len)) {
								v_violation(hdesc, "histogram accounting: %llu literals, %llu length symbols, %llu distance symbols for %d input bytes", (unsigned long long)lits, (unsigned long long)matches, (unsigned long long)dsum, len);
								nfail++;
							}
						}
						g_reset();
					}
					run_hist(li % 3 == 0);
					/* the data the histogram came from must round-trip with the subset table */
					if (isal_create_hufftables_subset(&HT, &H) == 0) {
						memcpy(&c_custom_ht, &HT, sizeof HT);
						struct cparams p = { 0, NO_FLUSH, IGZIP_GZIP, 0, HUFF_CUSTOM, LB_MIN, API_ONECALL, 0, 0 };
						size_t ol;
						struct isal_zstream *s;
						char why[256];
						int r = c_deflate(&p, data, len, cbuf, 3 * len + 4096, &ol, &s);
						if (r != COMP_OK || !verify_deflate_output(cbuf, ol, IGZIP_GZIP, data, len, 0, 0, NULL, 0, why, sizeof why)) {
							char key[420];
							snprintf(key, sizeof key, "subset-table round trip %s", hdesc);
							v_violation(key, "return %d: %s", r, why);
							nfail++;
						}
						g_reset();
					}
					v_nontrivial(v_mix(4000 + ci, li * 16 + pat));
				}
	}
	if (!v_part || !strcmp(v_part, "install")) {
		/* isal_deflate_set_hufftables attempted at EVERY state of level-0 graphs */
		memset(&H, 0, sizeof H);
		H.lit_len_histogram['a'] = 10; H.lit_len_histogram['b'] = 3; H.dist_histogram[0] = 2;
		isal_create_hufftables(&c_custom_ht, &H);
		static const int din_q[] = { 0, 1, -1 }, dout_q[] = { 0, 1, 8, -1 };
		DA_IN = din_q; NDA_IN = 3; DA_OUT = dout_q; NDA_OUT = 4;
		g_canary_span = 256;
		SE_STATE_HOOK = set_hufftables_hook;
		static const int sel[] = { 1, 2, 5 };
		for (int ii = 0; ii < 3; ii++)
			for (int gz = 0; gz < 2; gz++) {
				if (!v_mine(unit++))
					continue;
				deflate_graph(se_din[sel[ii]].name, se_din[sel[ii]].p, se_din[sel[ii]].len, 0, gz ? IGZIP_GZIP : IGZIP_DEFLATE, CPU_AVX2, 1, v_thorough ? 1000000 : 200000);
			}
		SE_STATE_HOOK = NULL;
	}
done:
	if (v_shard == 0) {
		v_sample("histogram{0:1 256:fffffffffff 257:400 286:2 315:8000000000} -> both builders return 0; header parses to complete codes <= 15 bits; all 571 table entries decode to their symbols");
		v_sample("histogram{fibonacci on 40 lit/len and 30 dist symbols}: length limiting; worst-case payload round-trips at level 0 under NO/SYNC/FULL flush on base/sse/avx2");
		v_sample("isal_deflate_set_hufftables tried at every state of the level-0 graph of 'abcab': accepted iff state is NEW_HDR");
		v_note("the sim flavour keeps asserts enabled like the baseline build: an assert firing inside table creation on a legal histogram is reported as a violation");
		v_note("table entries are checked by emitting each entry exactly as igzip/huffman.h's get_*_code does and decoding with the independent decoder using the codes parsed from the stored header");
	}
	return v_finish();
}
