/* C07 - streaming results do not depend on how the caller slices buffers or orders calls.
 * EXPLORE: explicit-state exploration of the real isal_inflate / isal_deflate under all caller
 * behaviours from finite alphabets (DESIGN 2.4, 3 C07). */
#include "stream_explore.h"

/* inflate, tiny-then-big on a LONG stream (200 000 bytes of log-like data, made by zlib): one input byte per call with ample output
 * until 33 000 / 40 000 / 70 001 bytes have been delivered (the decoder's internal buffer then holds one window plus a remainder it
 * has not shifted out yet), then ONE call with all remaining input whose output space is 32768-130 .. 32768 bytes (just below one
 * window), then generous calls. Later matches reach back over the seam, so a window that was saved stale shows up as wrong bytes. */
static void inflate_tiny_then_big(void)
{
	enum { XL = 200000 };
	static const int cpus[] = { CPU_BASE, CPU_SSE, CPU_AVX2 };
	static const uint32_t targets[] = { 33000, 40000, 70001 };
	static struct ostream os[2];
	static uint8_t *data;
	if (!IST)
		IST = g_persist(sizeof *IST, G_END);
	if (!data) {
		data = malloc(XL);
		fill_pattern(data, XL, PAT_LOG, 77);
		for (int gz = 0; gz < 2; gz++) {
			z_stream z;
			memset(&z, 0, sizeof z);
			if (deflateInit2(&z, 6, Z_DEFLATED, gz ? 31 : -15, 8, Z_DEFAULT_STRATEGY) != Z_OK)
				v_broken("deflateInit2");
			os[gz].s = malloc(XL + 1000);
			z.next_in = data; z.avail_in = XL; z.next_out = os[gz].s; z.avail_out = XL + 1000;
			if (deflate(&z, Z_FINISH) != Z_STREAM_END)
				v_broken("zlib deflate");
			os[gz].slen = os[gz].true_end = z.total_out;
			deflateEnd(&z);
			os[gz].x = data; os[gz].xlen = XL; os[gz].crc_flag = gz ? ISAL_GZIP : ISAL_DEFLATE; os[gz].hdrlen = 0;
			snprintf(os[gz].desc, sizeof os[gz].desc, "zlib level 6 of log:%d mode=%s", XL, gz ? "GZIP" : "DEFLATE");
		}
	}
	uint64_t unit = 3900000;
	static uint8_t *img;
	if (!img)
		img = malloc(sizeof *IST + sizeof ICUR + 64);
	for (int gz = 0; gz < 2; gz++)
		for (int ci = 0; ci < 3; ci++)
			for (int ti = 0; ti < 3; ti++) {
				if (!v_mine(unit++))
					continue;
				if (nfail > 20 || v_deadline_hit())
					return;
				inf_select(&os[gz], cpus[ci]);
				/* phase 1 once; its end state is saved and every phase-2 size continues from a restored copy */
				inf_reset();
				int r = EX_NEXT, guard = 0;
				while (r == EX_NEXT && ICUR.out_off < targets[ti] && guard++ < 400000)
					r = inf_call(1, -1, NULL);
				if (r != EX_NEXT) {
					if (r == EX_VIOLATION)
						nfail++;
					continue;
				}
				inf_save(img);
				g_strict_free = 1;
				for (int N = 32768 - 130; N <= 32768; N++) {
					inf_restore(img);
					r = inf_call(-1, N, NULL);
					if (r == EX_NEXT)
						r = inf_finish_generously(NULL, 12);
					v_count("tiny_then_big_runs", 1);
					v_eval();
					if ((r == EX_VIOLATION || r < 0) && !ICUR.tainted) {
						char key[600];
						snprintf(key, sizeof key, "inflate tiny-then-big %s", ctxdesc);
						v_violation(key, "1-byte input calls until %u bytes were delivered, then all input with avail_out=%d, then generous calls", targets[ti], N);
					}
				}
				g_strict_free = 0;
				v_nontrivial(v_mix(0x7b16 + gz * 3 + ci, ti));
			}
}

static void deflate_part(void)
{
	static const int cpus_q[] = { CPU_BASE, CPU_AVX2, CPU_AVX512G2 };
	static const int gzs_q[] = { IGZIP_DEFLATE, IGZIP_GZIP }, gzs_t[] = { IGZIP_DEFLATE, IGZIP_GZIP, IGZIP_ZLIB };
	fill_xorshift(se_in17, 17, 5);
	uint64_t unit = 0;
	int nin = v_thorough ? 8 : 3;
	int ngz = v_thorough ? 3 : 2;
	int F = v_thorough ? 2 : 1;
	static const int qsel[3] = { 1, 2, 5 }; /* quick: a, abcab, 00*8+a */
	for (int ii = 0; ii < nin; ii++)
		for (int level = 0; level <= 3; level++)
			for (int gi = 0; gi < ngz; gi++)
				for (int ci = 0; ci < (v_thorough ? 3 : 1); ci++) {
					if (!v_mine(unit++))
						continue;
					if (nfail > 20 || v_deadline_hit())
						return;
					int di = v_thorough ? ii : qsel[ii];
					int cpu = v_thorough ? cpus_q[ci] : cpus_q[(ii + level + gi) % 3];
					deflate_graph(se_din[di].name, se_din[di].p, se_din[di].len, level, v_thorough ? gzs_t[gi] : gzs_q[gi], cpu, F, v_thorough ? 3000000 : 400000);
				}
}

/* layers 1 and 2 and the deviation-bounded search for LONGER inputs (the body kernels only run from 288 bytes of look-ahead on) */
static void deflate_layers(void)
{
	static uint8_t *LIN;
	static const int lens[] = { 300, 600, 4096, 70000 };
	static const int pats[] = { PAT_LOG, PAT_XS, PAT_ZERO, PAT_P258, PAT_TEXT };
	static const int cpus[] = { CPU_BASE, CPU_SSE, CPU_AVX2, CPU_AVX512G2 };
	static const int dev_in[] = { 0, 1, 7, 8, 9, 300, -1 }, dev_out[] = { 0, 1, 7, 8, 9, 15, 16, 17, 274, -1 };
	if (!LIN)
		LIN = malloc(70000);
	if (!DST) {
		DST = g_persist(sizeof *DST, G_END);
		DLB = g_persist(ISAL_DEF_LVL3_MIN, G_END);
	}
	uint64_t unit = 0;
	for (int li = 0; li < (v_thorough ? 4 : 3); li++)
		for (int pi = 0; pi < (v_thorough ? 5 : 2); pi++)
			for (int level = 0; level <= 3; level++)
				for (int ci = 0; ci < 4; ci++) {
					if (!v_mine(unit++))
						continue;
					if (nfail > 20 || v_deadline_hit())
						return;
					int len = lens[li];
					fill_pattern(LIN, len, pats[pi], len + pi);
					DIN = LIN; DINLEN = len; DLEVEL = level; DGZ = (li + pi) % 2 ? IGZIP_GZIP : IGZIP_ZLIB; DLBS = lvl_min[level];
					cpu_set_level(cpus[ci]);
					SE_CONTIG = (li + pi + level + ci) % 2; /* chunks cut from one contiguous caller buffer, or a fresh mapping per chunk */
					g_strict_free = 1;
					/* layer 1: every single split point of the input (first call gets a bytes and o output bytes), then generous calls */
					for (int a = 0; a <= len; a++) {
						if (len > 600 && !(a <= 20 || len - a <= 20 || (a >= 280 && a <= 300) || a % 509 == 0 || (a >= 32760 && a <= 32780) || (a >= 65530 && a <= 65540)))
							continue;
						for (int oi = 0; oi < 10; oi++) {
							if (len > 600 && oi % 3 && a > 20)
								continue;
							snprintf(ctxdesc, sizeof ctxdesc, "layer1 input=%s:%d level=%d wrapper=%s cpu=%s first-call in=%d out=%d", pat_name[pats[pi]], len, level, gz_name[DGZ], cpu_level_name[cpus[ci]], a, dev_out[oi]);
							def_reset(4);
							ex_depth = 0;
							int r = def_call(a, dev_out[oi], NO_FLUSH, 0, NULL);
							if (r == EX_NEXT)
								r = def_finish_generously(NULL, 12);
							v_count("layer1_single_split_runs", 1);
							v_eval();
						}
					}
					/* layer 2: uniform (c_in, c_out) on every call, for every flush mode */
					for (int ia = 1; ia < 7; ia++)
						for (int oa = 1; oa < 10; oa++)
							for (int fl = 0; fl < 3; fl++) {
								if (len > 600 && ((dev_in[ia] >= 0 && dev_in[ia] < 300) || (dev_out[oa] >= 0 && dev_out[oa] < 274)))
									continue; /* tiny chunks on long inputs are quadratic; covered on the short ones */
								if (fl && dev_in[ia] >= 0 && dev_in[ia] < 7)
									continue;
								snprintf(ctxdesc, sizeof ctxdesc, "layer2%s input=%s:%d level=%d wrapper=%s cpu=%s uniform in=%d out=%d flush=%s", SE_CONTIG ? "(contiguous input)" : "", pat_name[pats[pi]], len, level, gz_name[DGZ], cpu_level_name[cpus[ci]], dev_in[ia], dev_out[oa],
									 flush_name[fl]);
								def_reset(1 << 30);
								int r = EX_NEXT, guard = 0;
								while (r == EX_NEXT && guard++ < 300000)
									r = def_call(dev_in[ia], dev_out[oa], fl, 0, NULL);
								if (r == EX_NEXT) {
									char key[600];
									snprintf(key, sizeof key, "deflate no-termination %s", ctxdesc);
									v_violation(key, "not finished after %d calls", guard);
									nfail++;
								}
								v_count("layer2_uniform_runs", 1);
								v_eval();
							}
					/* deviation-bounded: default = generous call; one deviation (any alphabet choice, any flush, eos late) at every call index */
					{
						int maxcalls = 6;
						for (int at = 0; at < maxcalls; at++)
							for (int ia = 0; ia < 7; ia++)
								for (int oa = 0; oa < 10; oa++)
									for (int fl = 0; fl < 3; fl++)
										for (int late = 0; late < 2; late++) {
											snprintf(ctxdesc, sizeof ctxdesc, "deviation input=%s:%d level=%d wrapper=%s cpu=%s at-call=%d in=%d out=%d flush=%s%s", pat_name[pats[pi]], len, level, gz_name[DGZ],
												 cpu_level_name[cpus[ci]], at, dev_in[ia], dev_out[oa], flush_name[fl], late ? " eos-late" : "");
											def_reset(4);
											int r = EX_NEXT;
											for (int c = 0; c < at && r == EX_NEXT; c++)
												r = def_call(97, 61, NO_FLUSH, 0, NULL); /* a fixed non-generous prefix so that the deviation lands mid-stream */
											if (r == EX_NEXT)
												r = def_call(dev_in[ia], dev_out[oa], fl, late, NULL);
											if (r == EX_NEXT || r == EX_SKIP)
												r = def_finish_generously(NULL, 12);
											v_count("deviation_runs", 1);
											v_eval();
										}
					}
					g_strict_free = 0;
					SE_CONTIG = 0;
					v_nontrivial(v_hash(ctxdesc, strlen(ctxdesc), 21));
				}
}

/* window-edge layer: data with an exact repeat at distance 32768 everywhere (period-32768 noise) EXCEPT that the byte at the cut
 * position differs from the byte one window earlier (00 / ff / a5 against noise). The stream is cut at 32767/32768/32769,
 * 65535..65537 and 70001 with each flush kind on the first piece: whatever the codec keeps of its history between the calls,
 * a match at distance exactly 32768 at the first byte of the second piece must be judged on the real history. */
static void deflate_window_edge(void)
{
	static uint8_t *W;
	static const int cpus[] = { CPU_BASE, CPU_SSE, CPU_AVX2, CPU_AVX512G2 };
	static const int cuts[] = { 32767, 32768, 32769, 65535, 65536, 65537, 70001 };
	static const uint8_t marks[] = { 0x00, 0xff, 0xa5 };
	enum { WL = 75001 };
	if (!W)
		W = malloc(WL);
	if (!DST) {
		DST = g_persist(sizeof *DST, G_END);
		DLB = g_persist(ISAL_DEF_LVL3_MIN, G_END);
	}
	uint64_t unit = 900000;
	for (int level = 0; level <= 3; level++)
		for (int ci = 0; ci < 4; ci++)
			for (unsigned ki = 0; ki < 7; ki++)
				for (int mi = 0; mi < 3; mi++)
					for (int fl = 0; fl < 3; fl++) {
						if (!v_mine(unit++))
							continue;
						if (nfail > 20 || v_deadline_hit())
							return;
						static uint8_t base[32768];
						fill_xorshift(base, sizeof base, 4711);
						for (int i = 0; i < WL; i++)
							W[i] = base[i & 32767];
						int cut = cuts[ki];
						W[cut] = marks[mi];
						if (W[cut - 32768 >= 0 ? cut - 32768 : 0] == marks[mi])
							W[cut - 32768 >= 0 ? cut - 32768 : 0] ^= 0x5a;
						DIN = W; DINLEN = WL; DLEVEL = level; DGZ = (ki + mi) & 1 ? IGZIP_GZIP : IGZIP_DEFLATE; DLBS = lvl_min[level];
						cpu_set_level(cpus[ci]);
						SE_CONTIG = (level + ci + fl) & 1;
						g_strict_free = 1;
						snprintf(ctxdesc, sizeof ctxdesc, "window-edge%s level=%d wrapper=%s cpu=%s period-32768 noise with %02x at the cut, cut=%d first-piece-flush=%s", SE_CONTIG ? "(contiguous input)" : "", level, gz_name[DGZ],
							 cpu_level_name[cpus[ci]], marks[mi], cut, flush_name[fl]);
						def_reset(4);
						ex_depth = 0;
						int r = def_call(cut, -1, fl, 0, NULL);
						if (r == EX_NEXT)
							r = def_finish_generously(NULL, 12);
						g_strict_free = 0;
						SE_CONTIG = 0;
						v_count("window_edge_runs", 1);
						v_eval();
					}
}

/* stored-block fallback while streaming: incompressible (and mixed) data much longer than the codec's internal 64 KiB buffer, levels
 * 1-3, every named level-buffer size AND the sizes half-way between them (the token buffer's capacity decides where blocks close,
 * and with it whether a block's input is still reachable when the codec decides to emit it as a stored block), input pieces from
 * 1000 bytes to everything x output pieces 1000 / 65536 / 100000. Every piece is handed over in its own mapping and scribbled once
 * consumed; the stream must decode to the input with both references. */
static void deflate_stored_fallback(void)
{
	static uint8_t *W, *O;
	static const int cpus[] = { CPU_BASE, CPU_SSE, CPU_AVX2, CPU_AVX512G2 };
	static const int cins[] = { 5000, 20000, 32768, 65536, 100000, 1 << 30, 1000 };
	static const int couts[] = { 1000, 65536, 100000 };
	size_t WL = v_thorough ? 1 << 20 : 300000;
	if (!W) {
		W = malloc(1 << 20);
		O = malloc((1 << 20) * 2 + 4096);
	}
	uint64_t unit = 1900000;
	char key[400], why[256];
	for (int level = 1; level <= 3; level++)
		for (int zi = 0; zi < 8; zi++)
			for (int kind = 0; kind < 2; kind++)
				for (int ii = 0; ii < (v_thorough ? 7 : 6); ii++)
					for (int oi = 0; oi < 3; oi++) {
						if (!v_mine(unit++))
							continue;
						if (nfail > 20 || v_deadline_hit())
							return;
						uint32_t named[4] = { lvl_min[level], lvl_small[level], lvl_medium[level], lvl_default[level] };
						uint32_t lbs = zi % 2 == 0 ? named[zi / 2] : zi == 7 ? lvl_xl[level] : (named[zi / 2] + named[zi / 2 + 1]) / 2;
						if (kind == 0) fill_xorshift(W, WL, 77 + level); else fill_mixed(W, WL, 5 + level);
						int cpu = cpus[(level + zi + ii + oi) % 4];
						cpu_set_level(cpu);
						struct cparams p = { level, NO_FLUSH, (zi + ii) % 3 == 0 ? IGZIP_DEFLATE : (zi + ii) % 3 == 1 ? IGZIP_GZIP : IGZIP_ZLIB, 0, 0, LB_MIN, API_CHUNKED, cins[ii], couts[oi] };
						size_t cap = WL * 2 + 4096, outlen = 0;
						struct isal_zstream *s = NULL;
						C_LB_BYTES = lbs;
						int r = c_deflate(&p, W, WL, O, cap, &outlen, &s);
						C_LB_BYTES = 0;
						v_eval();
						snprintf(key, sizeof key, "stored-fallback level=%d level_buf_size=%u wrapper=%s cpu=%s input=%s:%zu in-pieces=%d out-pieces=%d", level, lbs, gz_name[p.gzip_flag], cpu_level_name[cpu],
							 kind ? "mixed" : "incompressible", WL, cins[ii], couts[oi]);
						if (r == -1000) {
							v_violation(key, "fault %s", v_fault_desc());
							nfail++;
						} else if (r != COMP_OK || s->internal_state.state != ZSTATE_END) {
							v_violation(key, "return %d state %d", r, s->internal_state.state);
							nfail++;
						} else if (!verify_deflate_output(O, outlen, p.gzip_flag, W, WL, 0, 0, NULL, 0, why, sizeof why) || !verify_with_zlib(O, outlen, p.gzip_flag, W, WL, why, sizeof why)) {
							v_violation(key, "%s", why);
							nfail++;
						}
						if (g_check()) {
							v_violation(key, "%s", g_last_damage());
							nfail++;
						}
						g_reset();
						v_count("stored_fallback_runs", 1);
						v_nontrivial(v_hash(O, outlen > 4096 ? 4096 : outlen, unit));
					}
}

static void deflate_big_then_tiny(void)
{
	static uint8_t *B;
	static const int cpus[] = { CPU_BASE, CPU_SSE, CPU_AVX2, CPU_AVX512G2 };
	if (!B)
		B = malloc(150000);
	uint64_t unit = 2900000;
	for (int kind = 0; kind < 2; kind++)
		for (int level = 0; level <= 3; level++)
			for (int lbi = 0; lbi < 4; lbi++) {
				if (level == 0 && lbi)
					continue;
				if (!v_mine(unit++))
					continue;
				if (nfail > 20 || v_deadline_hit())
					return;
				if (kind) fill_mixed(B, 150000, 21); else fill_pattern(B, 150000, PAT_LOG, 22);
				def_big_then_tiny(B, 150000, kind ? "mixed" : "log", level, (level + lbi + kind) % 3 == 0 ? IGZIP_DEFLATE : (level + lbi + kind) % 3 == 1 ? IGZIP_GZIP : IGZIP_ZLIB, cpus[(level + lbi + kind) % 4], lbi);
			}
}

int main(int argc, char **argv)
{
	v_init(argc, argv, "C07");
	g_canary_span = 256;
	gs_init();
	if (!v_part || !strcmp(v_part, "inflate")) {
		inflate_part();
		inflate_tiny_then_big();
	}
	if (!v_part || !strcmp(v_part, "deflate"))
		deflate_part();
	if (v_part && !strcmp(v_part, "stored-fallback"))
		deflate_stored_fallback();
	if (v_part && !strcmp(v_part, "big-then-tiny"))
		deflate_big_then_tiny();
	if (!v_part || !strcmp(v_part, "deflate-layers")) {
		deflate_layers();
		deflate_window_edge();
		deflate_stored_fallback();
		deflate_big_then_tiny();
	}
	if (v_shard == 0) {
		v_note("state = byte image of the caller-owned context (+ level buffer) and the harness cursor; key masks only regions the structure declares dead (tmp buffers beyond their valid counts); every transition is a real API call on fresh exact-size end-flush mappings, recycled mappings are PROT_NONE");
		v_note("progress: from EVERY newly discovered state, generous calls (all remaining input, ample output, end_of_stream) must reach FINISH/ZSTATE_END within a fixed horizon with the correct result");
		v_note("deflate graphs carry a flush budget and a budget of 2 consecutive empty calls (SYNC/FULL flush with no input legitimately appends an empty stored block per call, so the unbudgeted graph is infinite)");
	}
	return v_finish();
}
