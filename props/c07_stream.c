/* C07 - streaming results do not depend on how the caller slices buffers or orders calls.
 * EXPLORE: explicit-state exploration of the real isal_inflate / isal_deflate under all caller
 * behaviours from finite alphabets (DESIGN 2.4, 3 C07). */
#include "stream_explore.h"

static void deflate_part(void)
{
	static const int cpus_q[] = { CPU_BASE, CPU_AVX2, CPU_AVX512G2 };
	static const int gzs_q[] = { IGZIP_DEFLATE, IGZIP_GZIP }, gzs_t[] = { IGZIP_DEFLATE, IGZIP_GZIP, IGZIP_ZLIB };
	fill_xorshift(se_in17, 17, 5);
	uint64_t unit = 0;
	int nin = v_thorough ? 8 : 3;
	int ngz = v_thorough ? 3 : 2;
	int F = v_thorough ? 2 : 1;
	static const int qsel[3] = { 1, 2, 5 }; /* quick: a, abcab, 00*8+a */
	for (int ii = 0; ii < nin; ii++)
		for (int level = 0; level <= 3; level++)
			for (int gi = 0; gi < ngz; gi++)
				for (int ci = 0; ci < (v_thorough ? 3 : 1); ci++) {
					if (!v_mine(unit++))
						continue;
					if (nfail > 20 || v_deadline_hit())
						return;
					int di = v_thorough ? ii : qsel[ii];
					int cpu = v_thorough ? cpus_q[ci] : cpus_q[(ii + level + gi) % 3];
					deflate_graph(se_din[di].name, se_din[di].p, se_din[di].len, level, v_thorough ? gzs_t[gi] : gzs_q[gi], cpu, F, v_thorough ? 3000000 : 400000);
				}
}

int main(int argc, char **argv)
{
	v_init(argc, argv, "C07");
	g_canary_span = 256;
	gs_init();
	if (!v_part || !strcmp(v_part, "inflate"))
		inflate_part();
	if (!v_part || !strcmp(v_part, "deflate"))
		deflate_part();
	if (v_shard == 0) {
		v_note("state = byte image of the caller-owned context (+ level buffer) and the harness cursor; key masks only regions the structure declares dead (tmp buffers beyond their valid counts); every transition is a real API call on fresh exact-size end-flush mappings, recycled mappings are PROT_NONE");
		v_note("progress: from EVERY newly discovered state, generous calls (all remaining input, ample output, end_of_stream) must reach FINISH/ZSTATE_END within a fixed horizon with the correct result");
		v_note("deflate graphs carry a flush budget and a budget of 2 consecutive empty calls (SYNC/FULL flush with no input legitimately appends an empty stored block per call, so the unbudgeted graph is infinite)");
	}
	return v_finish();
}
