/* C03 - erasure-code encode / dot product equals the GF(2^8) matrix product in every ISA variant. */
#include "ec_common.h"

#define NMAX 1200
#define KMAX 255
#define RMAX 13
static uint8_t *M[KMAX];                 /* master source data: M[i][j], dense xorshift */
static uint8_t A[RMAX * KMAX];           /* coefficient matrix for the current (k, salt) */
static uint8_t *REF[RMAX];               /* REF[r][j] = sum_i A[r*k+i] * M[i][j] */
static int ref_k = -1, ref_rows, ref_salt = -1, ref_len;

static void make_ref(int k, int rows, int salt, int len)
{
	if (ref_k == k && ref_salt == salt && ref_rows >= rows && ref_len >= len)
		return;
	ec_coeffs(A, rows * k, salt);
	for (int r = 0; r < rows; r++)
		for (int j = 0; j < len; j++) {
			uint8_t s = 0;
			for (int i = 0; i < k; i++)
				s ^= rgf_mul(A[r * k + i], M[i][j]);
			REF[r][j] = s;
		}
	ref_k = k; ref_rows = rows; ref_salt = salt; ref_len = len;
}

static long nfail;
/* one call: sources at src placement (soff<0: E), dests at dst placement (doff<0: E). returns 0 ok */
static int run_case(const struct ecimpl *im, int len, int k, int rows, int soff, int doff, int ro_src, const char *sweep)
{
	char key[256], where[64];
	uint8_t *src[KMAX], *dst[RMAX];
	snprintf(where, sizeof where, "src=%s%d dst=%s%d", soff < 0 ? "E" : "S+", soff < 0 ? 0 : soff, doff < 0 ? "E" : "S+", doff < 0 ? 0 : doff);
	/* the coefficient tables have no documented alignment: every fourth length they sit at an odd address (else end-flush at a guard page) */
	size_t tbl_bytes = im->gfni && im->level < 0 ? (size_t)8 * k * rows : ec_tbl_size(k, rows);
	uint8_t *tbl = len % 4 == 1 ? g_alloc_off(tbl_bytes, 1 + len % 15) : g_alloc(tbl_bytes, G_END);
	int fault = 0;
	if (V_TRY()) {
		ec_tables(im, k, rows, A, tbl);
		V_END();
	} else {
		snprintf(key, sizeof key, "%s table-build fault k=%d rows=%d", im->name, k, rows);
		v_violation(key, "fault at %s", v_sym(v_fault_rip));
		g_reset();
		return 1;
	}
	g_readonly(tbl, 1);
	for (int i = 0; i < k; i++) {
		src[i] = soff < 0 ? g_alloc(len, G_END) : g_alloc_off(len, soff);
		memcpy(src[i], M[i], len);
		if (ro_src)
			g_readonly(src[i], 1);
	}
	for (int r = 0; r < rows; r++) {
		dst[r] = doff < 0 ? g_alloc(len, G_END) : g_alloc_off(len, doff);
		memset(dst[r], 0xAA, len);
	}
	v_pcall_mode = 1 + (len & 1); /* kernel entered with poisoned caller-saved registers (engine/pcall.S) */
	/* the pointer ARRAYS are exactly k and rows entries long and end at an inaccessible page as well */
	uint8_t **srcv = g_alloc(k * sizeof(uint8_t *), G_END), **dstv = g_alloc(rows * sizeof(uint8_t *), G_END);
	memcpy(srcv, src, k * sizeof(uint8_t *));
	memcpy(dstv, dst, rows * sizeof(uint8_t *));
	/* ... and are the caller's: "nothing outside the output blocks is written" includes them, also temporarily */
	g_readonly(srcv, 1);
	g_readonly(dstv, 1);
	if (V_TRY()) {
		switch (im->kind) {
		case K_DP1: PCALL(im->fn, len, k, tbl, srcv, dst[0]); break;
		case K_DPN: PCALL(im->fn, len, k, tbl, srcv, dstv); break;
		default: PCALL(im->fn, len, k, rows, tbl, srcv, dstv); break;
		}
		V_END();
	} else {
		snprintf(key, sizeof key, "%s fault len=%d k=%d rows=%d %s", im->name, len, k, rows, where);
		v_violation(key, "fault at %s addr=%p (%s) sweep=%s", v_sym(v_fault_rip), (void *)v_fault_addr, v_fault_write ? "write" : "read", sweep);
		fault = 1;
	}
	v_eval();
	int bad = fault;
	if (!fault) {
		for (int r = 0; r < rows && !bad; r++)
			if (memcmp(dst[r], REF[r], len)) {
				int j = 0;
				while (dst[r][j] == REF[r][j])
					j++;
				snprintf(key, sizeof key, "%s wrong len=%d k=%d rows=%d %s", im->name, len, k, rows, where);
				v_violation(key, "output row %d byte %d = %02x expected %02x (sweep %s)", r, j, dst[r][j], REF[r][j], sweep);
				bad = 1;
			}
		if (!ro_src)
			for (int i = 0; i < k && !bad; i++)
				if (memcmp(src[i], M[i], len)) {
					snprintf(key, sizeof key, "%s modified-source len=%d k=%d rows=%d %s", im->name, len, k, rows, where);
					v_violation(key, "source block %d changed", i);
					bad = 1;
				}
		if (g_check()) {
			snprintf(key, sizeof key, "%s wrote-outside len=%d k=%d rows=%d %s", im->name, len, k, rows, where);
			v_violation(key, "%s", g_last_damage());
			bad = 1;
		}
	}
	g_reset();
	nfail += bad;
	return bad;
}

/* (e) long blocks: loop counters and offsets beyond 64 KiB and 1 MiB (k = 3, the kernel's natural row count), xorshift data,
 * expected values computed on the fly from the reference multiplication table */
static int BIG_K = 3; /* 3, or 32 / 40 for the wide-and-long cases of the high-level entries */
static void run_big(const struct ecimpl *im, int len, int w, int start_aligned)
{
	char key[256];
	int k = BIG_K, rows = w;
	uint8_t *src[256], *dst[RMAX];
	size_t tbl_bytes = im->gfni && im->level < 0 ? (size_t)8 * k * rows : ec_tbl_size(k, rows);
	uint8_t *tbl = g_alloc(tbl_bytes, G_END);
	for (int i = 0; i < k * rows; i++)
		A[i] = (uint8_t)(0x53 + i * 29);
	ec_tables(im, k, rows, A, tbl);
	for (int i = 0; i < k; i++) {
		src[i] = start_aligned ? g_alloc_off(len, 0) : g_alloc(len, G_END);
		fill_xorshift(src[i], len, 1000 + i);
	}
	for (int r = 0; r < rows; r++) {
		dst[r] = start_aligned ? g_alloc_off(len, 0) : g_alloc(len, G_END);
		memset(dst[r], 0xAA, len);
	}
	uint8_t **srcv = g_alloc(k * sizeof(uint8_t *), G_END), **dstv = g_alloc(rows * sizeof(uint8_t *), G_END);
	memcpy(srcv, src, k * sizeof(uint8_t *));
	memcpy(dstv, dst, rows * sizeof(uint8_t *));
	g_readonly(srcv, 1);
	g_readonly(dstv, 1);
	v_pcall_mode = 1;
	if (V_TRY()) {
		switch (im->kind) {
		case K_DP1: PCALL(im->fn, len, k, tbl, srcv, dst[0]); break;
		case K_DPN: PCALL(im->fn, len, k, tbl, srcv, dstv); break;
		default: PCALL(im->fn, len, k, rows, tbl, srcv, dstv); break;
		}
		V_END();
	} else {
		snprintf(key, sizeof key, "%s fault len=%d k=%d rows=%d big", im->name, len, k, rows);
		v_violation(key, "%s", v_fault_desc());
		nfail++;
		g_reset();
		return;
	}
	v_eval();
	for (int r = 0; r < rows; r++)
		for (int j = 0; j < len; j++) {
			uint8_t e = 0;
			for (int i = 0; i < k; i++)
				e ^= rgf_mul(A[r * k + i], src[i][j]);
			if (dst[r][j] != e) {
				snprintf(key, sizeof key, "%s wrong len=%d k=%d rows=%d big", im->name, len, k, rows);
				v_violation(key, "output %d byte %d = %02x expected %02x", r, j, dst[r][j], e);
				nfail++;
				r = rows;
				break;
			}
		}
	if (g_check()) {
		snprintf(key, sizeof key, "%s wrote-outside len=%d big", im->name, len);
		v_violation(key, "%s", g_last_damage());
		nfail++;
	}
	g_reset();
	v_count("big_length_cases", 1);
}

int main(int argc, char **argv)
{
	v_init(argc, argv, "C03");
	rgf_init();
	for (int i = 0; i < KMAX; i++) {
		M[i] = malloc(NMAX);
		fill_xorshift(M[i], NMAX, 500 + i);
	}
	for (int r = 0; r < RMAX; r++)
		REF[r] = malloc(NMAX);
	int N = v_thorough ? 1100 : 320;
	/* implementation list: direct symbols + dispatched entries per level */
	static struct ecimpl impls[128];
	static char names[64][64];
	int n = 0, nn = 0;
	for (int i = 0; dp_impls[i].name; i++)
		impls[n++] = dp_impls[i];
	int ndirect = n;
	for (int lvl = 0; lvl < CPU_NLEVELS; lvl++) {
		snprintf(names[nn], 64, "ec_encode_data@%s", cpu_level_name[lvl]);
		impls[n++] = (struct ecimpl){ names[nn++], K_ENC, 0, 0, 0, (void *)ec_encode_data, lvl };
		snprintf(names[nn], 64, "gf_vect_dot_prod@%s", cpu_level_name[lvl]);
		impls[n++] = (struct ecimpl){ names[nn++], K_DP1, 1, 0, 32, (void *)gf_vect_dot_prod, lvl };
	}
	int curlevel = -2;
	static const int kb[] = { 1, 2, 3, 4, 5, 6, 7, 8, 9, 10, 11, 12, 13, 14, 15, 16, 17, 18, 19, 20, 21, 22, 23, 24, 25, 26, 27, 28, 29, 30, 31, 32, 63, 64, 127, 128, 254, 255 };
	static const int lb[] = { -1, 64, 65, 127, 300 };
	static const int lc[] = { 15, 16, 17, 31, 32, 33, 63, 64, 65, 300 };
	static const int kc[] = { 1, 2, 10 };
	static const int doffs[] = { 0, 1, 31, 32, 63 };
	uint64_t unit = 0;
	for (int ii = 0; ii < n; ii++) {
		const struct ecimpl *im = &impls[ii];
		if (im->level >= 0 && im->level != curlevel) {
			cpu_set_level(im->level);
			curlevel = im->level;
		}
		int direct = im->level < 0;
		int w = im->width ? im->width : 7; /* high-level: 6+1 rows in the shape sweep */
		/* (a) shape sweep at k=3: every length x source offset x dest offset, plus E/E */
		make_ref(3, RMAX, 1, NMAX);
		for (int len = im->minlen; len <= N; len++) {
			if (!v_mine(unit++))
				continue;
			if (v_deadline_hit() || nfail > 60)
				goto out;
			run_case(im, len, 3, w, -1, -1, 1, "a:E/E");
			if (direct) {
				int step = len <= 320 ? 1 : 7;
				for (int so = 0; so < 64; so += step)
					for (unsigned d = 0; d < 5; d++)
						run_case(im, len, 3, w, so, doffs[d], 0, "a:offsets");
			} else {
				run_case(im, len, 3, w, 0, 0, 0, "a:S/S");
			}
			v_nontrivial(v_mix(ii, len));
		}
		/* (b) number of sources */
		for (unsigned ki = 0; ki < sizeof kb / sizeof kb[0]; ki++) {
			if (!v_mine(unit++))
				continue;
			if (v_deadline_hit() || nfail > 60)
				goto out;
			make_ref(kb[ki], im->width ? im->width : 7, 2, 320);
			for (unsigned li = 0; li < 5; li++) {
				int len = lb[li] < 0 ? im->minlen : lb[li];
				if (len < im->minlen)
					continue;
				run_case(im, len, kb[ki], w, -1, -1, 1, "b:k");
			}
			v_nontrivial(v_mix(ii + 1000, kb[ki]));
		}
		/* (c) rows 1..13 for the high-level functions */
		if (!im->width)
			for (int rows = 1; rows <= RMAX; rows++)
				for (unsigned ki = 0; ki < 3; ki++) {
					if (!v_mine(unit++))
						continue;
					make_ref(kc[ki], rows, 3 + rows, 320);
					ref_k = -1; /* coefficient layout depends on rows: never reuse */
					for (unsigned li = 0; li < sizeof lc / sizeof lc[0]; li++)
						run_case(im, lc[li], kc[ki], rows, -1, -1, 1, "c:rows");
					v_nontrivial(v_mix(ii + 2000, rows * 16 + ki));
				}
		/* (f) sparse sources: source 1 all zero except one window of 1 / 8 / 24 / 32 / 64 non-zero bytes at EVERY offset, the other two
		 * sources all zero or dense: no "nothing to do" shortcut may fire on anything less than truly all-zero data */
		{
			static uint8_t SP[NMAX], Z[NMAX];
			static const int sl[] = { 64, 96, 128, 192, 256, 300 }, sw[] = { 1, 8, 24, 32, 64 };
			for (int li = 0; li < 6; li++) {
				if (!v_mine(unit++))
					continue;
				if (v_deadline_hit() || nfail > 60)
					goto out;
				int len = sl[li];
				if (len < im->minlen || len > N)
					continue;
				uint8_t *keep[3] = { M[0], M[1], M[2] };
				for (int others = 0; others < 2; others++) {
					M[1] = SP;
					if (others == 0)
						M[0] = M[2] = Z;
					for (int wi = 0; wi < 5; wi++)
						for (int q = 0; q + sw[wi] <= len; q++) {
							memset(SP, 0, len);
							for (int j = 0; j < sw[wi]; j++)
								SP[q + j] = (uint8_t)(1 + (q * 7 + j * 13) % 255);
							ref_k = -1;
							make_ref(3, w, 1, len);
							run_case(im, len, 3, w, -1, -1, 1, others ? "f:sparse-source-1,dense-0-and-2" : "f:sparse-source-1,zero-0-and-2");
							v_count("sparse_source_cases", 1);
						}
					M[0] = keep[0]; M[1] = keep[1]; M[2] = keep[2];
				}
				ref_k = -1;
				v_nontrivial(v_mix(ii + 5000, len));
			}
		}
		/* (g) special coefficient matrices (all 0, all 1, identity pattern, all 2, one value per row, only the last column) x k in {1,4,10} */
		for (int kind = 0; kind < 6; kind++)
			for (int ki = 0; ki < 3; ki++) {
				if (!v_mine(unit++))
					continue;
				if (v_deadline_hit() || nfail > 60)
					goto out;
				static const int ks[] = { 1, 4, 10 }, ls[] = { -1, 64, 100, 300 };
				EC_K = ks[ki];
				ref_k = -1;
				make_ref(ks[ki], w, 1000 + kind, 320);
				for (int li = 0; li < 4; li++) {
					int len = ls[li] < 0 ? im->minlen : ls[li];
					if (len < im->minlen)
						continue;
					char sw[64];
					snprintf(sw, sizeof sw, "g:coefficients=%s", ec_special_name[kind]);
					run_case(im, len, ks[ki], w, -1, -1, 1, sw);
				}
				ref_k = -1;
				EC_K = 1;
				v_nontrivial(v_mix(ii + 6000, kind * 8 + ki));
			}
		/* (h) the high-level entries at the SMALLEST shapes (k, rows) in {(1,1), (1,2), (2,1), (1,6)} x EVERY length, end-flush and page-start
		 * placement (both give 16- and 32-byte aligned blocks at the matching lengths): shortcuts for degenerate shapes */
		if (!im->width) {
			static const int shp[4][2] = { { 1, 1 }, { 1, 2 }, { 2, 1 }, { 1, 6 } };
			for (int si = 0; si < 4; si++) {
				if (!v_mine(unit++))
					continue;
				if (v_deadline_hit() || nfail > 60)
					goto out;
				ref_k = -1;
				make_ref(shp[si][0], shp[si][1], 70 + si, NMAX);
				ref_k = -1; /* coefficient layout depends on rows: never reuse */
				for (int len = im->minlen; len <= N; len++) {
					run_case(im, len, shp[si][0], shp[si][1], -1, -1, 1, "h:smallest-shapes E/E");
					run_case(im, len, shp[si][0], shp[si][1], 0, 0, 0, "h:smallest-shapes S/S");
				}
				v_nontrivial(v_mix(ii + 7000, si));
			}
		}
		/* (e) long blocks */
		{
			static const int bigl[] = { 65536 + 17, (1 << 20) + 33, 1 << 20, (1 << 20) + 64, (1 << 24) + 65 };
			for (int bi = 0; bi < (v_thorough ? 5 : 4); bi++)
				for (int sa = 0; sa < 2; sa++)
					if (v_mine(unit++)) {
						if (v_deadline_hit() || nfail > 60)
							goto out;
						run_big(im, bigl[bi], w, sa); /* blocks ending at a guard page / starting on a page boundary */
						v_nontrivial(v_mix(ii + 4000, bi * 2 + sa));
					}
		}
		/* (e2) wide AND long for the high-level entries: k = 32 / 40 sources, 7 rows, 1 MiB (+37) per block - a wrapper may choose another
		 * blocking once the stripe is both wide and long */
		if (!im->width)
			for (int wv = 0; wv < 2; wv++)
				if (v_mine(unit++)) {
					if (v_deadline_hit() || nfail > 60)
						goto out;
					BIG_K = wv ? 40 : 32;
					run_big(im, (1 << 20) + (wv ? 37 : 0), 7, wv);
					BIG_K = 3;
					v_nontrivial(v_mix(ii + 4500, wv));
				}
		/* (e3) very wide and medium-long for the high-level entries: k = 171 / 200 / 255 sources (a table row group no longer fits a 32 KiB L1
		 * way), 4 / 7 / 10 rows, blocks of 8 KiB .. 32 KiB: cache-blocking decisions keyed on k AND len together */
		if (!im->width) {
			static const int wk[] = { 171, 200, 255 }, wr[] = { 4, 7, 10 }, wl[] = { 8192, 8229, 32768 + 5 };
			for (int a = 0; a < 3; a++)
				for (int b = 0; b < 3; b++)
					for (int c = 0; c < 3; c++)
						if (v_mine(unit++)) {
							if (v_deadline_hit() || nfail > 60)
								goto out;
							BIG_K = wk[a];
							run_big(im, wl[c], wr[b], (a + b + c) & 1);
							BIG_K = 3;
							v_nontrivial(v_mix(ii + 4700, a * 9 + b * 3 + c));
						}
		}
		/* (d) the complete multiplication table through this kernel: k=1, c=0..255, every byte value in main loop and tail */
		if (v_mine(unit++)) {
			uint8_t *save = M[0];
			uint8_t *ramp = malloc(NMAX);
			for (int j = 0; j < NMAX; j++)
				ramp[j] = (uint8_t)(j + (j >> 8) * 3);
			M[0] = ramp;
			int len = 320 + 63;
			for (int c = 0; c < 256; c++) {
				for (int r = 0; r < w; r++) {
					A[r] = (uint8_t)(c + r * 37);
					for (int j = 0; j < len; j++)
						REF[r][j] = rgf_mul_slow(A[r], ramp[j]);
				}
				ref_k = -1;
				run_case(im, len, 1, w, -1, -1, 0, "d:multiplication-table");
				v_count("products_checked", (int64_t)w * 256);
			}
			M[0] = save;
			free(ramp);
			v_nontrivial(v_mix(ii + 3000, 0));
		}
	}
out:
	if (v_shard == 0) {
		v_sample("gf_3vect_dot_prod_avx2 len=77 k=3 src=S+13 dst=S+31: 3 outputs == ref_gf matrix product, sources unchanged, canaries intact");
		v_sample("ec_encode_data_avx512_gfni len=1 k=3 rows=7 src=E dst=E (the case that exposed the stray loads fixed in 3bc614f)");
		v_sample("multiplication table: gf_6vect_dot_prod_sse k=1 c=0x53.. source bytes 00..ff in main loop and tail");
		v_count("implementations", n);
		v_note("GF(2)-linearity argument: for a fixed shape a kernel without data-dependent control flow is linear in source and table bytes; "
		       "the 256x256 table sweep plus the position sweep then decide all data (assumption checked on dense xorshift data, not proved)");
		v_note("direct kernel calls respect documented minimum lengths (sse/avx 16, avx2 32, avx512 64; gfni and high-level entries: any length)");
		(void)ndirect;
	}
	return v_finish();
}
