/* C12 - GF(2^8) scalar arithmetic and tables are a correct field. Complete enumeration. */
#include "verif.h"
#include <sys/mman.h>
#include "ref_gf.h"
#include "erasure_code.h"
#include <immintrin.h>

extern void ec_init_tables_gfni(int k, int rows, unsigned char *a, unsigned char *g_tbls);
extern void ec_init_tables_base(int k, int rows, unsigned char *a, unsigned char *g_tbls);

__attribute__((target("gfni,avx2"))) static void hw_affine(uint64_t A, const uint8_t in[32], uint8_t out[32])
{
	__m256i m = _mm256_set1_epi64x((long long)A);
	__m256i x = _mm256_loadu_si256((const __m256i *)in);
	_mm256_storeu_si256((__m256i *)out, _mm256_gf2p8affine_epi64_epi8(x, m, 0));
}

int main(int argc, char **argv)
{
	v_init(argc, argv, "C12");
	rgf_init();
	char key[128];
	/* reference self-check: 0x11D field facts that do not come from ISA-L */
	if (rgf_mul_slow(2, 0x80) != 0x1d || rgf_mul_slow(0x53, 0) != 0 || rgf_mul_slow(1, 0xab) != 0xab)
		v_broken("ref_gf self-test");
	for (int a = 1; a < 256; a++)
		if (rgf_mul_slow(a, rgf_inv(a)) != 1)
			v_broken("ref_gf inverse self-test");

	/* (1) all 65536 products */
	for (int a = 0; a < 256; a++) {
		if (!v_mine(a))
			continue;
		for (int b = 0; b < 256; b++) {
			uint8_t r = gf_mul(a, b), e = rgf_mul_slow(a, b);
			v_eval();
			v_nontrivial(v_mix(1, a * 256 + b));
			if (r != e) {
				snprintf(key, sizeof key, "gf_mul a=%02x b=%02x", a, b);
				v_violation(key, "gf_mul(%02x,%02x)=%02x expected %02x flavour=%s", a, b, r, e, VERIF_FLAVOUR);
			}
		}
		/* (2) inverse */
		uint8_t iv = gf_inv(a);
		v_eval();
		if (a && gf_mul(a, iv) != 1) {
			snprintf(key, sizeof key, "gf_inv a=%02x", a);
			v_violation(key, "gf_inv(%02x)=%02x, product %02x != 1", a, iv, gf_mul(a, iv));
		}
		if (a && iv != rgf_inv(a)) {
			snprintf(key, sizeof key, "gf_inv a=%02x", a);
			v_violation(key, "gf_inv(%02x)=%02x expected %02x", a, iv, rgf_inv(a));
		}
		if (!a && iv != 0) {
			snprintf(key, sizeof key, "gf_inv a=00");
			v_violation(key, "gf_inv(0)=%02x expected 0 (as coded/documented)", iv);
		}
		/* (3) field laws over all triples with this a: associativity, distributivity, commutativity */
		for (int b = 0; b < 256; b++)
			for (int c = 0; c < 256; c++) {
				uint8_t l = gf_mul(gf_mul(a, b), c), r = gf_mul(a, gf_mul(b, c));
				uint8_t d1 = gf_mul(a, b ^ c), d2 = gf_mul(a, b) ^ gf_mul(a, c);
				if (l != r || d1 != d2) {
					snprintf(key, sizeof key, "field-law a=%02x b=%02x c=%02x", a, b, c);
					v_violation(key, "assoc %02x vs %02x, distrib %02x vs %02x", l, r, d1, d2);
				}
			}
		v_eval_n(65536);
		v_count("triples_checked", 65536);
		/* (4) 32-byte table expansion, at every alignment of the table address (the API states no alignment requirement and the
		 * kernels load tables with unaligned loads) */
		_Alignas(64) uint8_t tblbuf[64 + 32 + 64 + 16];
		uint8_t *tbl = tblbuf + 32; /* tbl + 32 is the table of the aligned case used for the product check below */
		for (int offp = 47; offp >= 0; offp--) {
			/* the table is a pure OUTPUT: its prior contents (EE, the constant itself, its complement) must not matter */
			int off = offp % 16, pre = offp / 16;
			memset(tblbuf, 0xEE, sizeof tblbuf);
			uint8_t *tt = tblbuf + 64 + off;
			if (pre)
				memset(tt, pre == 1 ? a : (uint8_t)~a, 32);
			gf_vect_mul_init(a, tt);
			v_eval();
			for (int i = 0; i < 16; i++) {
				if (tt[i] != rgf_mul_slow(a, i) || tt[16 + i] != rgf_mul_slow(a, i << 4)) {
					snprintf(key, sizeof key, "gf_vect_mul_init c=%02x table-address%%16=%d prefill=%s", a, off, pre == 0 ? "EE" : pre == 1 ? "c" : "~c");
					v_violation(key, "entry %d: lo %02x (exp %02x) hi %02x (exp %02x)", i, tt[i], rgf_mul_slow(a, i),
						    tt[16 + i], rgf_mul_slow(a, i << 4));
					break;
				}
			}
			for (int i = 0; i < 32; i++)
				if (tt[-1 - i] != 0xEE || tt[32 + i] != 0xEE) {
					snprintf(key, sizeof key, "gf_vect_mul_init c=%02x writes outside 32 bytes (table-address%%16=%d)", a, off);
					v_violation(key, "neighbour byte changed");
					break;
				}
		}
		tbl = tblbuf + 64 - 32; /* last iteration was off = 0: the table sits at tblbuf + 64 == tbl + 32 */
		/* table-driven product equals field product for every byte */
		for (int x = 0; x < 256; x++) {
			uint8_t p = tbl[32 + (x & 15)] ^ tbl[48 + (x >> 4)];
			v_eval();
			if (p != rgf_mul_slow(a, x)) {
				snprintf(key, sizeof key, "table-product c=%02x x=%02x", a, x);
				v_violation(key, "table product %02x expected %02x", p, rgf_mul_slow(a, x));
			}
		}
	}
	/* (5) ec_init_tables (base + dispatched under each CPU level + gfni builder): k x rows grids, all 256 coefficients */
	struct simcpu host;
	cpu_host(&host);
	int have_gfni = (host.ecx7 & C7C_GFNI) && (host.ebx7 & C7B_AVX2);
	if (!have_gfni)
		v_note("host lacks GFNI: the GFNI matrices are checked against the software model of GF2P8AFFINEQB only");
	/* grid = (k, rows, coefficient content): content 4 = more than 65536 coefficients with a value that first occurs beyond entry 65536 and repeats; content 0 = all 256 values in turn; 1 = a wide local-parity row (zeros, from column 256 on
	 * ones); 2 = four distinct values repeating everywhere; 3 = one constant. k beyond 256 is legal (k is an int) even though no
	 * MDS code needs it: an implementation may not key anything on the column index fitting a byte. */
	static const int grid[][3] = { { 1, 1, 0 }, { 1, 256, 0 }, { 256, 1, 0 }, { 16, 16, 0 }, { 3, 85, 0 }, { 85, 3, 0 }, { 10, 4, 0 }, { 255, 255, 0 },
				       { 300, 2, 1 }, { 300, 2, 2 }, { 258, 3, 0 }, { 520, 1, 2 }, { 1024, 2, 1 }, { 255, 3, 2 }, { 64, 5, 3 }, { 700, 3, 0 }, { 260, 260, 4 }, { 300, 250, 4 } };
	for (unsigned g = 0; g < sizeof grid / sizeof grid[0]; g++) {
		if (!v_mine(g))
			continue;
		int k = grid[g][0], rows = grid[g][1], content = grid[g][2];
#define COEF(i) (uint8_t)(content == 0 ? (i) * 7 + g * 13 + ((i) >> 8) : content == 1 ? ((i) % k < 256 ? 0 : 1 + ((i) / k)) : content == 2 ? 0x1d * ((((i) % k) * ((i) % k) >> 3) & 3) : content == 4 ? ((i) == 66000 || (i) == 66500 || (i) == 70001 || (i) + 1 == (size_t)k * rows ? 0xE7 : (i) % 199) : 0x8e)
		size_t n = (size_t)k * rows;
		uint8_t *a = malloc(n), *t = g_alloc(n * 32, G_END), *t8 = g_alloc(n * 8, G_END);
		/* the same grid with the table block at odd addresses (ec_init_tables_base and the dispatched builder) */
		if (n <= 4096)
			for (int off = 1; off < 16; off += 2) {
				uint8_t *tu = g_alloc_off(n * 32, off);
				for (size_t i = 0; i < n; i++)
					a[i] = COEF(i);
				for (int which = 0; which < 2; which++) {
					memset(tu, 0xEE, n * 32);
					cpu_set_level(CPU_AVX2);
					if (which)
						ec_init_tables(k, rows, a, tu);
					else
						ec_init_tables_base(k, rows, a, tu);
					v_eval();
					for (size_t i = 0; i < n; i++)
						for (int x = 0; x < 32; x++) {
							uint8_t e = x < 16 ? rgf_mul_slow(a[i], x) : rgf_mul_slow(a[i], (x - 16) << 4);
							if (tu[32 * i + x] != e) {
								snprintf(key, sizeof key, "ec_init_tables%s c=%02x table-address%%16=%d", which ? "@avx2" : "_base", a[i], off);
								v_violation(key, "k=%d rows=%d index %zu entry %d = %02x expected %02x", k, rows, i, x, tu[32 * i + x], e);
								i = n - 1;
								break;
							}
						}
				}
				if (g_check())
					v_violation("ec_init_tables overrun (unaligned table)", "%s k=%d rows=%d", g_last_damage(), k, rows);
			}
		for (size_t i = 0; i < n; i++)
			a[i] = COEF(i);
		for (int lvl = -1; lvl < CPU_NLEVELS; lvl++) {
			memset(t, 0xEE, n * 32);
			int is_gfni = 0;
			if (lvl < 0)
				ec_init_tables_base(k, rows, a, t);
			else {
				cpu_set_level(lvl);
				if (V_TRY())
					ec_init_tables(k, rows, a, t);
				else {
					v_violation("ec_init_tables fault", "fault at %s level %s k=%d rows=%d", v_sym(v_fault_rip), cpu_level_name[lvl], k, rows);
					continue;
				}
				V_END();
				is_gfni = strstr(cpu_selected("ec_init_tables"), "gfni") != NULL;
			}
			v_eval();
			for (size_t i = 0; i < n; i++) {
				if (is_gfni) {
					uint64_t A;
					memcpy(&A, t + 8 * i, 8);
					for (int x = 0; x < 256; x++)
						if (rgf_affine(A, x) != rgf_mul_slow(a[i], x)) {
							snprintf(key, sizeof key, "ec_init_tables(gfni) c=%02x", a[i]);
							v_violation(key, "matrix %016llx x=%02x gives %02x expected %02x", (unsigned long long)A, x, rgf_affine(A, x), rgf_mul_slow(a[i], x));
							break;
						}
				} else
					for (int x = 0; x < 32; x++) {
						uint8_t e = x < 16 ? rgf_mul_slow(a[i], x) : rgf_mul_slow(a[i], (x - 16) << 4);
						if (t[32 * i + x] != e) {
							snprintf(key, sizeof key, "ec_init_tables c=%02x level=%s", a[i], lvl < 0 ? "base-direct" : cpu_level_name[lvl]);
							v_violation(key, "k=%d rows=%d index %zu entry %d = %02x expected %02x", k, rows, i, x, t[32 * i + x], e);
							break;
						}
					}
			}
			if (g_check())
				v_violation("ec_init_tables overrun", "%s k=%d rows=%d", g_last_damage(), k, rows);
			v_nontrivial(v_mix(5, g * 16 + lvl + 1));
		}
		/* gfni builder directly: exact-size (8 bytes per coefficient) end-flush buffer */
		if (V_TRY())
			ec_init_tables_gfni(k, rows, a, t8);
		else
			v_violation("ec_init_tables_gfni fault", "fault at %s k=%d rows=%d", v_sym(v_fault_rip), k, rows);
		V_END();
		v_eval();
		for (size_t i = 0; i < n; i++) {
			uint64_t A;
			memcpy(&A, t8 + 8 * i, 8);
			uint8_t in[256], out[256];
			for (int x = 0; x < 256; x++)
				in[x] = x;
			if (have_gfni)
				for (int x = 0; x < 256; x += 32)
					hw_affine(A, in + x, out + x);
			for (int x = 0; x < 256; x++) {
				uint8_t e = rgf_mul_slow(a[i], x);
				if (rgf_affine(A, x) != e || (have_gfni && out[x] != e)) {
					snprintf(key, sizeof key, "gf_table_gfni c=%02x", a[i]);
					v_violation(key, "matrix %016llx x=%02x sw %02x hw %02x expected %02x", (unsigned long long)A, x, rgf_affine(A, x), have_gfni ? out[x] : 0, e);
					break;
				}
			}
			v_count("gfni_matrices_checked", 1);
		}
		free(a);
		g_reset();
	}
	/* thorough tier only: a grid whose tables exceed 4 GiB (k = 16384, rows = 8193: 2^27 + 16384 coefficients): the byte offset 32 * i of
	 * table i does not fit 32 bits. The whole block is really written (about 4.3 GB of memory); entries 0..70000, the 16 K around 2^27
	 * and every 4099th are compared with the reference expansion */
	if (v_thorough && v_shard == 2 % v_nshards) {
		const size_t K2 = 16384, R2 = 8193, N2 = K2 * R2;
		uint8_t *a2 = malloc(N2), *t2 = mmap(NULL, N2 * 32, PROT_READ | PROT_WRITE, MAP_PRIVATE | MAP_ANONYMOUS | MAP_NORESERVE, -1, 0);
		if (!a2 || t2 == MAP_FAILED)
			v_not_exhaustive("4 GiB table grid skipped: not enough memory");
		else {
			for (size_t i = 0; i < N2; i++)
				a2[i] = (uint8_t)(0x1d + i * 7 + (i >> 8) + (i >> 27) * 101);
			ec_init_tables_base((int)K2, (int)R2, a2, t2);
			v_eval();
			for (size_t i = 0; i < N2; i++) {
				if (!(i <= 70000 || (i + 8192 >= ((size_t)1 << 27) && i <= ((size_t)1 << 27) + 8192) || i % 4099 == 0 || i + 70000 >= N2))
					continue;
				int bad = 0;
				for (int x = 0; x < 32 && !bad; x++)
					bad = t2[32 * i + x] != (x < 16 ? rgf_mul_slow(a2[i], x) : rgf_mul_slow(a2[i], (x - 16) << 4));
				if (bad) {
					snprintf(key, sizeof key, "ec_init_tables_base beyond-4GiB grid c=%02x", a2[i]);
					v_violation(key, "k=%zu rows=%zu: table %zu (byte offset %zu) is not the expansion of its coefficient", K2, R2, i, 32 * i);
					break;
				}
			}
			v_count("tables_beyond_4GiB_grids", 1);
			munmap(t2, N2 * 32);
		}
		free(a2);
	}
	v_sample("gf_mul(0x53,0xca)=0x%02x ref=0x%02x", gf_mul(0x53, 0xca), rgf_mul_slow(0x53, 0xca));
	v_sample("gf_inv(0x02)=0x%02x", gf_inv(2));
	{
		uint8_t tb[32];
		gf_vect_mul_init(0x1d, tb);
		v_sample("gf_vect_mul_init(0x1d)=%s", v_hex(tb, 32));
	}
	return v_finish();
}
