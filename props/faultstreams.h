/* Streams for the "stale decode table" fault family (shared by C06 and C15).
 * Block 1 declares COMPLETE codes; block 2 declares the same codes minus ONE symbol (incomplete) and then uses the codeword that
 * became undefined (all ones of the maximal length). A decoder that rebuilds its lookup tables in place and leaves entries of the
 * previous block (or of whatever was in the state object before) behind decodes the undefined codeword as the removed symbol -
 * chosen so that this would be perfectly decodable (a literal, or a distance of 1 or 2). */
#ifndef FAULTSTREAMS_H
#define FAULTSTREAMS_H
#include "ref_gen.h"
static const int FS_NDS[] = { 2, 3, 5, 12, 16, 24, 30 }, FS_NLS[] = { 2, 3, 9, 40, 150, 256 };
/* which: 0 hole in the distance code, 1 hole in the lit/len code; shape: 0 balanced, 1 depth-15 chain; ni: alphabet size index;
 * rem: which of the longest-code symbols is removed; only_second: emit block 2 alone (with 'ab' + match history supplied by a stored block).
 * Returns the stream length in bytes, 0 if the combination does not exist; *desc gets a description. */
static size_t fs_build(int which, int shape, int ni, int rem, int only_second, uint8_t *buf, size_t cap, char *desc, size_t dcap)
{
	int used_l[300], nl = 0, used_d[32], nd = 0;
	int nlit = which ? FS_NLS[ni] : 3;
	used_l[nl++] = 256;
	used_l[nl++] = 257;
	for (int i = nlit - 1; i >= 0; i--)
		used_l[nl++] = i == 0 ? 'a' : (('a' + i * 7) & 0xff) == 'a' ? 1 : (('a' + i * 7) & 0xff);
	{
		uint8_t seen[256] = { 0 };
		int k = 2;
		for (int i = 2; i < nl; i++)
			if (!seen[used_l[i]]) { seen[used_l[i]] = 1; used_l[k++] = used_l[i]; }
		nl = k;
	}
	int ndist = which ? 2 : FS_NDS[ni];
	for (int i = ndist - 1; i >= 0; i--)
		used_d[nd++] = i;
	uint8_t L[288] = { 0 }, D[32] = { 0 }, L2[288], D2[32];
	if (shape) { shape_chain(used_l, nl, 15, L); shape_chain(used_d, nd, 15, D); }
	else { shape_balanced(used_l, nl, L); shape_balanced(used_d, nd, D); }
	if (nd == 1)
		return 0;
	memcpy(L2, L, sizeof L); memcpy(D2, D, sizeof D);
	int victim, maxlen = 0;
	if (which) {
		if (rem >= nl - 2) return 0;
		victim = used_l[nl - 1 - rem];
		L2[victim] = 0;
		for (int i = 0; i < 288; i++) if (L2[i] > maxlen) maxlen = L2[i];
	} else {
		if (rem >= nd) return 0;
		victim = used_d[nd - 1 - rem];
		D2[victim] = 0;
		for (int i = 0; i < 32; i++) if (D2[i] > maxlen) maxlen = D2[i];
	}
	struct bw w;
	bw_init(&w, buf, cap);
	if (!only_second) {
		struct tok t[16];
		int nt = 0;
		t[nt++] = (struct tok){ 0, 'a', 0 };
		t[nt++] = (struct tok){ 0, (uint8_t)used_l[nl - 1], 0 };
		t[nt++] = (struct tok){ 0, 'a', 0 };
		t[nt++] = (struct tok){ 3, 0, 1 };
		t[nt++] = (struct tok){ 3, 0, 2 };
		gen_dynamic(&w, 0, L, 286, D, 30, shape, t, nt);
	} else
		gen_stored(&w, 0, (const uint8_t *)"abab", 4, 0); /* history for a distance of 1 or 2 */
	uint16_t l2c[288], d2c[32];
	gen_canon(L2, 288, l2c); gen_canon(D2, 32, d2c);
	gen_dyn_header(&w, 1, L2, 286, D2, 30, shape, 0);
	bw_code(&w, l2c['a'], L2['a']);
	if (which) {
		for (int i = 0; i < maxlen; i++) bw_bit(&w, 1);
	} else {
		bw_code(&w, l2c[257], L2[257]);
		for (int i = 0; i < maxlen; i++) bw_bit(&w, 1);
	}
	bw_code(&w, l2c[256], L2[256]);
	snprintf(desc, dcap, "fault{stale tables: %s drops %s symbol %d (code length %d) from %s %s %s code of %d symbols and uses the undefined all-ones codeword}", only_second ? "the block" : "block 2", which ? "lit/len" : "distance",
		 victim, which ? L[victim] : D[victim], only_second ? "a" : "block 1's", shape ? "depth-15" : "balanced", which ? "lit/len" : "distance", which ? nl : nd);
	return bw_bytes(&w);
}
#endif
