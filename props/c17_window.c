/* C17 - matches never reach outside the announced window or the preset dictionary. */
#include "codec_common.h"

static long nfail;
static uint8_t *IN, *OUT, *OUT2, *BACK;
static char in_name[96];
static uint64_t *vc;
static size_t vcap = 1 << 20, vnum;
static int vc_add(uint64_t k)
{
	if (!vc)
		vc = calloc(vcap, 8);
	if (!k)
		k = 1;
	size_t j = (k * 0x9e3779b97f4a7c15ull) >> 20 & (vcap - 1);
	while (vc[j]) {
		if (vc[j] == k)
			return 0;
		j = (j + 1) & (vcap - 1);
	}
	if (vnum * 2 > vcap)
		return 1;
	vc[j] = k;
	vnum++;
	return 1;
}

/* foreign witness: zlib with a 2^w window and 1-byte output chunks resolves every match through its own window */
static int zlib_window_decode(const uint8_t *strm, size_t slen, int w, const uint8_t *in, size_t len, char *why, size_t wl)
{
	z_stream z;
	memset(&z, 0, sizeof z);
	if (inflateInit2(&z, -(w < 9 ? 9 : w)) != Z_OK)
		v_broken("inflateInit2");
	z.next_in = (Bytef *)strm;
	z.avail_in = slen;
	size_t got = 0;
	int r = Z_OK;
	uint8_t o;
	while (r == Z_OK) {
		z.next_out = &o;
		z.avail_out = 1;
		r = inflate(&z, Z_NO_FLUSH);
		if (z.avail_out == 0) {
			if (got >= len || o != in[got]) {
				snprintf(why, wl, "zlib(windowBits=%d) output differs at byte %zu", w, got);
				inflateEnd(&z);
				return 0;
			}
			got++;
		} else if (r == Z_OK)
			break;
	}
	const char *msg = z.msg;
	inflateEnd(&z);
	if (r != Z_STREAM_END || got != len) {
		snprintf(why, wl, "zlib with a 2^%d window: %d (%s) after %zu of %zu bytes", w, r, msg ? msg : "", got, len);
		return 0;
	}
	return 1;
}

static void window_case(uint64_t in_id, size_t len, int w)
{
	static const int cpus[] = { CPU_BASE, CPU_SSE, CPU_AVX, CPU_AVX2, CPU_AVX512, CPU_AVX512G2 };
	char key[400], why[256];
	for (int ci = 0; ci < 6; ci++) {
		cpu_set_level(cpus[ci]);
		for (int level = 0; level <= 3; level++)
			for (int flush = 0; flush < 3; flush += 2)
				for (int gz = 0; gz < 2; gz++)
					for (int api = 0; api < 3; api++) {
						if (nfail > 30 || v_deadline_hit())
							return;
						struct cparams p = { level, flush, gz ? IGZIP_ZLIB : IGZIP_DEFLATE, w, 0, LB_MIN, api, 4096, 4096 + 512 };
						size_t ol;
						struct isal_zstream *s;
						int r = c_deflate(&p, IN, len, OUT, 2 * len + 4096, &ol, &s);
						v_eval();
						snprintf(key, sizeof key, "window %s cpu=%s input=%s", cparams_str(&p), cpu_level_name[cpus[ci]], in_name);
						if (r != COMP_OK || s->internal_state.state != ZSTATE_END) {
							v_violation(key, "compress: return %d state %d", r, s ? (int)s->internal_state.state : -1);
							nfail++;
							g_reset();
							continue;
						}
						g_reset();
						if (!vc_add(v_hash(OUT, ol, in_id * 64 + w * 2 + gz)))
							continue;
						uint32_t window = w ? 1u << w : 32768;
						if (!verify_deflate_output(OUT, ol, p.gzip_flag, IN, len, 0, window, NULL, 0, why, sizeof why)) {
							v_violation(key, "reference decoder with window 2^%d: %s (max distance seen %u)", w ? w : 15, why, vs_res.max_dist);
							nfail++;
							continue;
						}
						if (vs_res.max_dist > window || vs_res.max_dist > 32768) {
							v_violation(key, "match distance %u exceeds the requested window %u", vs_res.max_dist, window);
							nfail++;
							continue;
						}
						v_max("max_distance_seen", vs_res.max_dist);
						if (vs_res.max_dist == window)
							v_count("streams_using_full_window", 1);
						if (gz) {
							/* zlib header must advertise a window at least as large as the one used */
							if (vs_res.zl.cinfo + 8 < (w ? w : 15) || (1u << (vs_res.zl.cinfo + 8)) < vs_res.max_dist) {
								v_violation(key, "zlib header CINFO=%d advertises 2^%d, compressor window 2^%d, max distance %u", vs_res.zl.cinfo, vs_res.zl.cinfo + 8, w ? w : 15, vs_res.max_dist);
								nfail++;
								continue;
							}
						} else if (!zlib_window_decode(OUT, ol, w ? w : 15, IN, len, why, sizeof why)) {
							v_violation(key, "%s", why);
							nfail++;
							continue;
						}
						v_count("streams_verified", 1);
						v_nontrivial(v_hash(OUT, ol, 1));
					}
	}
}

/* ---------------- dictionaries ---------------- */
static uint8_t *DICT;
/* the pre-processed dictionary is meant to be used "on multiple deflate objects" (igzip_lib.h): installing it must not change it */
static struct isal_dict PD_SNAP;
static int pd_changed;
static void pd_report(const char *key)
{
	if (pd_changed) {
		v_violation(key, "isal_deflate_reset_dict modified the caller's pre-processed dictionary object (it is shared between streams)");
		nfail++;
		pd_changed = 0;
	}
}
static void dict_cases(uint64_t *unit)
{
	static const int dlens[] = { 1, 2, 3, 4, 5, 257, 32767, 32768, 32769, 70000 };
	static const int cpus[] = { CPU_BASE, CPU_AVX2, CPU_AVX512G2 };
	static struct isal_dict *pd;
	if (!pd)
		pd = malloc(sizeof *pd);
	char key[400], why[256];
	for (unsigned di = 0; di < sizeof dlens / sizeof dlens[0]; di++)
		for (int dv = 0; dv < 4; dv++)
			for (int level = 0; level <= 3; level++)
				for (int ci = 0; ci < 3; ci++) {
					if (!v_mine((*unit)++))
						continue;
					if (nfail > 30 || v_deadline_hit())
						return;
					int dl = dlens[di];
					fill_xorshift(DICT, dl, 7000 + di);
					/* data: repeats the dictionary's last {4, 300, 32768} bytes, or (negative control) bytes that occur only before the last 32 KiB */
					size_t len = 0;
					int tail = dv == 0 ? 4 : dv == 1 ? 300 : 32768;
					if (dv < 3) {
						int t = tail < dl ? tail : dl;
						memcpy(IN, DICT + dl - t, t);
						len = t;
						fill_xorshift(IN + len, 200, 555);
						len += 200;
						memcpy(IN + len, DICT + dl - t, t < 300 ? t : 300);
						len += t < 300 ? t : 300;
					} else {
						if (dl <= 32768 + 400)
							continue;
						memcpy(IN, DICT, 300); /* content only present before the last 32 KiB of the dictionary */
						len = 300;
						fill_xorshift(IN + len, 100, 556);
						len += 100;
					}
					/* hw: announced window (hist_bits) 0 = default, 9, 12; assigned before the dictionary call or (late) between the
					 * dictionary call and the first isal_deflate - either order is a legal way to fill in the stream parameters */
					for (int hw = 0; hw < 5; hw++) {
					int hbits = hw == 0 ? 0 : hw <= 2 ? 9 : 12, hlate = hw == 2 || hw == 4;
					if (hw && dv == 3)
						continue;
					cpu_set_level(cpus[ci]);
					const uint8_t *eff = dl > 32768 ? DICT + dl - 32768 : DICT;
					size_t efflen = dl > 32768 ? 32768 : dl;
					size_t ol[3] = { 0, 0, 0 };
					uint8_t *outs[3] = { OUT, OUT2, BACK };
					int ok = 1;
					/* variant 0: set_dict(whole dictionary); 1: set_dict(last 32 KiB only); 2: process_dict + reset_dict */
					for (int var = 0; var < 3 && ok; var++) {
						/* recycled objects start directly behind an inaccessible page: a look-back in front of the retained history faults */
						struct isal_zstream *s = g_alloc(sizeof *s, (di + dv + level + hw) % 2 ? G_START : G_END);
						uint8_t *lb = level ? g_alloc(lvl_default[level], G_END) : NULL;
						uint8_t *din = g_alloc(var == 1 ? efflen : dl, G_END);
						memcpy(din, var == 1 ? eff : DICT, var == 1 ? efflen : dl);
						g_readonly(din, 1);
						uint8_t *in = g_alloc(len, G_END);
						memcpy(in, IN, len);
						int r = -1000, rd = -1000;
						snprintf(key, sizeof key, "dict len=%d data=%s level=%d hist_bits=%d%s cpu=%s via=%s", dl, dv == 0 ? "tail4" : dv == 1 ? "tail300" : dv == 2 ? "tail32768" : "only-before-window", level,
							 hbits, hlate ? "(set after the dictionary call)" : "", cpu_level_name[cpus[ci]], var == 0 ? "set_dict" : var == 1 ? "set_dict(last 32K)" : "process_dict+reset_dict");
						/* every other case the object is not fresh: it first compressed a short stream with a 512-byte window and was then
						 * recycled with isal_deflate_reset (window-dependent state of the earlier stream must not survive) */
						int recycled = (di + dv + level + hw) % 2;
						if (V_TRY()) {
							isal_deflate_init(s);
							s->level = level; s->level_buf = lb; s->level_buf_size = level ? lvl_default[level] : 0;
							if (recycled) {
								static uint8_t junk_in[600], junk_out[2000];
								memset(junk_in, 'q', sizeof junk_in);
								s->hist_bits = 9;
								s->next_in = junk_in; s->avail_in = sizeof junk_in; s->end_of_stream = 1;
								s->next_out = junk_out; s->avail_out = sizeof junk_out;
								isal_deflate(s);
								isal_deflate_reset(s);
								s->hist_bits = 0;
							}
							if (!hlate)
								s->hist_bits = hbits;
							if (var < 2)
								rd = isal_deflate_set_dict(s, din, var == 1 ? efflen : dl);
							else {
								/* the dictionary object is an OUTPUT of process_dict: prior contents (ff, 00, a repeating 16-bit value, address hash) must not matter */
								switch ((di + dv + level + hw) % 4) {
								case 0: memset(pd, 0xff, sizeof *pd); break;
								case 1: memset(pd, 0x00, sizeof *pd); break;
								case 2: for (size_t i = 0; i + 1 < sizeof *pd; i += 2) { ((uint8_t *)pd)[i] = 0xa0; ((uint8_t *)pd)[i + 1] = 0xff; } break;
								default: for (size_t i = 0; i < sizeof *pd; i++) ((uint8_t *)pd)[i] = (uint8_t)((i * 2654435761u) >> 11);
								}
								rd = isal_deflate_process_dict(s, pd, din, dl);
								if (rd == COMP_OK) {
									memcpy(&PD_SNAP, pd, sizeof PD_SNAP);
									rd = isal_deflate_reset_dict(s, pd);
									pd_changed |= memcmp(&PD_SNAP, pd, sizeof PD_SNAP) != 0;
								}
							}
							if (hlate)
								s->hist_bits = hbits;
							/* options that are each checked elsewhere, here TOGETHER with a dictionary (same for all three routes): 1 = SYNC_FLUSH with the
							 * input in two pieces, 2 = static Huffman tables (level 0) / FULL_FLUSH (levels 1-3) */
							int combo = (int)((di + dv + ci + hw) % 3);
							if (rd == COMP_OK && combo == 2 && level == 0)
								isal_deflate_set_hufftables(s, NULL, IGZIP_HUFFTABLE_STATIC);
							if (rd == COMP_OK) {
								s->flush = combo == 1 ? SYNC_FLUSH : combo == 2 && level ? FULL_FLUSH : NO_FLUSH;
								s->next_out = outs[var]; s->avail_out = 2 * len + 4096;
								size_t first = combo == 1 ? len / 2 : len;
								s->next_in = in; s->avail_in = first; s->end_of_stream = first == len;
								r = isal_deflate(s);
								if (r == COMP_OK && first < len) {
									s->next_in = in + first; s->avail_in = len - first; s->end_of_stream = 1;
									r = isal_deflate(s);
								}
								ol[var] = s->total_out;
							}
							V_END();
						} else {
							v_violation(key, "fault at %s addr=%p", v_sym(v_fault_rip), (void *)v_fault_addr);
							nfail++;
							ok = 0;
						}
						v_eval();
							pd_report(key);
						if (ok && (rd != COMP_OK || r != COMP_OK || s->internal_state.state != ZSTATE_END)) {
							v_violation(key, "dictionary call returned %d, isal_deflate %d", rd, r);
							nfail++;
							ok = 0;
						}
						if (ok && g_check()) {
							v_violation(key, "%s", g_last_damage());
							nfail++;
							ok = 0;
						}
						g_reset();
					}
					if (!ok)
						continue;
					/* reference: decodes with the effective dictionary as history; no distance beyond dictionary + produced; max 32768 */
					if (!verify_deflate_output(OUT, ol[0], IGZIP_DEFLATE, IN, len, 0, hbits ? 1u << hbits : 0, eff, efflen, why, sizeof why)) {
						snprintf(key, sizeof key, "dict len=%d data-variant=%d level=%d hist_bits=%d%s cpu=%s", dl, dv, level, hbits, hlate ? "(late)" : "", cpu_level_name[cpus[ci]]);
						v_violation(key, "stream compressed with the dictionary: %s", why);
						nfail++;
						continue;
					}
					size_t reach = vs_res.max_reach_back;
					if (dv < 3 && dl >= 4 && level > 0 && reach == 0)
						v_count("dictionary_not_used", 1);
					if (reach)
						v_count("streams_reaching_into_dictionary", 1);
					if (ol[0] != ol[1] || memcmp(OUT, OUT2, ol[0])) {
						snprintf(key, sizeof key, "dict-tail-only len=%d data-variant=%d level=%d hist_bits=%d%s cpu=%s", dl, dv, level, hbits, hlate ? "(late)" : "", cpu_level_name[cpus[ci]]);
						v_violation(key, "stream with the whole dictionary differs from the stream with only its last 32 KiB (%zu vs %zu bytes)", ol[0], ol[1]);
						nfail++;
					}
					if (ol[0] != ol[2] || memcmp(OUT, BACK, ol[0])) {
						snprintf(key, sizeof key, "dict-processed len=%d data-variant=%d level=%d hist_bits=%d%s cpu=%s", dl, dv, level, hbits, hlate ? "(late)" : "", cpu_level_name[cpus[ci]]);
						v_violation(key, "process_dict+reset_dict gives a different stream than set_dict (%zu vs %zu bytes)", ol[2], ol[0]);
						nfail++;
					}
					/* inflate primed with the same dictionary round-trips (ISA-L decoder, streaming API) and zlib with inflateSetDictionary agrees */
					{
						struct inflate_state *st = g_alloc(sizeof *st, G_END);
						uint8_t *bo = g_alloc(len, G_END);
						int r = -1000, rd = -1000;
						if (V_TRY()) {
							isal_inflate_init(st);
							rd = isal_inflate_set_dict(st, DICT, dl);
							st->next_in = OUT; st->avail_in = ol[0]; st->next_out = bo; st->avail_out = len;
							r = isal_inflate(st);
							V_END();
						}
						snprintf(key, sizeof key, "dict-inflate len=%d data-variant=%d level=%d hist_bits=%d%s cpu=%s", dl, dv, level, hbits, hlate ? "(late)" : "", cpu_level_name[cpus[ci]]);
						if (rd != COMP_OK || r != ISAL_DECOMP_OK || st->block_state != ISAL_BLOCK_FINISH || st->total_out != len || memcmp(bo, IN, len)) {
							v_violation(key, "isal_inflate_set_dict=%d isal_inflate=%d state=%d total_out=%u (expected %zu bytes)", rd, r, st->block_state, st->total_out, len);
							nfail++;
						}
						g_reset();
						z_stream z;
						memset(&z, 0, sizeof z);
						inflateInit2(&z, -15);
						inflateSetDictionary(&z, eff, efflen);
						vs_need(2 * len + 128);
						z.next_in = OUT; z.avail_in = ol[0]; z.next_out = vs_buf; z.avail_out = len + 16;
						int zr = inflate(&z, Z_FINISH);
						if (zr != Z_STREAM_END || z.total_out != len || memcmp(vs_buf, IN, len)) {
							v_violation(key, "zlib with the same dictionary: %d (%s)", zr, z.msg ? z.msg : "");
							nfail++;
						}
						inflateEnd(&z);
					}
					/* a foreign zlib stream that ANNOUNCES its preset dictionary (FDICT + DICTID, made by zlib's deflateSetDictionary over the
					 * whole dictionary): isal_inflate in ISAL_ZLIB mode must stop with ISAL_NEED_DICT, accept the same dictionary through
					 * isal_inflate_set_dict and then deliver the data */
					if (hw == 0 && level == 0) {
						z_stream z;
						memset(&z, 0, sizeof z);
						if (deflateInit(&z, 6) != Z_OK || deflateSetDictionary(&z, DICT, dl) != Z_OK)
							v_broken("zlib deflateSetDictionary");
						z.next_in = IN; z.avail_in = len; z.next_out = BACK; z.avail_out = 2 * len + 200;
						if (deflate(&z, Z_FINISH) != Z_STREAM_END)
							v_broken("zlib deflate with dictionary");
						size_t zl = z.total_out;
						deflateEnd(&z);
						struct inflate_state *st = g_alloc(sizeof *st, G_END);
						uint8_t *bo = g_alloc(len, G_END);
						int r1 = -1000, rd = -1000, r2 = -1000;
						if (V_TRY()) {
							isal_inflate_init(st);
							st->crc_flag = ISAL_ZLIB;
							st->next_in = BACK; st->avail_in = zl; st->next_out = bo; st->avail_out = len;
							r1 = isal_inflate(st);
							if (r1 == ISAL_NEED_DICT) {
								rd = isal_inflate_set_dict(st, DICT, dl);
								if (rd == ISAL_DECOMP_OK)
									r2 = isal_inflate(st);
							}
							V_END();
						}
						snprintf(key, sizeof key, "dict-inflate zlib stream with FDICT, dict len=%d data-variant=%d cpu=%s", dl, dv, cpu_level_name[cpus[ci]]);
						if (r1 != ISAL_NEED_DICT || rd != ISAL_DECOMP_OK || r2 != ISAL_DECOMP_OK || st->block_state != ISAL_BLOCK_FINISH || st->total_out != len || memcmp(bo, IN, len)) {
							v_violation(key, "isal_inflate=%d (expected ISAL_NEED_DICT), isal_inflate_set_dict=%d, isal_inflate=%d, state %d, %u of %zu bytes", r1, rd, r2, st->block_state, st->total_out, len);
							nfail++;
						}
						g_reset();
						v_count("zlib_fdict_streams", 1);
					}
					v_nontrivial(v_mix(di * 16 + dv, level * 8 + ci + 64 * hw));
					} /* hw */
				}
}

/* dictionary installed MID-STREAM: igzip_lib.h allows isal_deflate_set_dict / isal_deflate_reset_dict "after completing a SYNC_FLUSH
 * or FULL_FLUSH and before the next call to isal_deflate". From that point on the dictionary is the history: the rest of the stream,
 * decoded with the dictionary as preset history, must give the rest of the input, and no match may reach in front of the dictionary. */
static void dict_midstream(uint64_t *unit)
{
	static const int alens[] = { 1, 300, 4001, 32768, 65535, 65536, 65537, 70000 };
	static const int dlens[] = { 1, 100, 32768 };
	static const int cpus[] = { CPU_BASE, CPU_AVX2, CPU_AVX512G2 };
	static struct isal_dict *pd;
	static uint8_t *A, *B;
	if (!pd) {
		pd = malloc(sizeof *pd);
		A = malloc(70000);
		B = malloc(6000);
	}
	char key[400], why[256];
	fill_pattern(A, 70000, PAT_TEXT, 5);
	for (unsigned ai = 0; ai < sizeof alens / sizeof alens[0]; ai++)
		for (int di = 0; di < 3; di++)
			for (int level = 0; level <= 3; level++)
				for (int fl = 1; fl <= 2; fl++)
					for (int ci = 0; ci < 3; ci++) {
						if (!v_mine((*unit)++))
							continue;
						if (nfail > 30 || v_deadline_hit())
							return;
						int alen = alens[ai], dl = dlens[di];
						fill_xorshift(DICT, dl, 4000 + di);
						/* B: a run of zeros (hash buckets the dictionary never set), a reference into the dictionary tail, then noise */
						size_t bl = 0;
						memset(B, 0, 1500); bl = 1500;
						int t = dl < 60 ? dl : 60;
						memcpy(B + bl, DICT + dl - t, t); bl += t;
						fill_xorshift(B + bl, 300, 17); bl += 300;
						memcpy(B + bl, A, 200); bl += 200; /* content of part A: must NOT be referenced any more */
						cpu_set_level(cpus[ci]);
						size_t ol[2] = { 0, 0 }, off[2] = { 0, 0 };
						uint8_t *outs[2] = { OUT, OUT2 };
						int ok = 1;
						for (int via = 0; via < 2 && ok; via++) {
							struct isal_zstream *s = g_alloc(sizeof *s, G_END);
							uint8_t *lb = level ? g_alloc(lvl_default[level], G_END) : NULL;
							int r1 = -1000, rd = -1000, r2 = -1000;
							snprintf(key, sizeof key, "dict-midstream after=%s first-part=%d dict len=%d level=%d cpu=%s via=%s", flush_name[fl], alen, dl, level, cpu_level_name[cpus[ci]], via ? "process_dict+reset_dict" : "set_dict");
							if (V_TRY()) {
								isal_deflate_init(s);
								s->level = level; s->level_buf = lb; s->level_buf_size = level ? lvl_default[level] : 0;
								s->flush = fl;
								s->next_in = A; s->avail_in = alen; s->end_of_stream = 0;
								s->next_out = outs[via]; s->avail_out = 200000;
								r1 = isal_deflate(s);
								off[via] = s->total_out;
								if (r1 == COMP_OK && s->avail_in == 0 && s->internal_state.state == ZSTATE_NEW_HDR) {
									if (via == 0)
										rd = isal_deflate_set_dict(s, DICT, dl);
									else {
										memset(pd, 0xff, sizeof *pd);
										rd = isal_deflate_process_dict(s, pd, DICT, dl);
										if (rd == COMP_OK) {
											memcpy(&PD_SNAP, pd, sizeof PD_SNAP);
											rd = isal_deflate_reset_dict(s, pd);
											pd_changed |= memcmp(&PD_SNAP, pd, sizeof PD_SNAP) != 0;
										}
									}
									s->flush = NO_FLUSH;
									s->next_in = B; s->avail_in = bl; s->end_of_stream = 1;
									if (rd == COMP_OK)
										r2 = isal_deflate(s);
									ol[via] = s->total_out;
								}
								V_END();
							} else {
								v_violation(key, "%s", v_fault_desc());
								nfail++;
								ok = 0;
							}
							v_eval();
							pd_report(key);
							if (ok && (r1 != COMP_OK || rd != COMP_OK || r2 != COMP_OK || s->internal_state.state != ZSTATE_END)) {
								v_violation(key, "first part %d, dictionary call %d, second part %d, state %d", r1, rd, r2, s->internal_state.state);
								nfail++;
								ok = 0;
							}
							if (ok && g_check()) {
								v_violation(key, "%s", g_last_damage());
								nfail++;
								ok = 0;
							}
							g_reset();
							if (!ok)
								break;
							/* first part: a byte-aligned prefix that decodes to A */
							if (!verify_deflate_output(outs[via], off[via], IGZIP_DEFLATE, A, alen, 1, 0, NULL, 0, why, sizeof why)) {
								v_violation(key, "first part (up to the flush): %s", why);
								nfail++;
								ok = 0;
								break;
							}
							/* second part: decoded with the dictionary as the ONLY history */
							if (!verify_deflate_output(outs[via] + off[via], ol[via] - off[via], IGZIP_DEFLATE, B, bl, 0, 0, DICT, dl, why, sizeof why)) {
								v_violation(key, "part after the dictionary call, decoded with the dictionary as preset history: %s", why);
								nfail++;
								ok = 0;
								break;
							}
							if (vs_res.max_reach_back)
								v_count("midstream_streams_reaching_into_dictionary", 1);
							v_count("midstream_dictionary_streams", 1);
						}
						if (ok && (ol[0] != ol[1] || memcmp(OUT, OUT2, ol[0]))) {
							snprintf(key, sizeof key, "dict-midstream-processed after=%s first-part=%d dict len=%d level=%d cpu=%s", flush_name[fl], alen, dl, level, cpu_level_name[cpus[ci]]);
							v_violation(key, "process_dict+reset_dict gives a different stream than set_dict (%zu vs %zu bytes)", ol[1], ol[0]);
							nfail++;
						}
						v_nontrivial(v_mix(0x3d00 + ai * 16 + di, level * 16 + fl * 4 + ci));
					}
}

/* window-edge family: period-2^w noise (an exact repeat one window back everywhere) in which the byte at the cut position c and the
 * byte TWO windows back carry a marker (00 / ff) while the byte ONE window back is noise: the hash bucket of the 4 bytes at c then
 * holds an entry that aliases to distance exactly 2^w under the distance mask, and the real history byte at that distance differs.
 * The data up to c is history - consumed by an earlier call (NO / SYNC flush) or installed as a dictionary (both routes) - so the
 * codec works from whatever it kept of it. The result must decode, within a 2^w window, to the input. */
static void window_edge_hist(uint64_t *unit)
{
	static const int ws[] = { 9, 10, 12, 14, 15 };
	static const int cpus[] = { CPU_BASE, CPU_SSE, CPU_AVX2, CPU_AVX512G2 };
	static struct isal_dict *pd;
	if (!pd)
		pd = malloc(sizeof *pd);
	char key[300], why[256];
	for (int wi = 0; wi < 5; wi++)
		for (int level = 0; level <= 3; level++)
			for (int ci = 0; ci < 4; ci++)
				for (int mode = 0; mode < 4; mode++)      /* 0,1: two calls (first NO_FLUSH / SYNC_FLUSH); 2: set_dict; 3: process_dict + reset_dict */
					for (int ck = 0; ck < 3; ck++)
						for (int mk = 0; mk < 2; mk++) {
							if (!v_mine((*unit)++))
								continue;
							if (nfail > 30 || v_deadline_hit())
								return;
							int w = ws[wi], Wd = 1 << w;
							int cut = ck == 0 ? 2 * Wd : ck == 1 ? 3 * Wd : 2 * Wd + 1;
							int len = cut + Wd / 2 + 300;
							uint8_t M = mk ? 0xff : 0x00;
							static uint8_t base[32768];
							fill_xorshift(base, Wd, 99 + w);
							for (int i = 0; i < len; i++)
								IN[i] = base[i & (Wd - 1)];
							IN[cut] = M;
							IN[cut - 2 * Wd] = M;
							if (IN[cut - Wd] == M)
								IN[cut - Wd] ^= 0x3c;
							cpu_set_level(cpus[ci]);
							struct isal_zstream *s = g_alloc(sizeof *s, G_END);
							uint8_t *lb = level ? g_alloc(lvl_default[level], G_END) : NULL;
							int r = -1000, rd = 0, fault = 0;
							size_t off = 0, total = 0;
							snprintf(key, sizeof key, "window-edge hist_bits=%d level=%d cpu=%s history=%s cut=%d marker=%02x", w, level, cpu_level_name[cpus[ci]],
								 mode == 0 ? "earlier call (NO_FLUSH)" : mode == 1 ? "earlier call (SYNC_FLUSH)" : mode == 2 ? "set_dict" : "process_dict+reset_dict", cut, M);
							if (V_TRY()) {
								isal_deflate_init(s);
								s->level = level; s->level_buf = lb; s->level_buf_size = level ? lvl_default[level] : 0;
								s->hist_bits = w;
								s->next_out = OUT; s->avail_out = 300000;
								if (mode < 2) {
									uint8_t *c1 = g_alloc(cut, G_END), *c2 = g_alloc(len - cut, G_END);
									memcpy(c1, IN, cut); memcpy(c2, IN + cut, len - cut);
									s->flush = mode ? SYNC_FLUSH : NO_FLUSH;
									s->next_in = c1; s->avail_in = cut; s->end_of_stream = 0;
									r = isal_deflate(s);
									if (r == COMP_OK && s->avail_in == 0) {
										memset(c1, 0xA5, cut); /* the caller reuses the consumed chunk */
										s->flush = NO_FLUSH;
										s->next_in = c2; s->avail_in = len - cut; s->end_of_stream = 1;
										r = isal_deflate(s);
									}
								} else {
									uint8_t *d = g_alloc(cut, G_END), *c2 = g_alloc(len - cut, G_END);
									memcpy(d, IN, cut); memcpy(c2, IN + cut, len - cut);
									if (mode == 2)
										rd = isal_deflate_set_dict(s, d, cut);
									else {
										memset(pd, 0xff, sizeof *pd);
										rd = isal_deflate_process_dict(s, pd, d, cut);
										if (rd == COMP_OK) {
											memcpy(&PD_SNAP, pd, sizeof PD_SNAP);
											rd = isal_deflate_reset_dict(s, pd);
											pd_changed |= memcmp(&PD_SNAP, pd, sizeof PD_SNAP) != 0;
										}
									}
									memset(d, 0xA5, cut); /* the dictionary buffer may be reused once it has been installed */
									off = cut;
									s->next_in = c2; s->avail_in = len - cut; s->end_of_stream = 1;
									if (rd == COMP_OK)
										r = isal_deflate(s);
								}
								total = s->total_out;
								V_END();
							} else
								fault = 1;
							v_eval();
							pd_report(key);
							if (fault) {
								v_violation(key, "%s", v_fault_desc());
								nfail++;
							} else if (rd != COMP_OK || r != COMP_OK || s->internal_state.state != ZSTATE_END) {
								v_violation(key, "dictionary call %d, isal_deflate %d, state %d", rd, r, s->internal_state.state);
								nfail++;
							} else {
								/* the dictionary the decoder needs is the last 32 KiB (at most) of the history */
								const uint8_t *h = off ? (off > 32768 ? IN + off - 32768 : IN) : NULL;
								size_t hl = off ? (off > 32768 ? 32768 : off) : 0;
								if (!verify_deflate_output(OUT, total, IGZIP_DEFLATE, IN + off, len - off, 0, 1u << w, h, hl, why, sizeof why)) {
									v_violation(key, "%s", why);
									nfail++;
								}
							}
							g_reset();
							v_count("window_edge_cases", 1);
							v_nontrivial(v_mix(0xed9e + wi, level * 64 + ci * 16 + mode * 4 + ck * 2 + mk));
						}
}

/* wrong-state dictionary calls are refused and leave the context byte-identical */
static void dict_refusals(void)
{
	static struct isal_zstream s, before;
	static uint8_t lb[ISAL_DEF_LVL2_DEFAULT], lbb[ISAL_DEF_LVL2_DEFAULT], out[4096];
	static struct isal_dict pd;
	char key[200];
	uint8_t data[600];
	fill_pattern(data, 600, PAT_TEXT, 9);
	for (int level = 0; level <= 2; level += 2)
		for (int scenario = 0; scenario < 6; scenario++) {
			isal_deflate_init(&s);
			s.level = level; s.level_buf = level ? lb : NULL; s.level_buf_size = level ? sizeof lb : 0;
			memset(&pd, 0, sizeof pd);
			isal_deflate_process_dict(&s, &pd, data, 100);
			const char *what = "";
			switch (scenario) {
			case 0: /* mid-stream: block open */
				s.next_in = data; s.avail_in = 300; s.next_out = out; s.avail_out = 7; s.end_of_stream = 0;
				isal_deflate(&s);
				what = "block open (output pending)";
				break;
			case 1: /* buffered but unprocessed input */
				s.next_in = data; s.avail_in = 20; s.next_out = out; s.avail_out = sizeof out; s.end_of_stream = 0;
				isal_deflate(&s);
				what = "input buffered, not yet compressed";
				break;
			case 2: /* stream finished */
				s.next_in = data; s.avail_in = 50; s.next_out = out; s.avail_out = sizeof out; s.end_of_stream = 1;
				isal_deflate(&s);
				what = "after end of stream";
				break;
			case 3:
				what = "level mismatch (reset_dict only)";
				pd.level = level ? 0 : 1;
				break;
			case 4:
				what = "fresh stream (must be ACCEPTED)";
				break;
			case 5: /* after a completed sync flush: accepted */
				s.next_in = data; s.avail_in = 50; s.next_out = out; s.avail_out = sizeof out; s.flush = SYNC_FLUSH;
				isal_deflate(&s);
				s.flush = NO_FLUSH;
				what = "after a completed SYNC_FLUSH (must be ACCEPTED)";
				break;
			}
			for (int call = 0; call < 2; call++) {
				if (scenario == 3 && call == 0)
					continue;
				memcpy(&before, &s, sizeof s);
				memcpy(lbb, lb, sizeof lb);
				int r = call == 0 ? isal_deflate_set_dict(&s, data + 200, 64) : isal_deflate_reset_dict(&s, &pd);
				int expect_ok = scenario >= 4;
				v_eval();
				snprintf(key, sizeof key, "%s in state: %s level=%d", call ? "isal_deflate_reset_dict" : "isal_deflate_set_dict", what, level);
				if (expect_ok && r != COMP_OK)
					v_violation(key, "refused with %d", r);
				else if (!expect_ok && (r == COMP_OK || r >= 0))
					v_violation(key, "accepted (%d) in a state where a dictionary must be refused", r);
				else if (!expect_ok && (memcmp(&before, &s, sizeof s) || memcmp(lbb, lb, sizeof lb)))
					v_violation(key, "refused (%d) but the context was modified", r);
				else
					v_nontrivial(v_hash(key, strlen(key), 0));
				memcpy(&s, &before, sizeof s);
				memcpy(lb, lbb, sizeof lb);
			}
		}
	/* process_dict with dict_len == 0 is documented as refused */
	isal_deflate_init(&s);
	if (isal_deflate_process_dict(&s, &pd, data, 0) == COMP_OK)
		v_violation("isal_deflate_process_dict dict_len=0", "accepted an empty dictionary");
}

/* length sweep: the vector match finders work through the input in fixed-size pieces and hand the rest to a finishing routine, so
 * which code path meets a given position depends on the input length modulo the piece size. Data: 16-symbol noise with period
 * 2^w + k (every position repeats exactly one period back, i.e. JUST outside the window, and nowhere nearer), compressible enough
 * to be Huffman coded. EVERY length in a range of 4300 consecutive values x levels 1-3 x every kernel set, one-shot and one-call. */
static void length_sweep(uint64_t *unit)
{
	static const int cpus[] = { CPU_BASE, CPU_SSE, CPU_AVX, CPU_AVX2, CPU_AVX512, CPU_AVX512G2 };
	static const int ws_q[] = { 9, 11, 13 }, ws_t[] = { 9, 10, 11, 12, 13, 14 };
	char key[400], why[256];
	for (int wi = 0; wi < (v_thorough ? 6 : 3); wi++)
		for (int k = 1; k <= (v_thorough ? 9 : 1); k += 8)
			for (int n0 = 0; n0 < 4300; n0 += 20) {
				uint64_t id = (*unit)++;
				if (!v_mine(id))
					continue;
				int w = v_thorough ? ws_t[wi] : ws_q[wi];
				size_t P = (1u << w) + k;
				uint64_t x = 0x9e3779b97f4a7c15ull + w * 131 + k;
				for (size_t i = 0; i < P; i++) {
					x ^= x << 13; x ^= x >> 7; x ^= x << 17;
					IN[i] = (uint8_t)('a' + (x >> 33) % 16);
				}
				for (size_t i = P; i < 2 * P + 300 + 4320; i++)
					IN[i] = IN[i - P];
				for (int dn = 0; dn < 20; dn++)
					for (int ci = 0; ci < 6; ci++)
						for (int level = 1; level <= 3; level++) {
							if (nfail > 30 || v_deadline_hit())
								return;
							size_t len = 2 * P + 300 + n0 + dn, ol;
							int api = (n0 / 20 + dn + ci) % 2 ? API_ONECALL : API_STATELESS;
							cpu_set_level(cpus[ci]);
							struct cparams p = { level, NO_FLUSH, IGZIP_DEFLATE, w, 0, LB_MIN, api, 0, 0 };
							struct isal_zstream *s;
							int r = c_deflate(&p, IN, len, OUT, 2 * len + 4096, &ol, &s);
							v_eval();
							snprintf(key, sizeof key, "length-sweep %s cpu=%s input=16-symbol noise of period 2^%d+%d, %zu bytes", cparams_str(&p), cpu_level_name[cpus[ci]], w, k, len);
							if (r != COMP_OK || s->internal_state.state != ZSTATE_END) {
								v_violation(key, "compress: return %d state %d", r, s ? (int)s->internal_state.state : -1);
								nfail++;
								g_reset();
								continue;
							}
							g_reset();
							uint32_t window = 1u << w;
							if (!verify_deflate_output(OUT, ol, p.gzip_flag, IN, len, 0, window, NULL, 0, why, sizeof why)) {
								v_violation(key, "reference decoder with window 2^%d: %s (max distance seen %u)", w, why, vs_res.max_dist);
								nfail++;
								continue;
							}
							if (vs_res.max_dist > window) {
								v_violation(key, "match distance %u exceeds the requested window %u", vs_res.max_dist, window);
								nfail++;
								continue;
							}
							v_count("length_sweep_streams", 1);
						}
				v_nontrivial(v_mix(id, w));
			}
}

int main(int argc, char **argv)
{
	v_init(argc, argv, "C17");
	IN = malloc(140000); OUT = malloc(300000); OUT2 = malloc(300000); BACK = malloc(300000); DICT = malloc(70016);
	uint64_t unit = 0;
	if (!v_part || !strcmp(v_part, "window")) {
		static const int ws[] = { 9, 10, 11, 12, 13, 14, 15, 0 };
		uint8_t B[300];
		fill_xorshift(B, 300, 4711);
		for (int wi = 0; wi < 8; wi++)
			for (int dd = -2; dd <= 2; dd++)
				for (int kind = 0; kind < 3; kind++) {
					uint64_t id = unit++;
					if (!v_mine(id))
						continue;
					int w = ws[wi];
					size_t win = w ? 1u << w : 32768, d = win + dd, len;
					if (kind == 0) { /* B ... unique filler ... B at distance d */
						memcpy(IN, B, 300);
						fill_xorshift(IN + 300, d - 300, 100 + wi * 8 + dd);
						memcpy(IN + d, B, 300);
						len = d + 300;
						snprintf(in_name, sizeof in_name, "window:B+filler+B distance=2^%d%+d", w ? w : 15, dd);
					} else if (kind == 1) { /* periodic with period d: every repeat is exactly d back */
						fill_xorshift(IN, d, 200 + wi);
						memcpy(IN + d, IN, d);
						memcpy(IN + 2 * d, IN, d < 3000 ? d : 3000);
						len = 2 * d + (d < 3000 ? d : 3000);
						snprintf(in_name, sizeof in_name, "window:periodic period=2^%d%+d", w ? w : 15, dd);
					} else { /* far repeat beyond 64 KiB as well */
						memcpy(IN, B, 300);
						fill_xorshift(IN + 300, 65536 + dd - 300, 300 + wi);
						memcpy(IN + 65536 + dd, B, 300);
						len = 65536 + dd + 300;
						snprintf(in_name, sizeof in_name, "window:B+filler+B distance=65536%+d hist_bits=%d", dd, w);
						if (wi % 3)
							continue;
					}
					window_case(id, len, w);
				}
		length_sweep(&unit);
	}
	if (!v_part || !strcmp(v_part, "dict")) {
		dict_cases(&unit);
		dict_midstream(&unit);
		window_edge_hist(&unit);
		if (v_shard == 0)
			dict_refusals();
	}
	if (v_shard == 0) {
		v_sample("window:periodic period=2^12+1 hist_bits=12 level=3 api=deflate-chunked cpu=avx512g2: reference max distance <= 4096; zlib inflateInit2(-12) with 1-byte output accepts");
		v_sample("dict len=70000 data=tail32768 level=2 via process_dict+reset_dict: stream identical to set_dict and to set_dict(last 32 KiB); reference decodes with the last 32 KiB as history; isal_inflate_set_dict round-trips");
		v_sample("isal_deflate_set_dict in state 'block open (output pending)': ISAL_INVALID_STATE, context image unchanged");
		v_note("the isal_dict object handed to isal_deflate_process_dict is pre-filled with 0xFF: it is an output and its prior contents must not influence the result (C15)");
	}
	return v_finish();
}
