/* C06 - decompression of arbitrary bytes is safe, terminates and never falsely succeeds. */
#include "mutants.h"
#include "faultstreams.h"
#define nfail se_nfail
#include "stream_explore.h"
#undef nfail

static uint8_t *wbuf;
static uint64_t seed_ctr, seed_every;
static int seed_allvalues;
static int mine(uint64_t id) { return v_mine(id); }

static size_t seed_maxblen = 64;
static const char *seed_only;
static void seed_cb(const struct gstream *g, void *ctx)
{
	(void)ctx;
	if (g->blen > seed_maxblen || g->xlen > 4096)
		return;
	if (seed_only && !strstr(g->desc, seed_only))
		return;
	if (seed_every && (seed_ctr++ % seed_every))
		return;
	if (nfail > 40 || v_deadline_hit())
		return;
	static const int modes[] = { ISAL_DEFLATE, ISAL_GZIP, ISAL_ZLIB, ISAL_GZIP_NO_HDR_VER, ISAL_ZLIB_NO_HDR_VER, ISAL_DEFLATE };
	struct ri_opts o;
	memset(&o, 0, sizeof o);
	static struct ri_result rr;
	static uint8_t *tmp;
	if (!tmp)
		tmp = malloc(GS_MAXOUT);
	rr.out = tmp;
	rr.out_cap = GS_MAXOUT;
	ref_inflate(g->body, g->blen, &o, &rr);
	if (rr.verdict != RI_VALID)
		v_broken("seed not valid for the reference: %s", g->desc);
	int mode = modes[seed_ctr % 6];
	size_t te;
	size_t wl = wrap_stream(mode, g->body, (rr.end_bit + 7) / 8, rr.end_bit, g->x, g->xlen, NULL, wbuf, &te);
	char d[300];
	snprintf(d, sizeof d, "seed{%s}", g->desc);
	candidate(d, mode, wbuf, wl, 0, seed_ctr, 0); /* the unmutated seed, all drivers incl. every 2-split */
	closure(d, mode, wbuf, wl, seed_allvalues, seed_ctr);
	v_count("seeds", 1);
}

/* ---- grammar-level single faults ---- */
static void fault(const char *name, struct bw *w, int cls)
{
	char d[200];
	snprintf(d, sizeof d, "fault{%s}", name);
	candidate(d, ISAL_DEFLATE, w->buf, bw_bytes(w), cls, 0, 0);
	/* also behind a valid stored block and inside gzip framing (class must survive the wrapper) */
	uint8_t tmp[3000], x[4] = { 'p', 'r', 'e', '!' };
	struct bw w2;
	bw_init(&w2, tmp, sizeof tmp);
	gen_stored(&w2, 0, x, 4, 0);
	for (size_t i = 0; i < w->bit; i++)
		bw_bit(&w2, w->buf[i >> 3] >> (i & 7) & 1);
	snprintf(d, sizeof d, "fault{stored(4)+%s}", name);
	candidate(d, ISAL_DEFLATE, tmp, bw_bytes(&w2), cls, 1, 1);
	v_count("grammar_faults", 1);
}

/* ---- stale decode tables (streams from faultstreams.h), as two-block streams and as the second block alone ---- */
static void stale_table_faults(void)
{
	uint8_t buf[4000];
	char name[260];
	uint64_t id = 7000;
	for (int which = 0; which < 2; which++)
		for (int shape = 0; shape < 2; shape++)
			for (int ni = 0; ni < (which ? 6 : 7); ni++)
				for (int rem = 0; rem < 3; rem++)
					for (int only2 = 0; only2 < 2; only2++) {
						if (!v_mine(id++))
							continue;
						size_t n = fs_build(which, shape, ni, rem, only2, buf, sizeof buf, name, sizeof name);
						if (!n)
							continue;
						candidate(name, ISAL_DEFLATE, buf, n, RC_SYMBOL, id, 0);
						v_count("stale_table_faults", 1);
					}
}
static void grammar_faults(void)
{
	uint8_t buf[400];
	struct bw w;
	uint8_t ll[288], dl[32];
	uint16_t llc[288], dc[32];
	const uint8_t data[5] = "hello";
	/* stored LEN/NLEN mismatch */
	bw_init(&w, buf, sizeof buf); gen_stored(&w, 1, data, 5, 1); fault("stored LEN/NLEN mismatch (low bit)", &w, RC_BLOCK);
	bw_init(&w, buf, sizeof buf); gen_stored(&w, 1, data, 5, 0x8000); fault("stored LEN/NLEN mismatch (high bit)", &w, RC_BLOCK);
	/* reserved block type */
	bw_init(&w, buf, sizeof buf); gen_block_hdr(&w, 1, 3); bw_bits(&w, 0, 13); fault("BTYPE=3", &w, RC_BLOCK);
	bw_init(&w, buf, sizeof buf); gen_block_hdr(&w, 0, 3); bw_bits(&w, 0xffff, 16); fault("BTYPE=3 non-final", &w, RC_BLOCK);
	/* HLIT / HDIST out of range */
	for (int v = 0; v < 4; v++) {
		memset(ll, 0, sizeof ll); memset(dl, 0, sizeof dl);
		ll['a'] = 1; ll[256] = 1; dl[0] = 1;
		bw_init(&w, buf, sizeof buf);
		gen_dyn_header(&w, 1, ll, v == 0 ? 287 : v == 1 ? 288 : 257, dl, v == 2 ? 31 : v == 3 ? 32 : 1, 0, 0);
		bw_code(&w, 0, 1); bw_code(&w, 1, 1);
		fault(v == 0 ? "HLIT=30 (287 codes)" : v == 1 ? "HLIT=31 (288 codes)" : v == 2 ? "HDIST=30 (31 codes)" : "HDIST=31 (32 codes)", &w, RC_BLOCK);
	}
	/* over-subscribed lit/len set: three codes of length 1 */
	memset(ll, 0, sizeof ll); memset(dl, 0, sizeof dl);
	ll['a'] = 1; ll['b'] = 1; ll[256] = 1; dl[0] = 1;
	bw_init(&w, buf, sizeof buf); gen_dyn_header(&w, 1, ll, 257, dl, 1, 0, 0); bw_code(&w, 0, 1); bw_code(&w, 1, 1);
	fault("over-subscribed literal/length set", &w, RC_BLOCK);
	/* over-subscribed distance set */
	memset(ll, 0, sizeof ll); memset(dl, 0, sizeof dl);
	ll['a'] = 1; ll[256] = 2; ll[257] = 2; dl[0] = 1; dl[1] = 1; dl[2] = 1;
	bw_init(&w, buf, sizeof buf); gen_dyn_header(&w, 1, ll, 258, dl, 3, 0, 0); bw_code(&w, 0, 1); bw_code(&w, 2, 2);
	fault("over-subscribed distance set", &w, RC_BLOCK);
	/* over-subscription by the SMALLEST possible excess at every depth D = 2..15: a chain 1, 2, ..., D-1, D, D (complete) plus one more
	 * code of length D - for the distance alphabet and for the literal/length alphabet (the excess is 2^-D of the code space, so a
	 * check that only looks at the shorter codes, or sums with too little precision, lets it through) */
	for (int D = 2; D <= 15; D++)
		for (int alpha = 0; alpha < 2; alpha++) {
			char nm[96];
			memset(ll, 0, sizeof ll); memset(dl, 0, sizeof dl);
			if (alpha == 0) { /* distance alphabet over-subscribed; lit/len {a:1, EOB:2, 257:2} complete */
				ll['a'] = 1; ll[256] = 2; ll[257] = 2;
				for (int i = 0; i < D - 1; i++) dl[i] = (uint8_t)(i + 1);
				dl[D - 1] = dl[D] = dl[D + 1] = (uint8_t)D;
				bw_init(&w, buf, sizeof buf); gen_dyn_header(&w, 1, ll, 258, dl, D + 2, D & 1, 0);
			} else { /* literal/length alphabet over-subscribed (EOB among the chain), one distance code */
				for (int i = 0; i < D - 1; i++) ll[i == 0 ? 256 : 'a' + i] = (uint8_t)(i + 1);
				ll['A'] = ll['B'] = ll['C'] = (uint8_t)D;
				dl[0] = 1;
				bw_init(&w, buf, sizeof buf); gen_dyn_header(&w, 1, ll, 257, dl, 1, D & 1, 0);
			}
			bw_code(&w, 0, 1); /* the 1-bit code (literal a / EOB), then zeros */
			bw_bits(&w, 0, 40);
			snprintf(nm, sizeof nm, "%s set over-subscribed by one extra code of length %d (chain 1..%d,%d,%d)", alpha ? "literal/length" : "distance", D, D - 1, D, D);
			fault(nm, &w, RC_BLOCK);
		}
	/* over-subscribed code-length code: written by hand */
	bw_init(&w, buf, sizeof buf);
	gen_block_hdr(&w, 1, 2); bw_bits(&w, 0, 5); bw_bits(&w, 0, 5); bw_bits(&w, 15, 4);
	for (int i = 0; i < 19; i++) bw_bits(&w, 1, 3); /* nineteen codes of length 1 */
	bw_bits(&w, 0, 32);
	fault("over-subscribed code-length code", &w, RC_BLOCK);
	/* incomplete but unused sets are VALID (RFC): lit/len {a:2, EOB:2} */
	memset(ll, 0, sizeof ll); memset(dl, 0, sizeof dl);
	ll['a'] = 2; ll[256] = 2;
	bw_init(&w, buf, sizeof buf); gen_dyn_header(&w, 1, ll, 257, dl, 1, 0, 0);
	gen_canon(ll, 288, llc); bw_code(&w, llc['a'], 2); bw_code(&w, llc[256], 2);
	fault("incomplete literal/length set, only assigned codes used (valid)", &w, 0);
	/* use of an unassigned code in that set: bit pattern 10 / 11 */
	bw_init(&w, buf, sizeof buf); gen_dyn_header(&w, 1, ll, 257, dl, 1, 0, 0);
	bw_code(&w, llc['a'], 2); bw_code(&w, 3, 2); bw_bits(&w, 0, 24);
	fault("use of an unassigned literal/length code", &w, RC_SYMBOL);
	/* match with zero distance codes defined */
	memset(ll, 0, sizeof ll); memset(dl, 0, sizeof dl);
	ll['a'] = 2; ll[256] = 2; ll[257] = 1;
	gen_canon(ll, 288, llc);
	bw_init(&w, buf, sizeof buf); gen_dyn_header(&w, 1, ll, 258, dl, 1, 0, 0);
	bw_code(&w, llc['a'], 2); bw_code(&w, llc[257], 1); bw_bits(&w, 0, 24);
	fault("length symbol used with no distance code defined", &w, RC_SYMBOL);
	/* fixed block: lit/len symbols 286, 287 and distance symbols 30, 31 */
	gen_fixed_codes(ll, llc, dl, dc);
	for (int s = 286; s <= 287; s++) {
		bw_init(&w, buf, sizeof buf); gen_block_hdr(&w, 1, 1);
		bw_code(&w, llc['a'], ll['a']); bw_code(&w, llc[s], ll[s]); bw_bits(&w, 0, 5); bw_bits(&w, 0, 24);
		fault(s == 286 ? "fixed block literal/length symbol 286" : "fixed block literal/length symbol 287", &w, RC_SYMBOL);
	}
	for (int s = 30; s <= 31; s++) {
		bw_init(&w, buf, sizeof buf); gen_block_hdr(&w, 1, 1);
		bw_code(&w, llc['a'], ll['a']); bw_code(&w, llc['a'], ll['a']); bw_code(&w, llc['a'], ll['a']);
		bw_code(&w, llc[257], ll[257]); bw_code(&w, dc[s], 5); bw_bits(&w, 0, 24);
		fault(s == 30 ? "fixed block distance symbol 30" : "fixed block distance symbol 31", &w, RC_SYMBOL);
	}
	/* distance = bytes produced + 1 */
	for (int have = 0; have < 4; have++) {
		bw_init(&w, buf, sizeof buf); gen_block_hdr(&w, 1, 1);
		for (int i = 0; i < have; i++) bw_code(&w, llc['a'], ll['a']);
		int ds = gen_dist_sym(have + 1);
		bw_code(&w, llc[257], ll[257]); bw_code(&w, dc[ds], 5); bw_bits(&w, have + 1 - g_dist_base[ds], g_dist_extra[ds]);
		bw_code(&w, llc[256], ll[256]);
		char nm[80];
		snprintf(nm, sizeof nm, "distance %d with %d bytes produced", have + 1, have);
		fault(nm, &w, RC_LOOKBACK);
	}
	/* ---- the same token-level faults where the decoders' FAST paths see them: enough input behind the fault (the assembly
	 * main loop only runs while > 8 input bytes and >= 274 output bytes remain) and enough output produced before it.
	 * pre literals before, post literals after the faulty token; fixed and dynamic blocks ---- */
	{
		static const int pres[] = { 0, 1, 3, 40, 300 }, posts[] = { 0, 40 }, mlens[] = { 3, 10, 258 };
		uint8_t big[2400];
		for (int dyn = 0; dyn < 2; dyn++)
			for (unsigned pi = 0; pi < 5; pi++)
				for (unsigned qi = 0; qi < 2; qi++) {
					int pre = pres[pi], post = posts[qi];
					uint8_t l2[288], d2[32];
					uint16_t lc2[288], dc2[32];
					if (dyn) {
						memset(l2, 0, sizeof l2); memset(d2, 0, sizeof d2);
						/* complete codes: literals 'a','b' (2 bits), EOB (3), lengths 257 (3), 264 (4), 285 (4); distances 0..7 (3 bits) */
						l2['a'] = 2; l2['b'] = 2; l2[256] = 3; l2[257] = 3; l2[264] = 3; l2[285] = 3;
						for (int i = 0; i < 8; i++) d2[i] = 3;
						gen_canon(l2, 288, lc2); gen_canon(d2, 32, dc2);
					} else
						gen_fixed_codes(l2, lc2, d2, dc2);
					/* look-back sweep: distance exceeds the bytes produced by e = 1 .. len+1 */
					for (unsigned mi = 0; mi < 3; mi++)
						for (int e = 1; e <= mlens[mi] + 1; e += (e < 4 || e >= mlens[mi] - 1) ? 1 : (mlens[mi] / 4 + 1)) {
							int len = mlens[mi], dist = pre + e;
							int ls = gen_len_sym(len), ds = gen_dist_sym(dist);
							if (dist > 32768 || (dyn && (ds > 7 || !l2[257 + ls])))
								continue;
							bw_init(&w, big, sizeof big);
							if (dyn) gen_dyn_header(&w, 1, l2, 286, d2, 8, 0, 0); else gen_block_hdr(&w, 1, 1);
							for (int i = 0; i < pre; i++) bw_code(&w, lc2['a'], l2['a']);
							bw_code(&w, lc2[257 + ls], l2[257 + ls]); bw_bits(&w, len - g_len_base[ls], g_len_extra[ls]);
							bw_code(&w, dc2[ds], d2[ds]); bw_bits(&w, dist - g_dist_base[ds], g_dist_extra[ds]);
							for (int i = 0; i < post; i++) bw_code(&w, lc2['b'], l2['b']);
							bw_code(&w, lc2[256], l2[256]);
							bw_bits(&w, 0x5555, 16);
							for (int i = 0; i < (post ? 12 : 0); i++) bw_byte(&w, 0x55); /* trailing bytes keep the fast loop active */
							char nm[120];
							snprintf(nm, sizeof nm, "%s block: match len %d at distance %d with %d bytes produced, %d literals after", dyn ? "dynamic" : "fixed", len, dist, pre, post);
							fault(nm, &w, RC_LOOKBACK);
						}
					/* undefined symbols after a long prefix */
					if (!dyn) {
						for (int sym = 286; sym <= 287; sym++) {
							bw_init(&w, big, sizeof big); gen_block_hdr(&w, 1, 1);
							for (int i = 0; i < pre; i++) bw_code(&w, lc2['a'], l2['a']);
							bw_code(&w, lc2[sym], l2[sym]); bw_bits(&w, 0, 5);
							for (int i = 0; i < post; i++) bw_code(&w, lc2['b'], l2['b']);
							bw_code(&w, lc2[256], l2[256]);
							for (int i = 0; i < 12; i++) bw_byte(&w, 0x55);
							char nm[120];
							snprintf(nm, sizeof nm, "fixed block: symbol %d after %d literals, %d literals after", sym, pre, post);
							fault(nm, &w, RC_SYMBOL);
						}
						if (pre >= 3)
							for (int dsym = 30; dsym <= 31; dsym++) {
								bw_init(&w, big, sizeof big); gen_block_hdr(&w, 1, 1);
								for (int i = 0; i < pre; i++) bw_code(&w, lc2['a'], l2['a']);
								bw_code(&w, lc2[257], l2[257]); bw_code(&w, dc2[dsym], 5);
								for (int i = 0; i < post; i++) bw_code(&w, lc2['b'], l2['b']);
								bw_code(&w, lc2[256], l2[256]);
								for (int i = 0; i < 12; i++) bw_byte(&w, 0x55);
								char nm[120];
								snprintf(nm, sizeof nm, "fixed block: distance symbol %d after %d literals, %d literals after", dsym, pre, post);
								fault(nm, &w, RC_SYMBOL);
							}
					}
				}
	}
	/* repeat code 16 with no previous length; repeats past HLIT+HDIST; missing end-of-block code: any error satisfies the property */
	bw_init(&w, buf, sizeof buf);
	gen_block_hdr(&w, 1, 2); bw_bits(&w, 0, 5); bw_bits(&w, 0, 5); bw_bits(&w, 15, 4);
	{
		static const uint8_t order[19] = { 16, 17, 18, 0, 8, 7, 9, 6, 10, 5, 11, 4, 12, 3, 13, 2, 14, 1, 15 };
		uint8_t cl[19] = { 0 }; uint16_t clc[19];
		cl[16] = 1; cl[1] = 1;
		gen_canon(cl, 19, clc);
		for (int i = 0; i < 19; i++) bw_bits(&w, cl[order[i]], 3);
		bw_code(&w, clc[16], 1); bw_bits(&w, 0, 2); bw_bits(&w, 0, 32);
	}
	fault("repeat code 16 with no previous length", &w, -1);
	memset(ll, 0, sizeof ll); memset(dl, 0, sizeof dl);
	ll['a'] = 1; dl[0] = 1;
	bw_init(&w, buf, sizeof buf); gen_dyn_header(&w, 1, ll, 257, dl, 1, 0, 0); bw_code(&w, 0, 1); bw_bits(&w, 0, 32);
	fault("no end-of-block code (len[256]==0)", &w, -1);
	bw_init(&w, buf, sizeof buf);
	gen_block_hdr(&w, 1, 2); bw_bits(&w, 0, 5); bw_bits(&w, 0, 5); bw_bits(&w, 15, 4);
	{
		static const uint8_t order[19] = { 16, 17, 18, 0, 8, 7, 9, 6, 10, 5, 11, 4, 12, 3, 13, 2, 14, 1, 15 };
		uint8_t cl[19] = { 0 }; uint16_t clc[19];
		cl[18] = 1; cl[1] = 1;
		gen_canon(cl, 19, clc);
		for (int i = 0; i < 19; i++) bw_bits(&w, cl[order[i]], 3);
		bw_code(&w, clc[18], 1); bw_bits(&w, 127, 7); /* 138 zeros */
		bw_code(&w, clc[18], 1); bw_bits(&w, 127, 7); /* 276: past 258 */
		bw_bits(&w, 0, 32);
	}
	fault("code length repeat runs past HLIT+HDIST", &w, -1);
	/* wrapper faults */
	{
		uint8_t body[16], x[1] = { 'a' }, s[64];
		struct bw bw2;
		bw_init(&bw2, body, sizeof body);
		struct tok t = { 0, 'a', 0 };
		gen_fixed(&bw2, 1, &t, 1);
		size_t te, wl;
		struct { const char *n; int mode; int off; uint8_t xr; int cls; } wf[] = {
			{ "gzip magic byte 0", ISAL_GZIP, 0, 0x01, RC_WRAPPER }, { "gzip magic byte 1", ISAL_GZIP, 1, 0x80, RC_WRAPPER }, { "gzip CM != 8", ISAL_GZIP, 2, 0x01, RC_METHOD },
			{ "gzip CRC-32 mismatch", ISAL_GZIP, -8, 0x01, RC_CHECKSUM }, { "gzip ISIZE mismatch", ISAL_GZIP, -4, 0x01, RC_CHECKSUM },
			{ "zlib CM != 8", ISAL_ZLIB, 0, 0x01, RC_METHOD }, { "zlib FCHECK mismatch", ISAL_ZLIB, 1, 0x01, RC_CHECKSUM }, { "zlib Adler-32 mismatch", ISAL_ZLIB, -1, 0x01, RC_CHECKSUM },
			{ "gzip(no hdr, verify) CRC-32 mismatch", ISAL_GZIP_NO_HDR_VER, -5, 0x10, RC_CHECKSUM }, { "zlib(no hdr, verify) Adler-32 mismatch", ISAL_ZLIB_NO_HDR_VER, -2, 0x10, RC_CHECKSUM } };
		for (unsigned i = 0; i < sizeof wf / sizeof wf[0]; i++) {
			wl = wrap_stream(wf[i].mode, body, bw_bytes(&bw2), bw2.bit, x, 1, NULL, s, &te);
			size_t off = wf[i].off < 0 ? wl + wf[i].off : (size_t)wf[i].off;
			s[off] ^= wf[i].xr;
			char d[120];
			snprintf(d, sizeof d, "fault{%s}", wf[i].n);
			candidate(d, wf[i].mode, s, wl, wf[i].cls, i, 0);
			v_count("grammar_faults", 1);
		}
		/* header CRC16 mismatch */
		static const struct rh_gzip h = { 0, 0, 0, 3, NULL, -1, "n", NULL, 1 };
		wl = wrap_stream(ISAL_GZIP, body, bw_bytes(&bw2), bw2.bit, x, 1, &h, s, &te);
		s[12] ^= 1; /* inside the name -> header crc no longer matches */
		candidate("fault{gzip header CRC16 mismatch}", ISAL_GZIP, s, wl, RC_CHECKSUM, 0, 0);
		v_count("grammar_faults", 1);
	}
}

int main(int argc, char **argv)
{
	v_init(argc, argv, "C06");
	gs_init();
	wbuf = malloc(GS_MAXBODY + 4096);
	uint64_t idx = 0;
	if (!v_part || !strcmp(v_part, "faults")) {
		if (v_shard == 0)
			grammar_faults();
		stale_table_faults();
	}
	if (!v_part || !strcmp(v_part, "short")) {
		/* ALL byte strings of length <= 2 (thorough: 3) in every mode */
		static const int modes[] = { ISAL_DEFLATE, ISAL_GZIP, ISAL_ZLIB, ISAL_GZIP_NO_HDR, ISAL_ZLIB_NO_HDR, ISAL_GZIP_NO_HDR_VER, ISAL_ZLIB_NO_HDR_VER };
		uint8_t s[4];
		char d[64];
		for (int len = 0; len <= (v_thorough ? 3 : 2); len++) {
			uint32_t n = len == 0 ? 1 : len == 1 ? 256 : len == 2 ? 65536 : 1u << 24;
			for (uint32_t v = 0; v < n; v++) {
				if (!v_mine(v))
					continue;
				if ((v & 0xfff) == 0 && (v_deadline_hit() || nfail > 40))
					break;
				s[0] = (uint8_t)v; s[1] = (uint8_t)(v >> 8); s[2] = (uint8_t)(v >> 16);
				for (int mi = 0; mi < (len == 3 ? 3 : 7); mi++) {
					snprintf(d, sizeof d, "bytes{%s}", v_hex(s, len));
					candidate(d, modes[mi], s, len, 0, v, 1);
				}
			}
		}
	}
	if (!v_part || !strcmp(v_part, "explore")) {
		/* EXPLORE on invalid candidates: ALL call histories over the chunk alphabets for a set of rejected byte strings (first-order
		 * mutants of short seeds): never a completion, always termination, no fault, from every reachable state */
		static struct { uint8_t b[80]; size_t n; int mode; char d[160]; } cand[64];
		int nc = 0;
		{
			/* seeds: fixed block with a match, stored block, dynamic block; each in raw / gzip / zlib; mutants: bit flips at a stride + truncations */
			uint8_t body[64], x[64];
			struct bw w;
			struct tok t[4] = { { 0, 'a', 0 }, { 0, 'b', 0 }, { 6, 0, 2 }, { 0, 'c', 0 } };
			static const int modes[3] = { ISAL_DEFLATE, ISAL_GZIP, ISAL_ZLIB };
			for (int sd = 0; sd < 3; sd++) {
				bw_init(&w, body, sizeof body);
				size_t xl = 0;
				if (sd == 0) { gen_fixed(&w, 1, t, 4); memcpy(x, "abababababc", 11); x[8] = 'c'; xl = 9; memcpy(x, "ab", 2); for (int i = 0; i < 6; i++) x[2 + i] = x[i]; x[8] = 'c'; }
				else if (sd == 1) { gen_stored(&w, 1, (const uint8_t *)"stored!", 7, 0); memcpy(x, "stored!", 7); xl = 7; }
				else {
					uint8_t ll[288] = { 0 }, dl[32] = { 0 };
					ll['a'] = 2; ll['b'] = 2; ll[256] = 2; ll[260] = 2; dl[1] = 1; dl[2] = 1;
					struct tok t2[3] = { { 0, 'a', 0 }, { 0, 'b', 0 }, { 6, 0, 2 } };
					gen_dynamic(&w, 1, ll, 261, dl, 3, 1, t2, 3);
					memcpy(x, "ab", 2); for (int i = 0; i < 6; i++) x[2 + i] = x[i]; xl = 8;
				}
				for (int mi = 0; mi < 3; mi++) {
					uint8_t s[96];
					size_t te, wl = wrap_stream(modes[mi], body, bw_bytes(&w), w.bit, x, xl, NULL, s, &te);
					for (size_t p = (sd + mi) % 3; p < wl && nc < 60; p += 5) {
						memcpy(cand[nc].b, s, wl);
						cand[nc].b[p] ^= (uint8_t)(1 << ((p + sd) % 8));
						cand[nc].n = wl; cand[nc].mode = modes[mi];
						snprintf(cand[nc].d, sizeof cand[nc].d, "seed%d mode=%s bitflip@%zu", sd, cf_name[modes[mi]], p);
						nc++;
					}
					if (nc < 62) {
						memcpy(cand[nc].b, s, wl);
						cand[nc].n = wl - 3; cand[nc].mode = modes[mi];
						snprintf(cand[nc].d, sizeof cand[nc].d, "seed%d mode=%s truncated-by-3", sd, cf_name[modes[mi]]);
						nc++;
					}
				}
			}
		}
		IST = g_persist(sizeof *IST, G_END);
		g_canary_span = 256;
		static uint8_t refout[4096];
		uint64_t unit = 0;
		for (int ci = 0; ci < nc; ci++)
			for (int cpu = 0; cpu < 3; cpu++) {
				if (!v_mine(unit++))
					continue;
				if (v_deadline_hit())
					break;
				struct ri_opts o;
				crc_flag_to_ref(cand[ci].mode, &o);
				MR.out = refout; MR.out_cap = sizeof refout;
				ref_inflate(cand[ci].b, cand[ci].n, &o, &MR);
				if (MR.verdict == RI_VALID)
					continue; /* benign mutation: covered as a valid stream elsewhere */
				IS = cand[ci].b; ISLEN = cand[ci].n; ITRUE_END = 0; IX = refout; IXLEN = MR.out_len; ICRC = cand[ci].mode; IHDRLEN = 0;
				I_INVALID = 1;
				cpu_set_level(m_cpus[cpu]);
				snprintf(ctxdesc, sizeof ctxdesc, "invalid-candidate{%s} reference=%s cpu=%s", cand[ci].d, MR.verdict == RI_NEED_INPUT ? "truncated" : ri_class_name(MR.cls), cpu_level_name[m_cpus[cpu]]);
				g_strict_free = 1;
				inf_reset();
				struct ex_stats st = { 0 };
				ex_run(&inf_model, &st, v_thorough ? 2000000 : 300000);
				g_strict_free = 0;
				I_INVALID = 0;
				v_count("explored_invalid_graphs", 1);
				v_count("explored_states", st.states);
				v_count("explored_transitions", st.transitions);
				v_eval_n(st.transitions);
				if (st.capped)
					v_not_exhaustive("an invalid-candidate graph was capped");
				v_nontrivial(v_hash(ctxdesc, strlen(ctxdesc), 3));
			}
		nfail += se_nfail;
	}
	if (!v_part || !strcmp(v_part, "closure")) {
		/* seeds made by ISA-L's own level-0 encoder: they carry its default dynamic header (110 bytes + 6 bits), which the decoder
		 * recognises through a byte-comparison shortcut; closure = every truncation / flip / substitution inside that header too */
		seed_maxblen = 135;
		seed_every = 0;
		seed_allvalues = 0;
		seed_only = "level=0 default";
		gs_family_isal(0, mine, &idx, seed_cb, NULL);
		/* the longest dynamic headers a valid stream can carry (about 286 bytes, see streams.h): every 2-split and the byte-wise drivers stage them across calls */
		seed_only = "long-header";
		seed_maxblen = 400;
		gs_family_shapes(mine, &idx, seed_cb, NULL);
		seed_only = NULL;
		seed_maxblen = 64;
		seed_every = v_thorough ? 1 : 2;
		seed_allvalues = 0;
		gs_family_shapes(mine, &idx, seed_cb, NULL);
		seed_every = v_thorough ? 1 : 6;
		gs_family_tokens(2, 1, mine, &idx, seed_cb, NULL);
	}
	if (v_shard == 0) {
		v_sample("seed{F3 dyn tokens=T2 ...} mode=GZIP bitflip@17.3 driver=byte-at-a-time-input cap=n+300 cpu=sse: reference verdict on the mutated bytes decides; completion only if reference VALID and outputs equal");
		v_sample("fault{fixed block distance symbol 30} -> ISAL_INVALID_SYMBOL in every driver and kernel");
		v_sample("bytes{0300} mode=DEFLATE: valid empty final fixed block -> completes with 0 bytes in all drivers");
		v_note("oracle = ref_inflate on the MUTATED bytes: completion (FINISH and return >= 0) only if VALID with equal output; valid mutants with complete code sets must also be decoded; error CLASS is asserted only for the single injected grammar/wrapper faults where igzip_lib.h leaves no room (repeat-16-first, repeat overflow, missing EOB: any error)");
		v_note("drivers: one-shot with output capacities {0,1,n-1,n,n+1,n+300}; isal_inflate; byte-at-a-time input; 1-byte output chunks; every 2-split (for seeds and injected faults); kernels base/_01/_04");
	}
	return v_finish();
}
