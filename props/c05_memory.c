/* C05 - every entry point touches only the memory the caller declared.
 * Dedicated codec part (exact-fit buffers flush against inaccessible pages, read-only inputs, per-chunk
 * mappings revoked as soon as they are recycled). Uses the public API only so that it also runs on the
 * portable-C + AddressSanitizer flavour (intra-object overflows) and the NDEBUG flavour. The kernel
 * sweeps of C03/C04/C08/C13/C20 (every length x both placements) are re-run under this property by the driver. */
#include "codec_common.h"

static long nfail;
static uint8_t *IN, *TMP, *TMP2;
static char in_name[64];

static int part_is(const char *n)
{
	if (!v_part)
		return 1;
	size_t l = strlen(n);
	for (const char *q = v_part; q; q = strchr(q, ',') ? strchr(q, ',') + 1 : NULL)
		if (!strncmp(q, n, l) && (q[l] == 0 || q[l] == ','))
			return 1;
	return 0;
}
static void fault_violation(const char *key)
{
	v_violation(key, "%s", v_fault_desc());
	nfail++;
}

/* (i) one-shot and single-call codecs with every buffer exact-size and end-flush */
static void exact_fit(int len, int cpu)
{
	char key[300];
	for (int level = 0; level <= 3; level++)
		for (int gz = 0; gz < 5; gz += 2)
			for (int api = 0; api < 2; api++)
				for (int huff = 0; huff < (level ? 1 : 3); huff++) {
					if (nfail > 20)
						return;
					size_t bound = stateless_bound(len, gz) + (api ? 2 * len + 1024 : 0);
					struct isal_zstream *s = g_alloc(sizeof *s, G_END);
					uint8_t *lb = level ? g_alloc(lvl_min[level], G_END) : NULL;
					uint8_t *in = g_alloc(len, G_END), *out = g_alloc(bound, G_END);
					struct isal_hufftables *ht = NULL;
					memcpy(in, IN, len);
					g_readonly(in, 1);
					if (huff == 2) {
						ht = g_alloc(sizeof *ht, G_END);
						memcpy(ht, &c_custom_ht, sizeof *ht);
						g_readonly(ht, 1);
					}
					int r = -1000;
					snprintf(key, sizeof key, "exact-fit %s level=%d wrapper=%s huff=%d cpu=%s input=%s", api ? "isal_deflate" : "isal_deflate_stateless", level, gz_name[gz], huff, cpu_level_name[cpu], in_name);
					if (V_TRY()) {
						if (api == 0) isal_deflate_stateless_init(s); else isal_deflate_init(s);
						s->level = level; s->level_buf = lb; s->level_buf_size = level ? lvl_min[level] : 0; s->gzip_flag = gz;
						if (huff == 1) isal_deflate_set_hufftables(s, NULL, IGZIP_HUFFTABLE_STATIC);
						if (huff == 2) isal_deflate_set_hufftables(s, ht, IGZIP_HUFFTABLE_CUSTOM);
						s->next_in = in; s->avail_in = len; s->end_of_stream = 1; s->next_out = out; s->avail_out = bound;
						r = api == 0 ? isal_deflate_stateless(s) : isal_deflate(s);
						V_END();
					} else {
						fault_violation(key);
						g_reset();
						continue;
					}
					v_eval();
					size_t ol = s->total_out;
					if (r != COMP_OK || g_check()) {
						v_violation(key, "return %d; %s", r, g_last_damage());
						nfail++;
						g_reset();
						continue;
					}
					memcpy(TMP, out, ol);
					g_reset();
					v_nontrivial(v_hash(TMP, ol, gz));
					/* decode: input is exactly the stream (no slop bytes behind it), output exactly the data length */
					for (int dapi = 0; dapi < 2; dapi++) {
						struct inflate_state *st = g_alloc(sizeof *st, G_END);
						uint8_t *zin = g_alloc(ol, G_END), *zout = g_alloc(len, G_END);
						memcpy(zin, TMP, ol);
						g_readonly(zin, 1);
						int ir = -1000;
						snprintf(key, sizeof key, "exact-fit %s wrapper=%s cpu=%s stream-of=%s level=%d", dapi ? "isal_inflate" : "isal_inflate_stateless", gz_name[gz], cpu_level_name[cpu], in_name, level);
						if (V_TRY()) {
							isal_inflate_init(st);
							st->crc_flag = gz == 0 ? ISAL_DEFLATE : gz == 2 ? ISAL_GZIP_NO_HDR_VER : ISAL_ZLIB_NO_HDR_VER;
							st->next_in = zin; st->avail_in = ol; st->next_out = zout; st->avail_out = len;
							ir = dapi ? isal_inflate(st) : isal_inflate_stateless(st);
							V_END();
						} else {
							fault_violation(key);
							g_reset();
							continue;
						}
						v_eval();
						if (ir != ISAL_DECOMP_OK || st->total_out != (uint32_t)len || memcmp(zout, IN, len) || g_check()) {
							v_violation(key, "return %d total_out %u (expected %d); %s", ir, st->total_out, len, g_last_damage());
							nfail++;
						}
						g_reset();
					}
				}
	/* dictionary objects and data exact-size */
	if (len >= 4) {
		char key2[200];
		snprintf(key2, sizeof key2, "exact-fit dictionary cpu=%s input=%s", cpu_level_name[cpu], in_name);
		struct isal_zstream *s = g_alloc(sizeof *s, G_END);
		struct isal_dict *d = g_alloc(sizeof *d, G_END);
		uint8_t *lb = g_alloc(lvl_min[2], G_END), *dd = g_alloc(len, G_END), *out = g_alloc(2 * len + 1024, G_END), *in = g_alloc(len, G_END);
		memcpy(dd, IN, len); g_readonly(dd, 1);
		memcpy(in, IN, len); g_readonly(in, 1);
		if (V_TRY()) {
			isal_deflate_init(s);
			s->level = 2; s->level_buf = lb; s->level_buf_size = lvl_min[2];
			isal_deflate_process_dict(s, d, dd, len);
			isal_deflate_reset_dict(s, d);
			s->next_in = in; s->avail_in = len; s->end_of_stream = 1; s->next_out = out; s->avail_out = 2 * len + 1024;
			isal_deflate(s);
			isal_deflate_reset(s);
			isal_deflate_set_dict(s, dd, len);
			s->next_in = in; s->avail_in = len; s->end_of_stream = 1; s->next_out = out; s->avail_out = 2 * len + 1024;
			isal_deflate(s);
			V_END();
			v_eval();
			if (g_check()) { v_violation(key2, "%s", g_last_damage()); nfail++; }
		} else
			fault_violation(key2);
		g_reset();
	}
}

/* (ii) streaming: every chunk in its own exact-size mapping; recycled mappings are inaccessible (a retained pointer faults) */
static void revoked_chunks(int len, int cpu)
{
	static const int cins[] = { 1, 7, 8, 9, 64, 97, 300, 4096 }, couts[] = { 1, 8, 16, 17, 61, 274, 4096 };
	char key[300];
	g_strict_free = 1;
	for (int level = 0; level <= 3; level++)
		for (int ci = 0; ci < 8; ci++)
			for (int co = 0; co < 7; co++)
			for (int fpps = 0; fpps < 6; fpps++) {
				/* fp: flush kind per input chunk: 0 the same on every chunk, 1 alternating NO_FLUSH / FULL_FLUSH, 2 NO, SYNC, FULL cycle.
				 * ps: 0 every chunk ENDS at an inaccessible page, 1 odd chunks START right behind one (a read in front of the chunk faults) */
				int fp = fpps % 3, ps = fpps / 3;
				if (fpps && !((ci == 1 || ci == 5 || ci == 6 || ci == 7) && (co == 1 || co == 5 || co == 6)))
					continue;
				if (len > 1000 && (cins[ci] < 8 || couts[co] < 8) && cins[ci] * couts[co] < 600)
					continue;
				if (nfail > 20 || v_deadline_hit())
					goto out;
				static struct isal_zstream *s;
				static uint8_t *lb;
				if (!s) { s = g_persist(sizeof *s, G_END); lb = g_persist(ISAL_DEF_LVL3_MIN, G_END); }
				snprintf(key, sizeof key, "revoked-chunks isal_deflate level=%d cin=%d cout=%d flush=%s%s cpu=%s input=%s", level, cins[ci], couts[co], fp == 0 ? flush_name[(ci + co) % 3] : fp == 1 ? "NO/FULL alternating" : "NO,SYNC,FULL cycle",
					 ps ? " odd-chunks-start-flush" : "", cpu_level_name[cpu], in_name);
				size_t ip = 0, ol = 0;
				int r = 0, calls = 0;
				if (!V_TRY()) {
					fault_violation(key);
					g_reset();
					continue;
				}
				isal_deflate_init(s);
				s->level = level; s->level_buf = level ? lb : NULL; s->level_buf_size = level ? lvl_min[level] : 0;
				s->gzip_flag = IGZIP_GZIP; s->flush = (ci + co) % 3;
				s->avail_in = 0;
				uint8_t *in = NULL;
				size_t k = 0;
				int chunk_no = 0;
				while (s->internal_state.state != ZSTATE_END && calls++ < 400000) {
					if (s->avail_in == 0) {
						/* the previous chunk was consumed: its mapping is recycled (= made inaccessible) before the next call */
						k = len - ip < (size_t)cins[ci] ? len - ip : (size_t)cins[ci];
						g_reset();
						in = g_alloc(k, ps && (chunk_no & 1) ? G_START : G_END);
						if (fp == 1)
							s->flush = chunk_no & 1 ? FULL_FLUSH : NO_FLUSH;
						else if (fp == 2)
							s->flush = chunk_no % 3;
						chunk_no++;
						memcpy(in, IN + ip, k);
						s->next_in = in; s->avail_in = k;
						ip += k;
					} else {
						/* unconsumed tail: legal to move it to a fresh mapping as well */
						uint32_t left = s->avail_in;
						memcpy(TMP2, s->next_in, left);
						g_reset();
						in = g_alloc(left, G_END);
						memcpy(in, TMP2, left);
						s->next_in = in;
					}
					s->end_of_stream = ip >= (size_t)len;
					uint8_t *out = g_alloc(couts[co], G_END);
					s->next_out = out; s->avail_out = couts[co];
					r = isal_deflate(s);
					size_t p = couts[co] - s->avail_out;
					if (r || g_check() || ol + p > 700000 - 8)
						break;
					memcpy(TMP + ol, out, p);
					ol += p;
				}
				V_END();
				v_eval();
				if (r != COMP_OK || s->internal_state.state != ZSTATE_END) {
					v_violation(key, "return %d state %d after %d calls; %s", r, s->internal_state.state, calls, g_last_damage());
					nfail++;
					g_reset();
					continue;
				}
				g_reset();
				/* decode with the same discipline */
				static struct inflate_state *st;
				if (!st) st = g_persist(sizeof *st, G_END);
				snprintf(key, sizeof key, "revoked-chunks isal_inflate cin=%d cout=%d cpu=%s stream-of=%s level=%d", cins[ci], couts[co], cpu_level_name[cpu], in_name, level);
				if (!V_TRY()) {
					fault_violation(key);
					g_reset();
					continue;
				}
				isal_inflate_init(st);
				st->crc_flag = ISAL_GZIP;
				st->avail_in = 0;
				size_t zp = 0, xo = 0;
				int ir = 0;
				calls = 0;
				int bad = 0;
				while (st->block_state != ISAL_BLOCK_FINISH && calls++ < 400000) {
					uint32_t left = st->avail_in;
					if (left)
						memcpy(TMP2, st->next_in, left);
					size_t add = left ? 0 : (ol - zp < (size_t)cins[ci] ? ol - zp : (size_t)cins[ci]);
					g_reset();
					uint8_t *zin = g_alloc(left + add, G_END);
					memcpy(zin, TMP2, left);
					memcpy(zin + left, TMP + zp, add);
					zp += add;
					st->next_in = zin; st->avail_in = left + add;
					uint8_t *zo = g_alloc(couts[co], G_END);
					st->next_out = zo; st->avail_out = couts[co];
					ir = isal_inflate(st);
					size_t p = couts[co] - st->avail_out;
					if (ir < 0 || xo + p > (size_t)len || memcmp(zo, IN + xo, p) || g_check()) {
						bad = 1;
						break;
					}
					xo += p;
					if (left + add == 0 && p == 0 && zp >= ol)
						break;
				}
				V_END();
				v_eval();
				if (bad || ir != ISAL_DECOMP_OK || st->block_state != ISAL_BLOCK_FINISH || xo != (size_t)len) {
					v_violation(key, "return %d state %d output %zu of %d; %s", ir, st->block_state, xo, len, g_last_damage());
					nfail++;
				}
				g_reset();
				v_nontrivial(v_hash(key, strlen(key), 0));
			}
out:
	g_strict_free = 0;
}

/* (iii) streaming with LARGE chunks (the codec compresses straight from the caller's buffer once enough of it has been consumed,
 * and a block opened in one call may be closed - possibly as a stored block copied from the input - in the next). The chunk
 * boundary is swept byte by byte across the block boundaries that the codec itself chose for this input (found by decoding a
 * one-call compression with the reference), each chunk lives in its own exact-size mapping, and a consumed chunk is revoked. */
#define BIGN 480000
static uint64_t big_unit;
static void revoked_big(int level, int lbc, int cpu, int kind, int flushA, int three, int placement_end)
{
	char key[300], why[256];
	int N = BIGN;
	if (kind == 0)
		fill_xorshift(IN, N, 77 + level);
	else
		fill_mixed(IN, N, 5 + level);
	cpu_set_level(cpu);
	/* calibration: where does the codec put its block boundaries for this input and level buffer? */
	struct cparams p = { level, NO_FLUSH, IGZIP_GZIP, 0, 0, lbc, API_ONECALL, 0, 0 };
	size_t ol;
	struct isal_zstream *cs;
	int r = c_deflate(&p, IN, N, TMP, 1100000, &ol, &cs);
	if (r != COMP_OK || !verify_deflate_output(TMP, ol, IGZIP_GZIP, IN, N, 0, 0, NULL, 0, why, sizeof why)) {
		snprintf(key, sizeof key, "revoked-big calibration level=%d lbuf=%s cpu=%s", level, lb_name[lbc], cpu_level_name[cpu]);
		v_violation(key, "one-call compression failed or rejected: %d %s", r, why);
		nfail++;
		g_reset();
		return;
	}
	g_reset();
	size_t bnd[4];
	int nb = 0;
	for (int i = 1; i < vs_res.nblocks && i < RI_MAXBLK && nb < (v_thorough ? 3 : 1); i++)
		if (vs_res.blk[i].out_start > 2000 && vs_res.blk[i].out_start + 300000 < (size_t)N && (!nb || vs_res.blk[i].out_start > bnd[nb - 1] + 6000))
			bnd[nb++] = vs_res.blk[i].out_start;
	v_max("big_chunk_block_boundaries_found", nb);
	if (v_shard == 0)
		v_count("big_chunk_configurations", 1);
	/* candidate first-chunk lengths: a window around each boundary byte by byte + a coarse sweep of everything */
	static int *as;
	static uint8_t *mark;
	if (!as) { as = malloc(sizeof(int) * 60000); mark = malloc(BIGN); }
	memset(mark, 0, BIGN);
	int na = 0;
	for (int b = 0; b < nb; b++) {
		long lo = (long)bnd[b] - (v_thorough ? 64 : 16), hi = (long)bnd[b] + (v_thorough ? 4700 : 900);
		for (long a = lo; a <= hi; a++)
			if (a > 0 && a + 300000 < N && !mark[a]) { mark[a] = 1; as[na++] = (int)a; }
	}
	for (long a = 1; a + 300000 < N; a += (v_thorough ? 1021 : 8191))
		if (!mark[a]) { mark[a] = 1; as[na++] = (int)a; }
	static struct isal_zstream *s;
	static uint8_t *lb;
	if (!s) { s = g_persist(sizeof *s, G_END); lb = g_persist(ISAL_DEF_LVL3_EXTRA_LARGE, G_END); }
	uint32_t lbs = level ? lb_size(level, lbc) : 0;
	g_strict_free = 1;
	for (int ai = 0; ai < na; ai++) {
		if (!v_mine(big_unit++))
			continue;
		if (nfail > 20 || v_deadline_hit())
			break;
		size_t pieces[3] = { (size_t)as[ai], three ? 70001 : (size_t)N - as[ai], 0 };
		if (three)
			pieces[2] = N - pieces[0] - pieces[1];
		snprintf(key, sizeof key, "revoked-big isal_deflate level=%d lbuf=%s first-flush=%s cpu=%s input=%s:%d later-pieces=%s-flush pieces=%zu,%zu,%zu (first boundary chosen by the codec at %zu)", level, lb_name[lbc], flush_name[flushA], cpu_level_name[cpu], kind ? "mixed" : "incompressible", N, placement_end ? "end" : "start", pieces[0], pieces[1], pieces[2], nb ? bnd[0] : 0);
		size_t ip = 0, out_l = 0;
		int pi = 0, calls = 0;
		r = 0;
		if (!V_TRY()) {
			fault_violation(key);
			g_reset();
			continue;
		}
		isal_deflate_init(s);
		s->level = level; s->level_buf = level ? lb + ISAL_DEF_LVL3_EXTRA_LARGE - lbs : NULL; s->level_buf_size = lbs;
		s->gzip_flag = IGZIP_GZIP;
		s->avail_in = 0;
		while (s->internal_state.state != ZSTATE_END && calls++ < 1000) {
			uint8_t *in;
			if (s->avail_in == 0) {
				size_t k = pi < 3 ? pieces[pi] : 0;
				g_reset(); /* the previous chunk is consumed: revoke it */
				/* first piece ends at a guard page; later pieces START at one (a read behind the chunk faults) */
				in = g_alloc(k, pi == 0 || placement_end ? G_END : G_START);
				memcpy(in, IN + ip, k);
				s->next_in = in; s->avail_in = k;
				s->flush = pi == 0 ? flushA : NO_FLUSH;
				ip += k;
				pi++;
			} else {
				uint32_t left = s->avail_in;
				memcpy(TMP2, s->next_in, left);
				g_reset();
				in = g_alloc(left, placement_end ? G_END : G_START);
				memcpy(in, TMP2, left);
				s->next_in = in;
			}
			s->end_of_stream = ip >= (size_t)N;
			s->next_out = TMP + out_l; s->avail_out = 1100000 - out_l;
			r = isal_deflate(s);
			out_l = 1100000 - s->avail_out;
			if (r)
				break;
		}
		V_END();
		g_reset();
		v_eval();
		if (r != COMP_OK || s->internal_state.state != ZSTATE_END) {
			v_violation(key, "return %d state %d after %d calls", r, s->internal_state.state, calls);
			nfail++;
		} else if (!verify_deflate_output(TMP, out_l, IGZIP_GZIP, IN, N, 0, 0, NULL, 0, why, sizeof why)) {
			v_violation(key, "output rejected by the reference decoder: %s", why);
			nfail++;
		}
		v_count("big_chunk_schedules", 1);
		v_nontrivial(v_mix(v_hash(key, strlen(key), 0), 5));
	}
	g_strict_free = 0;
}

/* (iv) large incompressible input in ONE chunk, the FIRST output buffer swept byte by byte around the sizes at which a stored block
 * is cut by the end of the output buffer: relative to every block boundary p the codec chose (calibrated as above) the windows
 * p - 65824 + d (what still fits the internal buffer when a stored block is cut) and p + d. Stream object, level buffer, input and
 * every output buffer are exact-size and end at an inaccessible page; the stream must decode to the input. */
static void big_out_sweep(int level, int lbc, int cpu)
{
	char key[300], why[256];
	int N = 345000;
	fill_xorshift(IN, N, 55 + level);
	cpu_set_level(cpu);
	struct cparams p = { level, NO_FLUSH, IGZIP_DEFLATE, 0, 0, lbc, API_ONECALL, 0, 0 };
	size_t ol;
	struct isal_zstream *cs;
	int r = c_deflate(&p, IN, N, TMP, 1100000, &ol, &cs);
	if (r != COMP_OK || !verify_deflate_output(TMP, ol, IGZIP_DEFLATE, IN, N, 0, 0, NULL, 0, why, sizeof why)) {
		g_reset();
		return;
	}
	g_reset();
	static int *as;
	static uint8_t *mark;
	if (!as) { as = malloc(sizeof(int) * 400000); mark = malloc(1100001); }
	memset(mark, 0, 1100001);
	int na = 0;
	long dlo = -80, dhi = level == 3 ? (v_thorough ? 4600 : 800) : 120;
	for (int i = 1; i < vs_res.nblocks && i < RI_MAXBLK; i++) {
		long b = (long)vs_res.blk[i].out_start; /* input bytes before this block */
		for (int w = 0; w < 2; w++)
			for (long d = dlo; d <= dhi; d++) {
				/* output produced so far ~ input consumed for incompressible data (+5 per stored sub-block): both taken as the centre */
				long a = b - (w ? 65824 : 0) + d;
				if (a > 0 && a < 1100000 && !mark[a]) { mark[a] = 1; as[na++] = (int)a; }
			}
	}
	for (long a = 1; a < (long)ol + 50; a += (v_thorough ? 997 : 8191))
		if (!mark[a]) { mark[a] = 1; as[na++] = (int)a; }
	uint32_t lbs = lb_size(level, lbc);
	for (int ai = 0; ai < na; ai++) {
		if (!v_mine(big_unit++))
			continue;
		if (nfail > 20 || v_deadline_hit())
			break;
		struct isal_zstream *s = g_alloc(sizeof *s, G_END);
		uint8_t *lb = g_alloc(lbs, G_END), *in = g_alloc(N, G_END);
		memcpy(in, IN, N);
		g_readonly(in, 1);
		size_t out_l = 0;
		int calls = 0;
		r = 0;
		snprintf(key, sizeof key, "big-out-sweep isal_deflate level=%d lbuf=%s cpu=%s input=incompressible:%d in one chunk, first avail_out=%d then 65536-byte buffers", level, lb_name[lbc], cpu_level_name[cpu], N, as[ai]);
		if (V_TRY()) {
			isal_deflate_init(s);
			s->level = level; s->level_buf = lb; s->level_buf_size = lbs;
			s->next_in = in; s->avail_in = N; s->end_of_stream = 1;
			while (s->internal_state.state != ZSTATE_END && calls < 4000) {
				size_t cap = calls == 0 ? (size_t)as[ai] : 65536;
				uint8_t *out = g_alloc(cap, G_END);
				s->next_out = out; s->avail_out = cap;
				r = isal_deflate(s);
				calls++;
				size_t pr = cap - s->avail_out;
				if (r || out_l + pr > 1100000)
					break;
				memcpy(TMP + out_l, out, pr);
				out_l += pr;
			}
			V_END();
		} else {
			fault_violation(key);
			g_reset();
			continue;
		}
		v_eval();
		if (r != COMP_OK || s->internal_state.state != ZSTATE_END) {
			v_violation(key, "return %d state %d after %d calls", r, s->internal_state.state, calls);
			nfail++;
		} else if (g_check()) {
			v_violation(key, "%s", g_last_damage());
			nfail++;
		} else if (!verify_deflate_output(TMP, out_l, IGZIP_DEFLATE, IN, N, 0, 0, NULL, 0, why, sizeof why)) {
			v_violation(key, "output rejected by the reference decoder: %s", why);
			nfail++;
		}
		g_reset();
		v_count("big_first_output_sizes", 1);
	}
}

int main(int argc, char **argv)
{
	v_init(argc, argv, "C05");
	IN = malloc(BIGN + 64); TMP = malloc(1100000); TMP2 = malloc(BIGN + 64);
	g_canary_span = 512;
#ifdef VERIF_FLAVOUR_NOARCH
	static const int cpus[] = { CPU_BASE };
	int ncpu = 1;
#else
	static const int cpus[] = { CPU_BASE, CPU_SSE, CPU_AVX, CPU_AVX2, CPU_AVX512, CPU_AVX512G2, CPU_AVX2G2 };
	int ncpu = 7;
#endif
	uint64_t unit = 0;
	for (int li = 0; li < N_SHAPE_LENS; li++)
		for (int pat = 0; pat < PAT_N; pat++) {
			int len = shape_lens[li];
			if (pat != PAT_ZERO && pat != PAT_XS && pat != PAT_TEXT && pat != PAT_LOG && pat != PAT_P258 && !(v_thorough && pat == PAT_P3))
				continue;
			for (int ci = 0; ci < ncpu; ci++) {
				if (!v_mine(unit++))
					continue;
				if (nfail > 20 || v_deadline_hit())
					goto done;
				fill_pattern(IN, len, pat, len + pat);
				snprintf(in_name, sizeof in_name, "shape:%s:%d", pat_name[pat], len);
				cpu_set_level(cpus[ci]);
				{
					static struct isal_huff_histogram h;
					memset(&h, 0, sizeof h);
					isal_update_histogram(IN, len, &h);
					isal_create_hufftables(&c_custom_ht, &h);
				}
				if (part_is("exact"))
					exact_fit(len, cpus[ci]);
				if (part_is("revoke") && (len == 300 || len == 600 || len == 4096 || len == 9 || len == 258 || (v_thorough && len >= 1000)))
					revoked_chunks(len, cpus[ci]);
			}
		}
	if (part_is("bigchunks")) {
		static const int lbcs[] = { LB_DEFAULT, LB_MEDIUM, LB_SMALL, LB_XL };
		for (int level = 1; level <= 3; level++)
			for (int lbi = 0; lbi < (v_thorough ? 4 : 2); lbi++)
				for (int ci = 0; ci < ncpu; ci++)
					for (int kind = 0; kind < 2; kind++)
						for (int fl = 0; fl < 3; fl++)
							for (int three = 0; three < 2; three++) {
								if (!v_thorough && (ncpu > 1 && cpus[ci] != CPU_BASE && cpus[ci] != CPU_AVX2 && cpus[ci] != CPU_AVX512))
									continue;
								if (!v_thorough && (kind || fl || (three && !(level == 3 && lbi == 0))))
									continue;
#ifdef VERIF_FLAVOUR_NOARCH
								if (!v_thorough && !((level == 3 && lbi == 0) || (level == 1 && lbi == 1)))
									continue;
#endif
								if (nfail > 20 || v_deadline_hit())
									goto done;
								revoked_big(level, lbcs[lbi], cpus[ci], kind, fl, three, 0);
								if (v_thorough)
									revoked_big(level, lbcs[lbi], cpus[ci], kind, fl, three, 1);
							}
	}
	if (part_is("bigout")) {
		static const int lbcs[] = { LB_DEFAULT, LB_XL, LB_MEDIUM };
		for (int level = 1; level <= 3; level++)
			for (int lbi = 0; lbi < (v_thorough ? 3 : 2); lbi++)
				for (int ci = 0; ci < ncpu; ci++) {
					if (ncpu > 1 && cpus[ci] != CPU_AVX2 && !(v_thorough && (cpus[ci] == CPU_BASE || cpus[ci] == CPU_AVX512)))
						continue;
					if (nfail > 20 || v_deadline_hit())
						goto done;
					big_out_sweep(level, lbcs[lbi], cpus[ci]);
				}
	}
	if (v_thorough && part_is("exact"))
		for (int li = 0; li < N_BIG_LENS; li += 2) {
			if (!v_mine(unit++))
				continue;
			fill_mixed(IN, big_lens[li], li);
			snprintf(in_name, sizeof in_name, "big:mixed:%d", big_lens[li]);
			cpu_set_level(cpus[li % ncpu]);
			exact_fit(big_lens[li], cpus[li % ncpu]);
		}
done:
	if (v_shard == 0) {
		v_sample("exact-fit isal_deflate_stateless level=3 wrapper=gzip_no_hdr: stream struct, level_buf (exactly ISAL_DEF_LVL3_MIN), read-only input, custom hufftables (read-only) and output (exactly the documented bound) each end at an inaccessible page");
		v_sample("exact-fit isal_inflate_stateless: input is exactly the stream (no slop bytes behind it, read-only), output exactly the decoded length");
		v_sample("revoked-chunks isal_deflate level=2 cin=7 cout=17 flush=SYNC_FLUSH: every input chunk lives in its own exact-size mapping that becomes PROT_NONE once recycled; unconsumed tails are moved to fresh mappings");
		v_sample("revoked-big isal_deflate level=3 lbuf=DEFAULT first-flush=NO_FLUSH cpu=avx2 input=incompressible:345000 pieces=130208,214792,0: the first chunk's mapping is PROT_NONE during the second call; the block opened in call 1 is closed in call 2");
		v_note("big-chunk part: the first-chunk length is swept byte by byte over a window behind each block boundary the codec chose (calibrated by decoding a one-call compression with the reference) plus a coarse sweep of all other lengths; a read of the consumed chunk faults");
		v_note("page-granular guards cannot see overflows inside the context structs: those are covered by running the same harness on the portable-C flavour under AddressSanitizer/UBSan (flavour noarch); the rel flavour (NDEBUG) shows what the shipped Makefile.unx library does without asserts");
		v_note("the kernel sweeps (CRC, erasure code, RAID, zero detect: every length 0..N x end-flush and start-flush placements x every variant) run as additional parts of this check");
	}
	return v_finish();
}
