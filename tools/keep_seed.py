#!/usr/bin/env python3
"""usage: keep_seed.py <src dir> <seed id> <property> <needs...> -- <ran...> -- <detected by...>
stores patch.diff, demo.c, NOTES.md and meta.json under /verif/seeded/<seed id>/"""
import sys, os, json, shutil
src, sid, prop = sys.argv[1:4]
rest = " ".join(sys.argv[4:]).split(" -- ")
d = os.path.join("/verif/seeded", sid)
os.makedirs(d, exist_ok=True)
for f in ("patch.diff", "demo.c", "NOTES.md"):
    if os.path.exists(os.path.join(src, f)):
        shutil.copy(os.path.join(src, f), os.path.join(d, f))
json.dump({"seed": sid, "breaks_property": prop, "needs_to_manifest": rest[0], "confirmed_by_running": rest[1] if len(rest) > 1 else "",
           "detected_by": rest[2] if len(rest) > 2 else "", "origin": "independent sub-agent given only the property text and a scratch worktree"},
          open(os.path.join(d, "meta.json"), "w"), indent=1)
print("kept", d)
