#!/bin/bash
# usage: tools/try_patch.sh <patch.diff> "<check ids>" [tier]
# Applies a seeded change to /repo, runs the named checks, and ALWAYS restores /repo afterwards.
# Prints one line per check: <id> rc=<exit code> violations=<n> first-key=<...>
patch=$1; ids=$2; tier=${3:-quick}
cd /repo || exit 2
# checks (also background `vp run` jobs) build from /repo's working tree under a shared lock; hold the exclusive lock while the
# seeded change is applied so that it can never leak into an unrelated concurrent build
exec 9>>/tmp/.verif_repo_lock
flock -x 9
export VERIF_REPO_LOCK_HELD=1
if ! git diff --quiet; then echo "/repo has uncommitted changes; refusing"; exit 2; fi
git apply "$patch" || { echo "patch does not apply"; exit 2; }
trap 'git -C /repo checkout -- . >/dev/null 2>&1' EXIT
cd /verif
for id in $ids; do
  out=$(VERIF_NO_EVIDENCE=1 ./check $id --tier $tier 2>&1); rc=$?
  nv=$(echo "$out" | grep -c "^VIOLATION")
  key=$(echo "$out" | grep -m1 "^  key:" | cut -c1-220)
  echo "$id rc=$rc violations=$nv $key"
done
