#!/bin/bash
# usage: tools/try_patch.sh <patch.diff> "<check ids>" [tier]
# Applies a seeded change to /repo, runs the named checks, and ALWAYS restores /repo afterwards.
# Prints one line per check: <id> rc=<exit code> violations=<n> first-key=<...>
patch=$1; ids=$2; tier=${3:-quick}
cd /repo || exit 2
# a background `vp run` rebuilds from /repo's working tree: never patch /repo while one is running
if command -v vp >/dev/null && vp runs 2>/dev/null | grep -q "^#[0-9]* *running"; then echo "a vp run is active (it builds from /repo); refusing to patch /repo now"; exit 2; fi
if ! git diff --quiet; then echo "/repo has uncommitted changes; refusing"; exit 2; fi
git apply "$patch" || { echo "patch does not apply"; exit 2; }
trap 'git -C /repo checkout -- . >/dev/null 2>&1' EXIT
cd /verif
for id in $ids; do
  out=$(VERIF_NO_EVIDENCE=1 ./check $id --tier $tier 2>&1); rc=$?
  nv=$(echo "$out" | grep -c "^VIOLATION")
  key=$(echo "$out" | grep -m1 "^  key:" | cut -c1-220)
  echo "$id rc=$rc violations=$nv $key"
done
