#!/bin/bash
# usage: tools/confirm_seed.sh <src dir with patch.diff demo.c NOTES.md> <seed id>
# Confirms a seeded change independently in a fresh scratch worktree: patch applies, pinned suite passes,
# demo fails with the change and passes without it. Prints a summary; leaves nothing behind.
src=$1; id=$2
wt=/tmp/confirm_$id
git -C /repo worktree remove --force $wt >/dev/null 2>&1
git -C /repo worktree add --detach $wt HEAD >/dev/null 2>&1 || exit 2
rsync -a --ignore-existing --exclude .git --exclude _seed /repo/ $wt/
cd $wt && git checkout -- .
res() { echo "$1"; }
if ! git apply $src/patch.diff; then echo "RESULT patch-does-not-apply"; git -C /repo worktree remove --force $wt; exit 1; fi
find $wt -name "*.o" -o -name "*.lo" | xargs rm -f; rm -f $wt/libisal.la $wt/.libs/libisal.a
mkdir -p $wt/_seed; cp $src/demo.c $wt/_seed/demo.c   # demos may #include ../<dir>/<file>.c of the tree under test
suite=$(make -j16 check 2>&1 | grep -E "^# (PASS|FAIL|ERROR)" | tr '\n' ' ')
gcc -O1 -g -I$wt/include $wt/_seed/demo.c $wt/.libs/libisal.a -lpthread -lz -lm -o $wt/demo_with 2>$wt/demo_cc.log || { echo "RESULT demo-does-not-compile"; cat $wt/demo_cc.log | head; }
timeout 600 $wt/demo_with > $wt/demo_with.out 2>&1; rc_with=$?
git checkout -- . ; git apply -R $src/patch.diff 2>/dev/null; git checkout -- .
find $wt -name "*.o" -o -name "*.lo" | xargs rm -f; rm -f $wt/libisal.la $wt/.libs/libisal.a
make -j16 >/dev/null 2>&1
gcc -O1 -g -I$wt/include $wt/_seed/demo.c $wt/.libs/libisal.a -lpthread -lz -lm -o $wt/demo_without 2>/dev/null
timeout 600 $wt/demo_without > $wt/demo_without.out 2>&1; rc_without=$?
echo "RESULT suite=[$suite] demo_with_change_rc=$rc_with demo_without_change_rc=$rc_without"
echo "--- demo output with change (tail):"; tail -3 $wt/demo_with.out
cd /; git -C /repo worktree remove --force $wt
