#!/usr/bin/env python3
"""Rewrites the table between <!-- SEEDS-BEGIN --> and <!-- SEEDS-END --> in DESIGN.md from seeded/*/meta.json"""
import json, glob, os, re
rows = []
for f in sorted(glob.glob('/verif/seeded/*/meta.json')):
    m = json.load(open(f))
    rows.append("| `%s` | %s | %s | %s |" % (m["seed"], m["breaks_property"], m["needs_to_manifest"].replace("|", "/"), m["detected_by"].replace("|", "/")))
table = "| seed (seeded/<id>/) | property | needs, in order to manifest | result of running the checks against it |\n|---|---|---|---|\n" + "\n".join(rows)
p = '/verif/DESIGN.md'
s = open(p).read()
s = re.sub(r"<!-- SEEDS-BEGIN -->.*<!-- SEEDS-END -->", "<!-- SEEDS-BEGIN -->\n" + table + "\n<!-- SEEDS-END -->", s, flags=re.S)
open(p, 'w').write(s)
print(len(rows), "seeds")
