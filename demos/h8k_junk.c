/* Non-default window builds (IGZIP_HIST_SIZE=8 KiB, or LONGER_HUFFTABLE): a level-0 stream made with the default tables is
 * rejected by isal_inflate_stateless / isal_inflate when at least ~9 more bytes follow it in the input buffer. */
#include <stdio.h>
#include <string.h>
#include <stdint.h>
#include "igzip_lib.h"
int main(void)
{
	static uint8_t in[300], out[1000], buf[7000], back[400];
	for (int i = 0; i < 300; i++) in[i] = "hello hello hello world "[i % 24];
	int bad = 0;
	for (int len = 0; len <= 300; len += 9)
		for (int junk = 0; junk <= 5000; junk += 20) {
			struct isal_zstream s; struct inflate_state st;
			isal_deflate_init(&s); s.next_in = in; s.avail_in = len; s.end_of_stream = 1; s.next_out = out; s.avail_out = sizeof out;
			if (isal_deflate(&s)) return 2;
			memcpy(buf, out, s.total_out); memset(buf + s.total_out, 0xA5, junk);
			isal_inflate_init(&st); st.next_in = buf; st.avail_in = s.total_out + junk; st.next_out = back; st.avail_out = sizeof back;
			int r = isal_inflate_stateless(&st);
			if (r || st.total_out != (unsigned)len || memcmp(back, in, len)) {
				if (bad < 5) printf("len=%d trailing bytes=%d: isal_inflate_stateless returns %d after %u bytes\n", len, junk, r, st.total_out);
				bad++;
			}
		}
	printf("%d failing cases\n", bad);
	return bad != 0;
}
