#include <stdio.h>
#include <string.h>
#include <stdlib.h>
#include <zlib.h>
#include "igzip_lib.h"
int main(int argc,char**argv){ int cin=atoi(argv[1]), cout=atoi(argv[2]), flush=atoi(argv[3]), level=atoi(argv[4]);
 static uint8_t in[600], lb[ISAL_DEF_LVL3_MIN], out[100000]; const char*t="the quick brown fox jumps over the lazy dog; the quick brown fox, the lazy dog and the quick brown dog jumped over the fox. abcabcabcabdabcabe 0123456789 0123456789 aaaaaaaaaaaaaaaabaaaaaaaaaaaaaaaaaaaac ";
 for(int i=0;i<600;i++) in[i]=t[i%strlen(t)];
 struct isal_zstream s; isal_deflate_init(&s); s.level=level; s.level_buf=level?lb:0; s.level_buf_size=level?sizeof lb:0; s.flush=flush; s.gzip_flag=atoi(argv[5]);
 size_t ip=0, ol=0; int calls=0;
 while(s.internal_state.state!=ZSTATE_END && calls++<40){
   size_t k=0; if(s.avail_in==0){ k=600-ip<cin?600-ip:cin; s.next_in=in+ip; s.avail_in=k; ip+=k; }
   s.end_of_stream=ip>=600; s.next_out=out+ol; s.avail_out=cout; int r=isal_deflate(&s); size_t p=cout-s.avail_out; ol+=p;
   printf("call %2d: offered %zu consumed-all=%d produced %zu avail_out=%u state=%d total_in=%u",calls,k,s.avail_in==0,p,s.avail_out,s.internal_state.state,s.total_in);
   if(s.avail_in==0 && s.avail_out>0){ /* claimed flush point: decode prefix */
     z_stream z; memset(&z,0,sizeof z); inflateInit2(&z, atoi(argv[5])==1?31:atoi(argv[5])==3?15:-15); uint8_t back[1000]; z.next_in=out; z.avail_in=ol; z.next_out=back; z.avail_out=sizeof back; int zr=inflate(&z,Z_SYNC_FLUSH);
     printf("  FLUSH POINT: zlib decodes %lu bytes of %u fed (zr=%d) tail=%02x%02x%02x%02x",z.total_out,s.total_in,zr,ol>=4?out[ol-4]:0,ol>=3?out[ol-3]:0,ol>=2?out[ol-2]:0,ol>=1?out[ol-1]:0); inflateEnd(&z);}
   printf("\n"); if(r)break; }
 return 0;}
