#include <stdio.h>
#include <string.h>
#include "igzip_lib.h"
int main(void)
{
	static unsigned char in[1000], out[4096];
	memset(in, 'a', sizeof in);
	for (int level = 0; level < 2; level++)
	for (int e = 1; e <= 0x100; e = e == 1 ? 2 : e == 2 ? 0x100 : 0x101) {
		struct isal_zstream s;
		static unsigned char lb[ISAL_DEF_LVL1_DEFAULT];
		isal_deflate_init(&s);
		s.level = level; s.level_buf = level ? lb : NULL; s.level_buf_size = level ? sizeof lb : 0;
		s.next_in = in; s.avail_in = sizeof in; s.end_of_stream = e;
		int calls = 0; size_t total = 0;
		do {
			s.next_out = out; s.avail_out = sizeof out;
			isal_deflate(&s);
			total += sizeof out - s.avail_out;
		} while (s.internal_state.state != ZSTATE_END && ++calls < 50);
		printf("level %d end_of_stream=%#x: %s after %d calls, %zu bytes out, state %d\n", level, e, s.internal_state.state == ZSTATE_END ? "END" : "NOT FINISHED", calls, total, s.internal_state.state);
	}
	return 0;
}
