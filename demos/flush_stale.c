/* isal_deflate: caller refills input while a FULL_FLUSH is still pending (output was full).
 * The codec has dropped its history (get_hist_size() == 0) but not yet reset the hash table, and compresses the new chunk
 * directly from the caller's buffer: match candidates are read from BEFORE the caller's chunk. If that memory happens to hold
 * matching bytes, a match is emitted whose distance points at different bytes in the real stream history -> corrupt stream. */
#include <stdio.h>
#include <stdlib.h>
#include <string.h>
#include <stdint.h>
#include <zlib.h>
#include "igzip_lib.h"
#define REC 97
#define NREC 400
static uint8_t data[NREC * REC], mem[NREC * REC], out[4 * NREC * REC], back[NREC * REC + 100];
int main(void)
{
	static const char *w[] = { "alpha", "bravo", "delta", "gamma", "omega", "sigma", "theta", "kappa" };
	uint64_t s = 88172645463325252ull;
	int bad = 0;
	for (int level = 1; level <= 3; level++) {
		for (size_t i = 0; i < sizeof data;) {
			s ^= s << 13; s ^= s >> 7; s ^= s << 17;
			const char *x = w[s % 8];
			for (int k = 0; k < 5 && i < sizeof data; k++) data[i++] = x[k];
			if (i < sizeof data) data[i++] = ' ';
		}
		/* the caller keeps its records in REVERSE order in memory (any layout is legal: each call gets next_in/avail_in) */
		for (int r = 0; r < NREC; r++) memcpy(mem + (size_t)(NREC - 1 - r) * REC, data + (size_t)r * REC, REC);
		struct isal_zstream z;
		uint8_t *lb = malloc(ISAL_DEF_LVL3_DEFAULT);
		isal_deflate_init(&z);
		z.level = level; z.level_buf = lb; z.level_buf_size = level == 1 ? ISAL_DEF_LVL1_DEFAULT : level == 2 ? ISAL_DEF_LVL2_DEFAULT : ISAL_DEF_LVL3_DEFAULT;
		z.flush = FULL_FLUSH;
		size_t op = 0; int r = 0, rec = 0;
		while (z.internal_state.state != ZSTATE_END) {
			if (z.avail_in == 0 && rec < NREC) { z.next_in = mem + (size_t)(NREC - 1 - rec) * REC; z.avail_in = REC; rec++; }
			z.end_of_stream = rec == NREC;
			z.next_out = out + op; z.avail_out = 61;
			r = isal_deflate(&z);
			op += 61 - z.avail_out;
			if (r) break;
		}
		z_stream zs; memset(&zs, 0, sizeof zs); inflateInit2(&zs, -15);
		zs.next_in = out; zs.avail_in = op; zs.next_out = back; zs.avail_out = sizeof back;
		int zr = inflate(&zs, Z_FINISH);
		size_t j = 0; while (j < zs.total_out && j < sizeof data && back[j] == data[j]) j++;
		int ok = r == 0 && zr == Z_STREAM_END && zs.total_out == sizeof data && j == sizeof data;
		printf("level %d: isal ret %d, %zu bytes out; zlib %d (%s), decoded %lu of %zu, first difference at %zu -> %s\n", level, r, op, zr, zs.msg ? zs.msg : "", zs.total_out, sizeof data, j, ok ? "ok" : "CORRUPT");
		bad |= !ok;
		inflateEnd(&zs); free(lb);
	}
	return bad;
}
