#define _GNU_SOURCE
#include <stdio.h>
#include <string.h>
#include <stdlib.h>
#include <sys/mman.h>
#include <signal.h>
#include <execinfo.h>
#include <ucontext.h>
#include "igzip_lib.h"
static void h(int s, siginfo_t*si, void*u){ ucontext_t*uc=u; void*bt[20]; fprintf(stderr,"SEGV addr=%p rip=%p\n",si->si_addr,(void*)uc->uc_mcontext.gregs[REG_RIP]); int n=backtrace(bt,20); backtrace_symbols_fd(bt,n,2); _exit(1);}
static uint8_t *chunk(const uint8_t*src,size_t k){ uint8_t*m=mmap(0,8192,PROT_READ|PROT_WRITE,MAP_PRIVATE|MAP_ANONYMOUS,-1,0); mprotect(m+4096,4096,PROT_NONE); uint8_t*p=m+4096-k; memcpy(p,src,k); return p;}
int main(int argc,char**argv){ int cin=atoi(argv[1]), cout=atoi(argv[2]), flush=atoi(argv[3]), level=atoi(argv[4]);
 struct sigaction sa; memset(&sa,0,sizeof sa); sa.sa_sigaction=h; sa.sa_flags=SA_SIGINFO; sigaction(SIGSEGV,&sa,0);
 static uint8_t in[258], lb[ISAL_DEF_LVL3_MIN]; const char*t="the quick brown fox jumps over the lazy dog; the quick brown fox, the lazy dog and the quick brown dog jumped over the fox. abcabcabcabdabcabe 0123456789 0123456789 aaaaaaaaaaaaaaaabaaaaaaaaaaaaaaaaaaaac ";
 for(int i=0;i<258;i++) in[i]=t[i%strlen(t)];
 struct isal_zstream s; isal_deflate_init(&s); s.level=level; s.level_buf=level?lb:0; s.level_buf_size=level?sizeof lb:0; s.gzip_flag=IGZIP_GZIP; s.flush=flush;
 size_t ip=0; uint8_t*cur=0; size_t curk=0; uint8_t out[8192]; int calls=0;
 while(s.internal_state.state!=ZSTATE_END && calls++<10000){
   if(s.avail_in==0){ if(cur){ munmap((void*)((uintptr_t)cur & ~4095ul),8192);} curk=258-ip<cin?258-ip:cin; cur=chunk(in+ip,curk); s.next_in=cur; s.avail_in=curk; ip+=curk; }
   s.end_of_stream=ip>=258; s.next_out=out; s.avail_out=cout; int r=isal_deflate(&s); if(r){printf("ret %d\n",r);break;} }
 printf("done calls=%d state=%d total_out=%u\n",calls,s.internal_state.state,s.total_out); return 0;}
