#include <stdio.h>
#include <string.h>
#include <stdint.h>
#include "igzip_lib.h"
int main(void){
  /* produce a gzip stream with name+comment+hcrc using ISA-L's own writer */
  uint8_t comp[1024], out[256]; const char *msg="hello hello hello";
  struct isal_zstream s; struct isal_gzip_header h;
  isal_deflate_init(&s); isal_gzip_header_init(&h);
  h.name=(char*)"file.name"; h.name_buf_len=10; h.comment=(char*)"a comment"; h.comment_buf_len=10; h.hcrc=1;
  s.next_out=comp; s.avail_out=sizeof comp; s.gzip_flag=IGZIP_GZIP_NO_HDR;
  uint32_t r=isal_write_gzip_header(&s,&h); printf("write hdr=%u total_out=%u\n",r,s.total_out);
  s.next_in=(uint8_t*)msg; s.avail_in=strlen(msg); s.end_of_stream=1;
  int rc=isal_deflate(&s); printf("deflate=%d total=%u\n",rc,s.total_out);
  for(int split=0; split<=30; split++){
    struct inflate_state st; isal_inflate_init(&st); st.crc_flag=ISAL_GZIP;
    st.next_out=out; st.avail_out=sizeof out;
    st.next_in=comp; st.avail_in=split; int r1=isal_inflate(&st);
    st.next_in=comp+split-st.avail_in; st.avail_in=s.total_out-(split-st.avail_in); int r2=r1<0?r1:isal_inflate(&st);
    printf("split=%2d r1=%d r2=%d state=%d out=%u %s\n",split,r1,r2,st.block_state,st.total_out,(r2==0&&st.block_state==ISAL_BLOCK_FINISH&&st.total_out==strlen(msg)&&!memcmp(out,msg,strlen(msg)))?"ok":"FAIL");
  }
  return 0;}
