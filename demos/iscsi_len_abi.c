#include <stdio.h>
#include <stdint.h>
#include <string.h>
#include "crc.h"
__attribute__((noinline)) unsigned f(unsigned char *b, uint64_t n, uint64_t seed) { return crc32_iscsi(b, (int)n, (unsigned)seed); }
int main(void)
{
	static unsigned char buf[4096];
	memset(buf, 0x5a, sizeof buf);
	unsigned a = f(buf, 300, 0x12345678), b = f(buf, 300, 0xabcdef0012345678ull);
	printf("seed upper clean %08x dirty %08x %s\n", a, b, a == b ? "same" : "DIFFERENT");
	unsigned c = crc32_iscsi(buf, 300, 7);
	volatile uint64_t big = 0x100000000ull + 300;
	unsigned d = f(buf, big, 7);
	printf("len upper clean %08x dirty %08x %s\n", c, d, c == d ? "same" : "DIFFERENT");
	return 0;
}
