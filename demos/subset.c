#include <stdio.h>
#include <string.h>
#include <zlib.h>
#include "igzip_lib.h"
int main(void){ static struct isal_huff_histogram h; static struct isal_hufftables ht; memset(&h,0,sizeof h);
 h.lit_len_histogram['a']=10; h.lit_len_histogram['b']=5; /* literals of the data have counts; EOB count left at 0 */
 int r=isal_create_hufftables_subset(&ht,&h); printf("create=%d EOB code len=%d\n",r,ht.lit_table_sizes[256]);
 struct isal_zstream s; uint8_t out[256],back[64]; isal_deflate_stateless_init(&s); s.hufftables=&ht; s.next_in=(uint8_t*)"abab"; s.avail_in=4; s.end_of_stream=1; s.next_out=out; s.avail_out=sizeof out;
 r=isal_deflate_stateless(&s); printf("deflate=%d out=%u\n",r,s.total_out);
 z_stream z; memset(&z,0,sizeof z); inflateInit2(&z,-15); z.next_in=out; z.avail_in=s.total_out; z.next_out=back; z.avail_out=sizeof back; r=inflate(&z,Z_FINISH); printf("zlib inflate=%d (%s) out=%lu\n",r,z.msg?z.msg:"",z.total_out); return 0;}
