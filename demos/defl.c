#include <stdio.h>
#include <string.h>
#include <stdlib.h>
#include <stdint.h>
#include "igzip_lib.h"
static struct isal_zstream s; static uint8_t lb[ISAL_DEF_LVL1_MIN]; static uint8_t out[4096]; static size_t outlen;
static const uint8_t *in=(const uint8_t*)"abcab"; static size_t inoff, inlen=5; static int eosann;
static void call(int ci,int co,int flush){
  size_t rem=inlen-inoff; size_t k=ci<0||(size_t)ci>rem?rem:(size_t)ci; size_t cap=co<0?600:co;
  uint8_t *ib=malloc(k+1), *ob=malloc(cap+1); memcpy(ib,in+inoff,k);
  int last=inoff+k==inlen; int eos=eosann||last; 
  s.next_in=ib; s.avail_in=k; s.next_out=ob; s.avail_out=cap; s.end_of_stream=eos; s.flush=flush;
  int r=isal_deflate(&s); size_t c=k-s.avail_in,p=cap-s.avail_out; memcpy(out+outlen,ob,p); outlen+=p; inoff+=c; if(eos)eosann=1;
  printf("call in=%d out=%d flush=%d eos=%d -> ret=%d consumed=%zu produced=%zu state=%d\n",ci,co,flush,eos,r,c,p,s.internal_state.state);
  free(ib); free(ob);
}
int main(){ isal_deflate_init(&s); s.level=1; s.level_buf=lb; s.level_buf_size=sizeof lb;
  call(0,0,0);call(0,0,0);call(0,0,0);call(0,0,1);call(0,0,0);call(7,0,0);call(0,1,0);
  for(int i=0;i<8 && s.internal_state.state!=ZSTATE_END;i++) call(-1,-1,0);
  printf("stream:"); for(size_t i=0;i<outlen;i++)printf("%02x",out[i]); printf("\n"); return 0;}
