#include <stdio.h>
#include <string.h>
#include <stdlib.h>
#include <zlib.h>
#include "igzip_lib.h"
int main(int argc,char**argv){ int level=atoi(argv[1]);
 static uint8_t in[600], lb[ISAL_DEF_LVL3_MIN], out[100000];
 for(int i=0;i<600;i++) in[i]=(uint8_t)("flush point test data, quite repetitive. 0123456789 abcdefghi "[i%61]);
 struct isal_zstream s; isal_deflate_init(&s); s.level=level; s.level_buf=level?lb:0; s.level_buf_size=level?sizeof lb:0;
 size_t ip=0; s.next_out=out; s.avail_out=sizeof out; size_t fl_at=0;
 /* call 0: 97 bytes SYNC */
 s.next_in=in; s.avail_in=97; s.flush=SYNC_FLUSH; s.end_of_stream=0; isal_deflate(&s); ip=97; printf("after sync: total_out=%u state=%d avail_in=%u\n",s.total_out,s.internal_state.state,s.avail_in);
 s.avail_in=0; s.flush=FULL_FLUSH; isal_deflate(&s); fl_at=s.total_out; printf("after empty full: total_out=%u state=%d has_hist=%d\n",s.total_out,s.internal_state.state,s.internal_state.has_hist);
 s.flush=NO_FLUSH;
 while(ip<600){ size_t k=600-ip<97?600-ip:97; s.next_in=in+ip; s.avail_in=k; ip+=k; s.end_of_stream=0; isal_deflate(&s);} 
 s.end_of_stream=1; s.avail_in=0; isal_deflate(&s); printf("end: total_out=%u state=%d\n",s.total_out,s.internal_state.state);
 z_stream z; memset(&z,0,sizeof z); inflateInit2(&z,-15); uint8_t back[1000]; z.next_in=out+fl_at; z.avail_in=s.total_out-fl_at; z.next_out=back; z.avail_out=sizeof back; int zr=inflate(&z,Z_FINISH);
 printf("suffix decode from %zu: zr=%d (%s) out=%lu expect %d\n",fl_at,zr,z.msg?z.msg:"",z.total_out,600-97); return 0;}
