#include <stdio.h>
#include <string.h>
#include <stdlib.h>
#include <stdint.h>
#include "igzip_lib.h"
int main(int argc,char**argv){ const char*hex=argv[1]; int cap=atoi(argv[2]); int flag=atoi(argv[3]); size_t n=strlen(hex)/2; uint8_t *in=malloc(n+8),*out=malloc(cap+64);
 for(size_t i=0;i<n;i++){unsigned v;sscanf(hex+2*i,"%2x",&v);in[i]=v;}
 memset(out,0xEE,cap+64);
 struct inflate_state st; isal_inflate_init(&st); st.crc_flag=flag; st.next_in=in; st.avail_in=n; st.next_out=out; st.avail_out=cap;
 int r=isal_inflate_stateless(&st); printf("ret=%d avail_in=%u avail_out=%u (cap %d) total_out=%u state=%d next_out-out=%ld\n",r,st.avail_in,st.avail_out,cap,st.total_out,st.block_state,(long)(st.next_out-out));
 int dirty=0; for(int i=cap;i<cap+64;i++) if(out[i]!=0xEE) dirty++; printf("bytes beyond cap modified: %d\n",dirty); return 0;}
