#include <stdio.h>
#include <string.h>
#include <stdlib.h>
#include <zlib.h>
#include "igzip_lib.h"
static int try(struct isal_huff_histogram *h, const char *data, int len, const char *what){ static struct isal_hufftables ht;
 int r=isal_create_hufftables_subset(&ht,h); 
 struct isal_zstream s; uint8_t out[4096],back[4096]; isal_deflate_stateless_init(&s); s.hufftables=&ht; s.next_in=(uint8_t*)data; s.avail_in=len; s.end_of_stream=1; s.next_out=out; s.avail_out=sizeof out;
 int r2=isal_deflate_stateless(&s);
 z_stream z; memset(&z,0,sizeof z); inflateInit2(&z,-15); z.next_in=out; z.avail_in=s.total_out; z.next_out=back; z.avail_out=sizeof back; int r3=inflate(&z,Z_FINISH);
 printf("%-40s create=%d EOBlen=%d deflate=%d zlib=%d (%s) roundtrip=%s\n",what,r,ht.lit_table_sizes[256],r2,r3,z.msg?z.msg:"",(r3==1&&z.total_out==(unsigned)len&&!memcmp(back,data,len))?"ok":"FAIL"); inflateEnd(&z); return 0;}
int main(void){ static struct isal_huff_histogram h;
 memset(&h,0,sizeof h); h.lit_len_histogram['a']=10; h.lit_len_histogram['b']=5; try(&h,"abab",4,"a,b only");
 memset(&h,0,sizeof h); for(int i=0;i<256;i++) h.lit_len_histogram[i]=1000+i; try(&h,"hello world",11,"all literals, EOB=0");
 memset(&h,0,sizeof h); for(int i=0;i<256;i++) h.lit_len_histogram[i]=1; for(int i=257;i<286;i++)h.lit_len_histogram[i]=1; for(int i=0;i<30;i++)h.dist_histogram[i]=1; try(&h,"hello world",11,"uniform 1 but EOB=0");
 memset(&h,0,sizeof h); h.dist_histogram[0]=1; try(&h,"",0,"only dist[0]=1, empty data");
 memset(&h,0,sizeof h); for(int i='a';i<='z';i++) h.lit_len_histogram[i]=100; h.lit_len_histogram[' ']=300; for(int i=257;i<286;i++)h.lit_len_histogram[i]=10; for(int i=0;i<30;i++)h.dist_histogram[i]=10; try(&h,"the quick brown fox the quick brown fox",39,"text-like, EOB=0");
 return 0;}
