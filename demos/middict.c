/* isal_deflate_set_dict / isal_deflate_reset_dict "after completing a SYNC_FLUSH or FULL_FLUSH" (igzip_lib.h) when total_in is
 * not a multiple of 64 KiB: unset hash buckets (0xFFFF) then denote a position total_in+1 bytes back, i.e. before the dictionary. */
#include <stdio.h>
#include <stdlib.h>
#include <string.h>
#include <stdint.h>
#include <zlib.h>
#include "igzip_lib.h"
static uint8_t A[5000], B[4000], D[100], out[40000], back[9000];
int main(void)
{
	int bad = 0;
	for (int i = 0; i < (int)sizeof A; i++) A[i] = "the quick brown fox jumps over the lazy dog. "[i % 45];
	for (int i = 0; i < (int)sizeof D; i++) D[i] = (uint8_t)(i * 7 + 3);
	for (int via = 0; via < 2; via++)
	for (int level = 0; level <= 3; level++)
	for (int alen = 1; alen <= 4001; alen += 500) {
		memset(B, 0, sizeof B);                      /* zeros: whatever lies in front of the internal buffer is likely zero too */
		memcpy(B + 2000, D + 40, 60);                /* a genuine reference into the dictionary */
		for (int i = 2100; i < (int)sizeof B; i++) B[i] = (uint8_t)(i * 13);
		struct isal_zstream *z = malloc(sizeof *z);
		uint8_t *lb = malloc(ISAL_DEF_LVL3_DEFAULT);
		static struct isal_dict pd;
		isal_deflate_init(z);
		z->level = level; z->level_buf = level ? lb : NULL;
		z->level_buf_size = level == 1 ? ISAL_DEF_LVL1_DEFAULT : level == 2 ? ISAL_DEF_LVL2_DEFAULT : level == 3 ? ISAL_DEF_LVL3_DEFAULT : 0;
		z->flush = FULL_FLUSH;
		z->next_in = A; z->avail_in = alen; z->end_of_stream = 0; z->next_out = out; z->avail_out = sizeof out;
		int r1 = isal_deflate(z);
		size_t off = z->total_out;
		int rd = via == 0 ? isal_deflate_set_dict(z, D, sizeof D) : (isal_deflate_process_dict(z, &pd, D, sizeof D) || isal_deflate_reset_dict(z, &pd));
		z->flush = NO_FLUSH;
		z->next_in = B; z->avail_in = sizeof B; z->end_of_stream = 1;
		int r2 = isal_deflate(z);
		size_t total = z->total_out;
		/* decoder: first part plain; second part with the dictionary as its only history */
		z_stream zs; memset(&zs, 0, sizeof zs); inflateInit2(&zs, -15);
		zs.next_in = out; zs.avail_in = off; zs.next_out = back; zs.avail_out = sizeof back;
		int z1 = inflate(&zs, Z_SYNC_FLUSH);
		int okA = zs.total_out == (unsigned)alen && !memcmp(back, A, alen);
		inflateEnd(&zs);
		memset(&zs, 0, sizeof zs); inflateInit2(&zs, -15);
		inflateSetDictionary(&zs, D, sizeof D);
		zs.next_in = out + off; zs.avail_in = total - off; zs.next_out = back; zs.avail_out = sizeof back;
		int z2 = inflate(&zs, Z_FINISH);
		int okB = z2 == Z_STREAM_END && zs.total_out == sizeof B && !memcmp(back, B, sizeof B);
		if (!(r1 == 0 && rd == 0 && r2 == 0 && okA && okB)) {
			printf("%s level %d |A|=%d: deflate %d/%d dict %d; part A %s (zlib %d); part B with dictionary: zlib %d (%s), %lu bytes %s\n", via ? "process+reset_dict" : "set_dict", level, alen, r1, r2, rd, okA ? "ok" : "BAD", z1, z2,
			       zs.msg ? zs.msg : "", zs.total_out, okB ? "ok" : "BAD");
			bad++;
		}
		inflateEnd(&zs); free(z); free(lb);
	}
	printf("%d failing cases\n", bad);
	return bad != 0;
}
