#!/usr/bin/env python3
"""Regenerates MANIFEST.json from props/registry.py (claimed checks) + properties.jsonl (ids)."""
import json, os, sys
VERIF = os.path.dirname(os.path.abspath(__file__))
sys.path.insert(0, VERIF)
from props.registry import PROPS, ENGINES, NOT_APPLICABLE
ids = [json.loads(l)["id"] for l in open(os.path.join(VERIF, "properties.jsonl"))]
checks = []
for pid in ids:
    if pid not in PROPS or not PROPS[pid].get("claimed", True):
        continue
    p = PROPS[pid]
    checks.append({
        "property_id": pid,
        "quick_cmd": "./check %s --tier quick" % pid,
        "thorough_cmd": "./check %s --tier thorough" % pid,
        "evidence_file": "evidence/%s.json" % pid,
        "replay_cmd_template": "./check %s --tier quick --replay {path}" % pid,
        "engine": p.get("engine", "enum"),
        "level_claimed": {"category": p["level"], "text": p["level_text"], "design_ref": p.get("design_ref", "DESIGN.md section 3 " + pid)},
        "level_note": p["level_note"],
        "technique": p["technique"],
    })
na = [{"property_id": i, "reason": NOT_APPLICABLE.get(i, "check not built yet (work in progress; see DESIGN.md)")}
      for i in ids if i not in [c["property_id"] for c in checks]]
m = {"version": 1,
     "setup_cmd": "python3 build.py sim >/dev/null",
     "hooks": {"guard": "INTEL_ISA_L_VERIF",
               "enable": "no source hooks: checks rebuild /repo's working tree themselves (build.py); CPUID/XGETBV are intercepted by a nasm pre-include (engine/verif_pre.inc), library-owned writable memory is isolated by section renaming at link time",
               "baseline_off_cmd": "make -C /repo check", "source_commits": [], "add_only": True},
     "engines": ENGINES, "checks": checks, "not_applicable": na,
     "notes": "Technique family: model checking (bounded exhaustive enumeration of executions / states on the real code). See DESIGN.md."}
json.dump(m, open(os.path.join(VERIF, "MANIFEST.json"), "w"), indent=1)
print("claimed:", [c["property_id"] for c in checks])
