/* Toy with a known lost-update race, placed inside the monitored segment: the scheduler self-test must
 * find the losing interleaving on every run (racy) and explore the atomic version silently. */
__attribute__((section("isal_data"))) volatile long sch_toy_counter = 0;
void sch_toy_racy(void)
{
	long t = sch_toy_counter;
	sch_toy_counter = t + 1;
}
void sch_toy_atomic(void) { __atomic_fetch_add(&sch_toy_counter, 1, __ATOMIC_SEQ_CST); }
