#!/usr/bin/env python3
"""ISA requirement classifier (C16 invariant 1).
For every function symbol of every object of a flavour build, computes the set of instruction-set
extensions its reachable instructions need. Instructions are found by recursive descent from the
function entry over `objdump -dr` output (asm kernels keep constants in .text, so a linear sweep
would misread data); C objects are swept linearly (gcc emits no data in .text). Each instruction is
classified by *encoding* (legacy / VEX / EVEX from the raw bytes) + mnemonic + operand width.
Unknown mnemonic => fail closed (exit 2): the table is hand-written and must not guess.
Output: isareq.json and isareq.c in the build directory."""
import os, re, sys, json, subprocess, concurrent.futures

FEATS = ["SSE3", "SSSE3", "SSE41", "SSE42", "PCLMUL", "POPCNT", "AVX", "AVX2", "BMI1", "BMI2", "LZCNT",
         "AVX512F", "AVX512VL", "AVX512BW", "AVX512DQ", "AVX512CD", "VBMI2", "GFNI", "VAES", "VPCLMUL",
         "VNNI", "BITALG", "VPOPCNT", "AESNI", "TZCNT_SOFT", "MOVBE", "FMA"]
FBIT = {f: 1 << i for i, f in enumerate(FEATS)}

GPR = set("""adc add and bsf bsr bswap bt btc btr bts call cbw cdq cdqe clc cld cmc cmp cmpxchg cqo cwd cwde dec div
endbr64 hlt idiv imul inc int3 jmp lea leave lods loop loope loopne mov movabs movs movsx movsxd movzx mul neg nop not or
pause pop push rcl rcr ret rol ror sar sbb scas shl shld shr shrd stc std stos sub test ud2 xadd xchg xor cpuid xgetbv
cmps sal nopw nopl xlat lfence mfence sfence prefetchnta prefetcht0 prefetcht1 prefetcht2 prefetchw""".split())
SSE2 = set("""movaps movups movapd movupd movdqa movdqu movd movq movss movsd movntdq movnti movntps movhlps movlhps movhps movlps movhpd movlpd
paddb paddw paddd paddq psubb psubw psubd psubq pand pandn por pxor pcmpeqb pcmpeqw pcmpeqd pcmpgtb pcmpgtw pcmpgtd
pmovmskb pshufd pshufhw pshuflw pslld psllq psllw pslldq psrld psrlq psrlw psrldq psrad psraw punpcklbw punpcklwd punpckldq
punpcklqdq punpckhbw punpckhwd punpckhdq punpckhqdq shufps shufpd xorps xorpd andps andpd orps orpd andnps andnpd pextrw pinsrw
pmullw pmulhw pmulhuw pmuludq pmaddwd psadbw pavgb pavgw pminub pmaxub pminsw pmaxsw packsswb packssdw packuswb
cvtsi2sd cvtsi2ss cvttsd2si cvtsd2si addsd mulsd subsd divsd ucomisd comisd sqrtsd unpcklps unpckhps unpcklpd unpckhpd
maskmovdqu movmskps movmskpd cvtdq2ps cvtps2dq addps mulps subps""".split())
SSE3 = set("lddqu movddup movshdup movsldup haddps haddpd hsubps hsubpd addsubps addsubpd".split())
SSSE3 = set("pshufb phaddd phaddw phaddsw phsubd phsubw phsubsw palignr pabsb pabsw pabsd pmaddubsw pmulhrsw psignb psignw psignd".split())
SSE41 = set("""pblendvb pblendw pextrb pextrd pextrq pinsrb pinsrd pinsrq pmovzxbw pmovzxbd pmovzxbq pmovzxwd pmovzxwq pmovzxdq
pmovsxbw pmovsxbd pmovsxbq pmovsxwd pmovsxwq pmovsxdq pmulld pmuldq ptest pmaxsd pmaxsb pmaxuw pmaxud pminsd pminsb pminuw pminud
packusdw pcmpeqq movntdqa roundps roundpd roundss roundsd blendps blendpd blendvps blendvpd insertps extractps dpps dppd mpsadbw phminposuw""".split())
SSE42 = set("pcmpgtq crc32 pcmpestri pcmpestrm pcmpistri pcmpistrm".split())
BMI1 = set("andn bextr blsi blsmsk blsr".split())
BMI2 = set("bzhi mulx pdep pext rorx sarx shlx shrx".split())

# EVEX mnemonic -> extra extension beyond AVX512F (VL is added from operand width)
EVEX_BW = set("""vmovdqu8 vmovdqu16 vpblendmb vpblendmw vpcmpb vpcmpub vpcmpw vpcmpuw vpcmpeqb vpcmpeqw vpcmpgtb vpcmpgtw vpcmpltb vpcmpleb vpcmpneqb vpcmpnltb vpcmpnleb
vpcmpltw vpcmplew vpcmpneqw vpcmpltub vpcmpleub vpcmpnequb vpcmpnltub vpcmpnleub vpcmpequb
vptestmb vptestmw vptestnmb vptestnmw vpermw vpermi2w vpermt2w vpshufb vpaddb vpaddw vpsubb vpsubw vpsadbw vpmaddwd vpmaddubsw vpsraw vpsrlw vpsllw
vpinsrb vpinsrw vpextrb vpextrw vpslldq vpsrldq vpbroadcastb vpbroadcastw vpmovwb vpmovzxbw vpmovsxbw vpunpcklbw vpunpckhbw vpunpcklwd vpunpckhwd
vpackuswb vpacksswb vpackusdw vpackssdw vpminub vpmaxub vpminsb vpmaxsb vpminuw vpmaxuw vpminsw vpmaxsw vpavgb vpavgw vpabsb vpabsw vpmullw vpmulhw vpmulhuw
vpalignr vpshufhw vpshuflw vpmovb2m vpmovw2m vpmovm2b vpmovm2w vdbpsadbw vpsllvw vpsrlvw vpsravw""".split())
EVEX_DQ = set("""vbroadcastf32x2 vbroadcasti32x2 vbroadcastf32x8 vbroadcasti32x8 vbroadcastf64x2 vbroadcasti64x2 vextractf32x8 vextracti32x8
vextractf64x2 vextracti64x2 vinsertf32x8 vinserti32x8 vinsertf64x2 vinserti64x2 vpextrd vpextrq vpinsrd vpinsrq vpmullq
vxorps vxorpd vandps vandpd vandnps vandnpd vorps vorpd vpmovd2m vpmovq2m vpmovm2d vpmovm2q vcvtqq2pd vcvtuqq2pd vrangeps vrangepd""".split())
EVEX_CD = set("vplzcntd vplzcntq vpconflictd vpconflictq vpbroadcastmb2q vpbroadcastmw2d".split())
EVEX_F = set("""vbroadcastf32x4 vbroadcasti32x4 vbroadcastf64x4 vbroadcasti64x4 vextractf32x4 vextracti32x4 vextractf64x4 vextracti64x4
vinsertf32x4 vinserti32x4 vinsertf64x4 vinserti64x4 vmovdqa32 vmovdqa64 vmovdqu32 vmovdqu64 vpandd vpandq vpandnd vpandnq vpord vporq vpxord vpxorq
vpternlogd vpternlogq vshufi64x2 vshufi32x4 vshuff64x2 vshuff32x4 vpcompressd vpcompressq vpexpandd vpexpandq vpgatherdd vpgatherdq vpgatherqd vpgatherqq
vpscatterdd vpscatterdq vpscatterqd vpscatterqq vpmovdw vpmovdb vpmovqd vpmovqw vpmovqb vpmovsdw vpmovusdw vpcmpd vpcmpud vpcmpq vpcmpuq vpcmpeqd vpcmpeqq vpcmpgtd vpcmpgtq
vpcmpltd vpcmpled vpcmpneqd vpcmpnltd vpcmpnled vpcmpltq vpcmpleq vpcmpneqq vpcmpnltq vpcmpnleq vpcmpltud vpcmpleud vpcmpnequd vpcmpnltud vpcmpnleud
vpcmpltuq vpcmpleuq vpcmpnequq vpcmpnltuq vpcmpnleuq
vptestmd vptestmq vptestnmd vptestnmq vpermd vpermq vpermi2d vpermi2q vpermt2d vpermt2q vpermilps vpermilpd vpermps vpermpd
vpsllvd vpsllvq vpsrlvd vpsrlvq vpsravd vpsravq vpaddd vpaddq vpsubd vpsubq vpbroadcastd vpbroadcastq vbroadcastss vbroadcastsd
vmovd vmovq vpmulld vpmuldq vpmuludq vpmaxsd vpmaxsq vpmaxud vpmaxuq vpminsd vpminsq vpminud vpminuq vpblendmd vpblendmq vblendmps vblendmpd
vpslld vpsllq vpsrld vpsrlq vpsrad vpsraq vprold vprolq vprord vprorq vprolvd vprolvq vprorvd vprorvq vpshufd vpunpckldq vpunpckhdq vpunpcklqdq vpunpckhqdq
vmovdqa vmovdqu vmovaps vmovups vmovapd vmovupd vmovntdq vmovntdqa vpabsd vpabsq vpmovzxbd vpmovzxbq vpmovzxwd vpmovzxwq vpmovzxdq vpmovsxbd vpmovsxbq vpmovsxwd vpmovsxwq vpmovsxdq
valignd valignq vpxor vpand vpor vpandn vmovss vmovsd vmovddup vmovshdup vmovsldup vshufps vshufpd vunpcklps vunpckhps vaddps vmulps vsubps""".split())
EVEX_SPECIAL = {"vgf2p8affineqb": "GFNI", "vgf2p8affineinvqb": "GFNI", "vgf2p8mulb": "GFNI",
                "vpclmulqdq": "VPCLMUL", "vpclmullqlqdq": "VPCLMUL", "vpclmulhqlqdq": "VPCLMUL", "vpclmullqhqdq": "VPCLMUL", "vpclmulhqhqdq": "VPCLMUL",
                "vpcompressb": "VBMI2", "vpcompressw": "VBMI2", "vpexpandb": "VBMI2", "vpexpandw": "VBMI2", "vpshldd": "VBMI2", "vpshldq": "VBMI2",
                "vpshldw": "VBMI2", "vpshrdd": "VBMI2", "vpshrdq": "VBMI2", "vpshrdw": "VBMI2", "vpshldvd": "VBMI2", "vpshldvq": "VBMI2", "vpshldvw": "VBMI2",
                "vpshrdvd": "VBMI2", "vpshrdvq": "VBMI2", "vpshrdvw": "VBMI2",
                "vaesenc": "VAES", "vaesenclast": "VAES", "vaesdec": "VAES", "vaesdeclast": "VAES",
                "vpdpbusd": "VNNI", "vpdpbusds": "VNNI", "vpdpwssd": "VNNI", "vpdpwssds": "VNNI",
                "vpopcntb": "BITALG", "vpopcntw": "BITALG", "vpshufbitqmb": "BITALG", "vpopcntd": "VPOPCNT", "vpopcntq": "VPOPCNT"}
# VEX-encoded opmask instructions
K_F = set("kmovw kandw kandnw knotw korw kxorw kxnorw kshiftlw kshiftrw kortestw kunpckbw".split())
K_DQ = set("kmovb kandb kandnb knotb korb kxorb kxnorb kshiftlb kshiftrb kortestb ktestb ktestw kaddb kaddw".split())
K_BW = set("""kmovd kmovq kandd kandq kandnd kandnq knotd knotq kord korq kxord kxorq kxnord kxnorq kshiftld kshiftlq kshiftrd kshiftrq
kortestd kortestq ktestd ktestq kaddd kaddq kunpckwd kunpckdq""".split())
# VEX: AVX2 regardless of width
VEX_AVX2_ALWAYS = set("""vpbroadcastb vpbroadcastw vpbroadcastd vpbroadcastq vbroadcasti128 vextracti128 vinserti128 vperm2i128 vpermd vpermq vpermps vpermpd
vpblendd vpsllvd vpsllvq vpsrlvd vpsrlvq vpsravd vpgatherdd vpgatherdq vpgatherqd vpgatherqq vgatherdps vgatherdpd vgatherqps vgatherqpd
vpmaskmovd vpmaskmovq""".split())
VEX_AVX_FLOATISH = set("""vmovdqa vmovdqu vmovaps vmovups vmovapd vmovupd vmovntdq vmovntps vmovntpd vxorps vxorpd vandps vandpd vandnps vandnpd vorps vorpd
vzeroupper vzeroall vptest vtestps vtestpd vperm2f128 vpermilps vpermilpd vinsertf128 vextractf128 vbroadcastf128 vbroadcastss vbroadcastsd
vshufps vshufpd vunpcklps vunpckhps vunpcklpd vunpckhpd vblendps vblendpd vblendvps vblendvpd vmovd vmovq vmovss vmovsd vmovddup vmovshdup vmovsldup
vmaskmovps vmaskmovpd vlddqu vmovmskps vmovmskpd vaddps vmulps vsubps vcvtdq2ps vcvtps2dq vmovhlps vmovlhps vmovhps vmovlps""".split())
VEX_SPECIAL = {"vgf2p8affineqb": "GFNI", "vgf2p8affineinvqb": "GFNI", "vgf2p8mulb": "GFNI",
               "vaesenc": "AESNI", "vaesenclast": "AESNI", "vaesdec": "AESNI", "vaesdeclast": "AESNI"}
PCLMUL_MN = set("pclmulqdq pclmullqlqdq pclmulhqlqdq pclmullqhqdq pclmulhqhqdq".split())
VPCLMUL_MN = set("vpclmulqdq vpclmullqlqdq vpclmulhqlqdq vpclmullqhqdq vpclmulhqhqdq".split())
PREFIXES = set("rep repz repnz repe repne lock notrack bnd data16 cs ds es fs gs ss addr32".split())


class Unknown(Exception):
    pass


def classify(mn, ops, raw):
    """returns feature bitmask for one instruction"""
    b = [x for x in raw]
    i = 0
    while i < len(b) and b[i] in (0x2e, 0x3e, 0x26, 0x36, 0x64, 0x65, 0x67):
        i += 1
    first = b[i] if i < len(b) else 0
    # legacy SIMD prefixes / REX come before opcode for legacy encodings only
    enc = "legacy"
    if first == 0x62:
        enc = "evex"
    elif first in (0xc4, 0xc5):
        enc = "vex"
    f = 0
    if enc == "evex":
        f |= FBIT["AVX512F"]
        if "zmm" not in ops and ("ymm" in ops or "xmm" in ops):
            # scalar EVEX forms do not need VL; the library has none that matter except vmovd/vmovq/vpextr/vpinsr (xmm, no VL needed)
            if mn not in ("vmovd", "vmovq", "vpextrd", "vpextrq", "vpextrb", "vpextrw", "vpinsrb", "vpinsrw", "vpinsrd", "vpinsrq", "vmovss", "vmovsd"):
                f |= FBIT["AVX512VL"]
        if mn in EVEX_SPECIAL:
            f |= FBIT[EVEX_SPECIAL[mn]]
        elif mn in EVEX_BW:
            f |= FBIT["AVX512BW"]
        elif mn in EVEX_DQ:
            f |= FBIT["AVX512DQ"]
        elif mn in EVEX_CD:
            f |= FBIT["AVX512CD"]
        elif mn in EVEX_F:
            pass
        else:
            raise Unknown("EVEX " + mn)
        return f
    if enc == "vex":
        if mn in K_F:
            return FBIT["AVX512F"]
        if mn in K_DQ:
            return FBIT["AVX512F"] | FBIT["AVX512DQ"]
        if mn in K_BW:
            return FBIT["AVX512F"] | FBIT["AVX512BW"]
        if mn in BMI1:
            return FBIT["BMI1"]
        if mn in BMI2:
            return FBIT["BMI2"]
        f |= FBIT["AVX"]
        if mn in VPCLMUL_MN:
            return f | (FBIT["VPCLMUL"] if "ymm" in ops else FBIT["PCLMUL"])
        if mn in VEX_SPECIAL:
            return f | FBIT[VEX_SPECIAL[mn]]
        if mn in VEX_AVX2_ALWAYS:
            return f | FBIT["AVX2"]
        if mn in ("vbroadcastss", "vbroadcastsd"):
            # register source form is AVX2, memory source AVX
            src = ops.split(",")[-1]
            return f | (FBIT["AVX2"] if "xmm" in src else 0)
        if mn in VEX_AVX_FLOATISH:
            return f
        if mn == "vmovntdqa":
            return f | (FBIT["AVX2"] if "ymm" in ops else 0)
        if mn.startswith("vp") or mn in ("vmpsadbw",):
            # VEX integer SIMD: 128-bit is AVX, 256-bit is AVX2
            base = mn[1:]
            if not (base in SSE2 or base in SSSE3 or base in SSE41 or base in SSE42 or base in
                    ("pcmpeqq", "pblendvb", "pblendw", "psadbw", "pmaddwd", "pshufb", "pmovmskb", "palignr", "packusdw")):
                raise Unknown("VEX " + mn)
            return f | (FBIT["AVX2"] if "ymm" in ops else 0)
        if mn.startswith("vfmadd") or mn.startswith("vfmsub") or mn.startswith("vfnm"):
            return f | FBIT["FMA"]
        raise Unknown("VEX " + mn)
    # legacy encodings
    if mn in GPR or mn.startswith("cmov") or mn.startswith("set") or (mn.startswith("j") and len(mn) <= 5):
        return 0
    if mn in SSE2:
        return 0
    if mn in SSE3:
        return FBIT["SSE3"]
    if mn in SSSE3:
        return FBIT["SSSE3"]
    if mn in SSE41:
        return FBIT["SSE41"]
    if mn in SSE42:
        return FBIT["SSE42"]
    if mn in PCLMUL_MN:
        return FBIT["PCLMUL"]
    if mn == "popcnt":
        return FBIT["POPCNT"]
    if mn == "lzcnt":
        return FBIT["LZCNT"]
    if mn == "tzcnt":
        return FBIT["TZCNT_SOFT"]
    if mn == "movbe":
        return FBIT["MOVBE"]
    if mn.startswith("aes"):
        return FBIT["AESNI"]
    if mn.startswith("gf2p8"):
        return FBIT["GFNI"]
    raise Unknown("legacy " + mn)


LINE = re.compile(r"^\s*([0-9a-f]+):\t((?:[0-9a-f]{2} )+)\s*\t?(.*)$")
SYMH = re.compile(r"^([0-9a-f]+) <([^>]+)>:$")
RELOC = re.compile(r"^\s*([0-9a-f]+): (R_X86_64_\w+)\s+(\S+?)([-+]0x[0-9a-f]+)?$")
SECT = re.compile(r"^Disassembly of section (\S+):")


def analyse_object(obj, is_asm):
    """returns {func: {"req": mask, "calls": [names], "unknown": [..], "indirect": n}}"""
    out = subprocess.run(["objdump", "-dr", "-M", "intel", "--insn-width=16", obj], stdout=subprocess.PIPE, text=True).stdout
    nm = subprocess.run(["nm", "--defined-only", obj], stdout=subprocess.PIPE, text=True).stdout
    funcs = {}
    for l in nm.splitlines():
        p = l.split()
        if len(p) == 3 and (p[1] == "T" or (p[1] == "t" and not is_asm)):
            funcs.setdefault(p[2], int(p[0], 16))
    # instruction map per section
    sect = None
    insn = {}   # (sect, addr) -> dict
    order = {}  # sect -> sorted addrs
    symaddr = {}  # (sect, addr) -> [names]
    last = None
    for l in out.splitlines():
        m = SECT.match(l)
        if m:
            sect = m.group(1); last = None; continue
        m = SYMH.match(l)
        if m:
            symaddr.setdefault((sect, int(m.group(1), 16)), []).append(m.group(2)); continue
        m = LINE.match(l)
        if m:
            addr = int(m.group(1), 16)
            raw = bytes(int(x, 16) for x in m.group(2).split())
            text = m.group(3).strip()
            if text == "" and last is not None:
                # continuation of raw bytes of the previous instruction
                insn[last]["raw"] += raw
                insn[last]["size"] += len(raw)
                continue
            text = text.split("#")[0].strip()
            parts = text.split(None, 1)
            mn = parts[0] if parts else ""
            ops = parts[1] if len(parts) > 1 else ""
            while mn in PREFIXES and ops:
                parts = ops.split(None, 1)
                mn = parts[0]; ops = parts[1] if len(parts) > 1 else ""
            last = (sect, addr)
            insn[last] = dict(mn=mn, ops=ops, raw=raw, size=len(raw), reloc=None)
            continue
        m = RELOC.match(l)
        if m and last is not None:
            insn[last]["reloc"] = m.group(3)
    for (s, a) in insn:
        order.setdefault(s, []).append(a)
    for s in order:
        order[s].sort()
    nxt = {}
    for s, lst in order.items():
        for i, a in enumerate(lst):
            nxt[(s, a)] = lst[i + 1] if i + 1 < len(lst) else None
    # which section/addr is each function
    fpos = {}
    for (s, a), names in symaddr.items():
        for n in names:
            if n in funcs and s and s.startswith(".text"):
                fpos[n] = (s, a)
    func_starts = {}
    for n, (s, a) in fpos.items():
        func_starts.setdefault(s, set()).add(a)
    res = {}
    for fn, (s, a0) in fpos.items():
        req = 0; calls = set(); unknown = []; indirect = 0; seen = set(); work = [a0]; ninsn = 0; soft = []
        if not is_asm:
            # linear sweep to the next function start
            ends = sorted(x for x in func_starts[s] if x > a0)
            end = ends[0] if ends else None
            a = a0
            work = []
            while a is not None and (end is None or a < end):
                work.append(a); a = nxt.get((s, a))
            lin = True
        else:
            lin = False
        while work:
            a = work.pop()
            while a is not None and (s, a) not in seen:
                if (s, a) not in insn:
                    unknown.append("jump into the middle of an instruction at %x" % a); break
                seen.add((s, a))
                I = insn[(s, a)]
                mn, ops = I["mn"], I["ops"]
                ninsn += 1
                if mn == "(bad)" or mn.startswith("."):
                    unknown.append("undecodable bytes reached at %x" % a); break
                try:
                    fm = classify(mn, ops, I["raw"])
                    req |= fm
                    if fm & FBIT["TZCNT_SOFT"]:
                        soft.append("%x" % a)
                except Unknown as e:
                    unknown.append("%s at %x (%s %s)" % (e, a, mn, ops))
                tgt = None
                m = re.search(r"\b([0-9a-f]+) <", ops)
                if mn == "call":
                    if I["reloc"]:
                        calls.add(I["reloc"])
                    elif m:
                        t = int(m.group(1), 16)
                        for n2 in symaddr.get((s, t), []):
                            calls.add(n2)
                    else:
                        indirect += 1
                elif mn == "jmp" or (mn.startswith("j") and mn not in ("jmp",)) or mn.startswith("loop"):
                    if I["reloc"]:
                        calls.add(I["reloc"])  # tail call / jump to another object
                    elif m and not ("[" in ops):
                        tgt = int(m.group(1), 16)
                    elif mn == "jmp":
                        indirect += 1
                    if tgt is not None and not lin:
                        work.append(tgt)
                if lin:
                    break  # linear mode: each work item is exactly one instruction
                if mn in ("ret", "jmp", "hlt", "ud2", "retf"):
                    break
                a = nxt.get((s, a))
        swept = 0
        if is_asm and indirect:
            # computed jump inside an asm kernel: targets are unknown to the descent, so additionally sweep the whole
            # symbol range linearly; bytes that do not decode or do not classify there are data/padding and are counted, not trusted
            ends = sorted(x for x in func_starts[s] if x > a0)
            end = ends[0] if ends else None
            a = a0
            while a is not None and (end is None or a < end):
                I = insn.get((s, a))
                if I and (s, a) not in seen and I["mn"] != "(bad)":
                    try:
                        req |= classify(I["mn"], I["ops"], I["raw"]); swept += 1
                    except Unknown:
                        pass
                a = nxt.get((s, a))
        res[fn] = dict(req=req, calls=sorted(calls), unknown=unknown, indirect=indirect, ninsn=ninsn + swept, asm=is_asm, tzcnt=len(soft), swept=swept)
    return res


def main(bdir):
    info = json.load(open(os.path.join(bdir, "info.json")))
    objs = []
    for s in info["csrc"]:
        objs.append((os.path.join(bdir, s.replace("/", "_") + ".o"), False))
    for s in info["asrc"]:
        objs.append((os.path.join(bdir, s.replace("/", "_") + ".o"), True))
    allf = {}
    with concurrent.futures.ThreadPoolExecutor(16) as ex:
        for (o, isasm), r in zip(objs, ex.map(lambda x: analyse_object(*x), objs)):
            for k, v in r.items():
                v["obj"] = os.path.basename(o)
                allf[k] = v
    slots = set(info["slots"])
    # closure over direct callees (not through dispatch slots: those are resolved separately)
    def closure(fn, stack=()):
        v = allf[fn]
        if "creq" in v:
            return v["creq"]
        if fn in stack:
            return v["req"]
        r = v["req"]
        for c in v["calls"]:
            if c in slots or c not in allf or c.endswith("_dispatch_init") or c in ("verif_cpuid", "verif_xgetbv"):
                continue
            r |= closure(c, stack + (fn,))
        v["creq"] = r
        return r
    bad = []
    for fn in list(allf):
        closure(fn)
        if allf[fn]["unknown"]:
            bad.append((fn, allf[fn]["unknown"][:3]))
    json.dump({"features": FEATS, "functions": allf}, open(os.path.join(bdir, "isareq.json"), "w"))
    with open(os.path.join(bdir, "isareq.c"), "w") as f:
        f.write("/* generated by isaclass.py */\n#include \"isareq.h\"\n")
        f.write("const char *isa_feat_name[] = {%s, 0};\n" % ",".join('"%s"' % x for x in FEATS))
        f.write("struct isa_req isa_reqs[] = {\n")
        for fn in sorted(allf):
            v = allf[fn]
            f.write("  {\"%s\", 0x%xu, %d, %d, %d, %d},\n" % (fn, v["creq"], 1 if v["asm"] else 0, v["ninsn"], v["tzcnt"], len(v["unknown"])))
        f.write("  {0,0,0,0,0,0}};\n")
    if bad:
        sys.stderr.write("isaclass: unclassified instructions (fail closed):\n")
        for fn, u in bad[:40]:
            sys.stderr.write("  %s: %s\n" % (fn, "; ".join(u)))
        return 2
    return 0


if __name__ == "__main__":
    sys.exit(main(sys.argv[1]))
