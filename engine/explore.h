/* EXPLORE - explicit-state exploration of a REAL transition function (DESIGN 2.4).
 * The model supplies: an image (byte snapshot of all caller-owned context + harness cursor), a key
 * (hash of the normalised image), and step(choice) which performs one real API call.
 * Search: DFS with an explicit stack of snapshots and a visited set of 128-bit keys. */
#ifndef EXPLORE_H
#define EXPLORE_H
#include "verif.h"

struct ex_model {
	size_t image_size;
	void (*save)(uint8_t *dst);
	void (*restore)(const uint8_t *src);
	void (*key)(uint64_t k[2]);
	int nchoices;
	/* returns EX_NEXT (new state reached), EX_TERMINAL (terminal state reached; checked by the model),
	 * EX_SKIP (choice not applicable in this state), EX_VIOLATION (already reported) */
	int (*step)(int choice);
	void (*on_state)(int depth); /* optional: called once for every newly discovered state (model may run a progress check) */
	const char *(*describe_choice)(int choice);
	int (*skip)(const uint8_t *img, int choice); /* optional: decide EX_SKIP from the saved image without restoring */
};
enum { EX_NEXT, EX_TERMINAL, EX_SKIP, EX_VIOLATION };

struct ex_stats { uint64_t states, transitions, terminals, dedup_hits, max_depth, violations, capped; };

struct ex_kset { uint64_t (*t)[2]; size_t cap, n; };
static int ex_kadd(struct ex_kset *s, const uint64_t k[2])
{
	if (s->n * 10 >= s->cap * 7) {
		size_t nc = s->cap ? s->cap * 2 : 1 << 14;
		uint64_t(*nt)[2] = calloc(nc, 16);
		if (!nt)
			v_broken("explore: out of memory for the visited set (%zu states)", s->n);
		for (size_t i = 0; i < s->cap; i++)
			if (s->t[i][0] | s->t[i][1]) {
				size_t j = (s->t[i][0] * 0x9e3779b97f4a7c15ull) >> 17 & (nc - 1);
				while (nt[j][0] | nt[j][1])
					j = (j + 1) & (nc - 1);
				nt[j][0] = s->t[i][0];
				nt[j][1] = s->t[i][1];
			}
		free(s->t);
		s->t = nt;
		s->cap = nc;
	}
	uint64_t a = k[0], b = k[1];
	if (!(a | b))
		a = 1;
	size_t j = (a * 0x9e3779b97f4a7c15ull) >> 17 & (s->cap - 1);
	while (s->t[j][0] | s->t[j][1]) {
		if (s->t[j][0] == a && s->t[j][1] == b)
			return 0;
		j = (j + 1) & (s->cap - 1);
	}
	s->t[j][0] = a;
	s->t[j][1] = b;
	s->n++;
	return 1;
}
static void ex_kfree(struct ex_kset *s)
{
	free(s->t);
	memset(s, 0, sizeof *s);
}

/* trace of the path to the current state (choices), for replay files */
#define EX_MAXDEPTH 4096
static int ex_path[EX_MAXDEPTH];
static int ex_depth;

static const char *ex_path_str(const struct ex_model *m)
{
	static char buf[4096];
	buf[0] = 0;
	for (int i = 0; i < ex_depth && strlen(buf) < sizeof buf - 64; i++)
		snprintf(buf + strlen(buf), sizeof buf - strlen(buf), "%s%s", i ? " ; " : "", m->describe_choice ? m->describe_choice(ex_path[i]) : "");
	return buf;
}

/* explores from the model's CURRENT state. max_states: cap (0 = none). */
static void ex_run(const struct ex_model *m, struct ex_stats *st, uint64_t max_states)
{
	struct frame { uint8_t *img; int next; } *stack = calloc(EX_MAXDEPTH, sizeof *stack);
	struct ex_kset seen = { 0 };
	uint64_t k[2];
	int sp = 0;
	m->key(k);
	ex_kadd(&seen, k);
	st->states++;
	stack[0].img = malloc(m->image_size);
	m->save(stack[0].img);
	stack[0].next = 0;
	ex_depth = 0;
	if (m->on_state)
		m->on_state(0);
	while (sp >= 0) {
		struct frame *f = &stack[sp];
		if (f->next >= m->nchoices) {
			free(f->img);
			sp--;
			continue;
		}
		int c = f->next++;
		if (m->skip && m->skip(f->img, c))
			continue;
		m->restore(f->img);
		ex_depth = sp;
		ex_path[sp] = c;
		ex_depth = sp + 1;
		int r = m->step(c);
		if (r == EX_SKIP)
			continue;
		st->transitions++;
		if (r == EX_VIOLATION) {
			st->violations++;
			if (st->violations > 20)
				break;
			continue;
		}
		if (r == EX_TERMINAL) {
			st->terminals++;
			continue;
		}
		m->key(k);
		if (!ex_kadd(&seen, k)) {
			st->dedup_hits++;
			continue;
		}
		st->states++;
		if ((uint64_t)(sp + 1) > st->max_depth)
			st->max_depth = sp + 1;
		if (m->on_state)
			m->on_state(sp + 1);
		if ((max_states && st->states >= max_states) || sp + 2 >= EX_MAXDEPTH || ((st->states & 1023) == 0 && v_deadline_hit())) {
			st->capped = 1;
			break;
		}
		sp++;
		stack[sp].img = malloc(m->image_size);
		if (!stack[sp].img)
			v_broken("explore: out of memory for the snapshot stack");
		m->save(stack[sp].img);
		stack[sp].next = 0;
	}
	while (sp >= 0)
		free(stack[sp--].img);
	free(stack);
	ex_kfree(&seen);
}
#endif
