/* Common harness runtime: sharding, counters, violations/known findings, guard arena,
 * fault capture, simulated CPU levels, input families. See DESIGN.md section 2. */
#ifndef VERIF_H
#define VERIF_H
#include <stdint.h>
#include <stddef.h>
#include <stdio.h>
#include <string.h>
#include <stdlib.h>
#include <setjmp.h>
#include "slots.h"

/* ---------- run context ---------- */
extern const char *v_prop;   /* property id */
extern int v_shard, v_nshards;
extern int v_thorough;       /* tier */
extern long v_seed;
extern const char *v_replay; /* replay file or NULL */
extern const char *v_part;   /* optional sub-part selector (--part) */
void v_init(int argc, char **argv, const char *prop);
int v_finish(void);          /* writes the shard result file; returns process exit code */
int v_deadline_hit(void);    /* true once the global deadline passed (sets exhaustive=false) */
double v_now(void);
static inline int v_mine(uint64_t idx) { return (int)(idx % (uint64_t)v_nshards) == v_shard; }

/* ---------- counters / evidence ---------- */
void v_count(const char *name, int64_t delta);  /* named counters, summed over shards */
void v_max(const char *name, int64_t val);      /* named maxima */
void v_eval(void);                              /* evaluations++ */
void v_eval_n(int64_t n);
void v_nontrivial(uint64_t key);                /* distinct non-trivial case (set of 64-bit keys) */
void v_sample(const char *fmt, ...);            /* keep up to a few samples (written to evidence) */
void v_note(const char *fmt, ...);              /* assumption / note string for the evidence */
void v_not_exhaustive(const char *why);
void v_outcome(uint64_t h);                     /* distinct terminal observations */

/* ---------- violations ---------- */
/* key: stable case key (entry point + configuration), used to match known_findings.txt.
 * detail: free text + replay description. Returns 1 if it was a known finding. */
int v_violation(const char *key, const char *fmt, ...) __attribute__((format(printf, 2, 3)));
void v_broken(const char *fmt, ...) __attribute__((format(printf, 1, 2), noreturn)); /* exit 2 */
extern int v_nviol;

/* ---------- hashing ---------- */
uint64_t v_hash(const void *p, size_t n, uint64_t seed);
static inline uint64_t v_mix(uint64_t a, uint64_t b)
{
	uint64_t x = (a + 0x9e3779b97f4a7c15ull) * 0xff51afd7ed558ccdull ^ (b + 0x632be59bd9b4e019ull) * 0xc4ceb9fe1a85ec53ull;
	x ^= x >> 31;
	x *= 0xd6e8feb86659fd93ull;
	x ^= x >> 29;
	return x;
}

/* ---------- guard arena ---------- */
/* Each slot: [1 MiB PROT_NONE][data pages][1 MiB PROT_NONE]. g_end(): last byte directly before
 * the inaccessible band. g_start(): first byte directly after one. The rest of the data pages is
 * filled with a canary that g_check() verifies. g_reset() recycles all slots. */
enum { G_END = 0, G_START = 1 };
void *g_alloc(size_t size, int placement);      /* placement G_END / G_START */
void *g_alloc_off(size_t size, size_t off);     /* start+off (off<4096): alignment sweeps */
void *g_alloc_end_aligned(size_t size, size_t align); /* end-flush rounded down to align */
int g_check(void);                              /* 0 ok; else number of damaged canary bytes */
void g_reset(void);
void g_revoke(void *p);                         /* make the slot of p PROT_NONE until g_reset */
int g_owns(void *p);                           /* 1 if p lies in a live arena slot */
void g_readonly(void *p, int ro);               /* slot PROT_READ / PROT_READ|WRITE */
const char *g_last_damage(void);
void *g_persist(size_t size, int placement);       /* guarded, never recycled */
extern size_t g_canary_span;
extern int g_strict_free;                          /* recycled slots become PROT_NONE until reused */

/* ---------- fault capture ---------- */
extern sigjmp_buf v_fault_jmp;
extern volatile int v_fault_armed;
extern volatile uintptr_t v_fault_addr, v_fault_rip;
extern volatile int v_fault_write;
/* usage: if (V_TRY()) { call } else { fault happened: v_fault_addr/rip set }  V_END(); */
#define V_TRY() (v_fault_armed = 1, sigsetjmp(v_fault_jmp, 1) == 0)
#define V_END() (v_fault_armed = 0)
const char *v_sym(uintptr_t addr);
const char *v_fault_desc(void);      /* human-readable description of the last captured fault */
int wm_owns(uintptr_t a);
extern volatile int v_fault_sig;  /* symbolise an address of this executable ("sym+0x12") */

/* ---------- library-owned writable memory (write monitor) ---------- */
void wm_range(uintptr_t *lo, uintptr_t *hi);
void wm_arm(void);      /* warm every slot (caller's job), then mprotect(PROT_READ) */
void wm_disarm(void);
extern int wm_armed;

/* ---------- simulated CPU ---------- */
struct simcpu {
	uint32_t passthrough;
	uint32_t eax1, ebx1, ecx1, edx1;
	uint32_t eax7, ebx7, ecx7, edx7;
	uint32_t xcr0_lo, xcr0_hi;
	uint32_t ncpuid, nxgetbv;
	uint32_t maxleaf;
};
extern struct simcpu verif_simcpu;
enum { CPU_BASE, CPU_SSE, CPU_AVX, CPU_AVX2, CPU_AVX512, CPU_AVX512G2, CPU_AVX2G2, CPU_NLEVELS, CPU_HOST = 100 };
extern const char *cpu_level_name[];
void cpu_set_level(int level);   /* loads verif_simcpu and resets every dispatch slot */
void cpu_reset_slots(void);
void cpu_host(struct simcpu *out); /* true cpuid/xgetbv values of this machine */
const char *cpu_selected(const char *slotname); /* symbol name currently in a slot (after resolve) */
void cpu_resolve_all(void);      /* run every resolver once (no data-plane call) */

#define B(n) (1u << (n))
#define C1_SSE3 B(0)
#define C1_PCLMUL B(1)
#define C1_SSSE3 B(9)
#define C1_SSE41 B(19)
#define C1_SSE42 B(20)
#define C1_POPCNT B(23)
#define C1_OSXSAVE B(27)
#define C1_AVX B(28)
#define C7B_BMI1 B(3)
#define C7B_AVX2 B(5)
#define C7B_BMI2 B(8)
#define C7B_AVX512F B(16)
#define C7B_AVX512DQ B(17)
#define C7B_AVX512CD B(28)
#define C7B_AVX512BW B(30)
#define C7B_AVX512VL B(31)
#define C7C_VBMI2 B(6)
#define C7C_GFNI B(8)
#define C7C_VAES B(9)
#define C7C_VPCLMUL B(10)
#define C7C_VNNI B(11)
#define C7C_BITALG B(12)
#define C7C_VPOPCNT B(14)

/* ---------- register-poisoned calls (engine/pcall.S) ---------- */
extern uint64_t v_pcall(void *fn, uint64_t a1, uint64_t a2, uint64_t a3, uint64_t a4, uint64_t a5, uint64_t a6, uint64_t a7);
extern int v_pcall_mode, v_pcall_level; /* mode 0 plain / 1 all-ones / 2 a5; level from the REAL cpu (0 sse, 1 avx, 2 avx512), set by v_init */
#define v_pcall_n(fn, a, b, c, d, e, f, g, ...) v_pcall(fn, (uint64_t)(a), (uint64_t)(b), (uint64_t)(c), (uint64_t)(d), (uint64_t)(e), (uint64_t)(f), (uint64_t)(g))
#define PCALL(fn, ...) v_pcall_n((void *)(fn), __VA_ARGS__, 0, 0, 0, 0, 0, 0, 0)

/* ---------- families ---------- */
uint64_t xs_next(uint64_t *s);
void fill_xorshift(uint8_t *p, size_t n, uint64_t seed);
void fill_pattern(uint8_t *p, size_t n, int cls, uint64_t seed); /* content classes of SHAPES */
enum { PAT_ZERO, PAT_FF, PAT_ONE, PAT_P2, PAT_P3, PAT_P5, PAT_P258, PAT_P259, PAT_RAMP, PAT_XS, PAT_TEXT, PAT_LOG, PAT_N }; /* PAT_LOG: log-file-like lines from a small vocabulary with counters and a few random characters: irregular match lengths and distances, unlike the strictly periodic PAT_TEXT */
extern const char *pat_name[];
/* TINY(sigma,n): enumerate all strings over sigma of length<=n: idx -> string; returns length or -1 */
int tiny_string(const uint8_t *sigma, int nsig, int maxlen, uint64_t idx, uint8_t *out);
uint64_t tiny_count(int nsig, int maxlen);

/* hex helper for samples/replays */
const char *v_hex(const uint8_t *p, size_t n); /* static ring buffer */

#endif
