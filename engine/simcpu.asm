; verif_cpuid / verif_xgetbv: drop-in replacements for the cpuid / xgetbv *instructions*
; inside the real resolvers. They write exactly the registers the instruction writes
; (eax, ebx, ecx, edx / eax, edx; upper halves zeroed as a 32-bit write would) and
; preserve everything else including flags? -- cpuid/xgetbv leave flags unchanged, so do we.
default rel
section .data
global verif_simcpu
; struct simcpu { u32 passthrough; u32 eax1, ebx1, ecx1, edx1; u32 eax7, ebx7, ecx7, edx7; u32 xcr0_lo, xcr0_hi; u32 ncpuid, nxgetbv; u32 maxleaf }
verif_simcpu:
	dd 1            ; +0  passthrough (1 = execute the real instruction)
	dd 0,0,0,0      ; +4  leaf 1  eax ebx ecx edx
	dd 0,0,0,0      ; +20 leaf 7.0 eax ebx ecx edx
	dd 0,0          ; +36 xcr0 lo hi
	dd 0,0          ; +44 counters: cpuid calls, xgetbv calls
	dd 7            ; +52 max basic leaf

section .text
global verif_cpuid
global verif_xgetbv
verif_cpuid:
	pushfq
	push	rsi
	lea	rsi, [verif_simcpu]
	inc	dword [rsi+44]
	cmp	dword [rsi], 0
	jne	.real
	cmp	eax, 1
	je	.leaf1
	cmp	eax, 7
	je	.leaf7
	cmp	eax, 0
	je	.leaf0
	xor	eax, eax
	xor	ebx, ebx
	xor	ecx, ecx
	xor	edx, edx
	jmp	.done
.leaf0:
	mov	eax, [rsi+52]
	mov	ebx, 0x756e6547
	mov	edx, 0x49656e69
	mov	ecx, 0x6c65746e
	jmp	.done
.leaf1:
	mov	eax, [rsi+4]
	mov	ebx, [rsi+8]
	mov	ecx, [rsi+12]
	mov	edx, [rsi+16]
	jmp	.done
.leaf7:
	test	ecx, ecx
	jnz	.leaf7sub
	mov	eax, [rsi+20]
	mov	ebx, [rsi+24]
	mov	ecx, [rsi+28]
	mov	edx, [rsi+32]
	jmp	.done
.leaf7sub:
	xor	eax, eax
	xor	ebx, ebx
	xor	ecx, ecx
	xor	edx, edx
	jmp	.done
.real:
	cpuid
.done:
	pop	rsi
	popfq
	ret

verif_xgetbv:
	pushfq
	push	rsi
	lea	rsi, [verif_simcpu]
	inc	dword [rsi+48]
	cmp	dword [rsi], 0
	jne	.real
	; architecturally xgetbv #UDs when CR4.OSXSAVE=0 (== CPUID.1:ECX.OSXSAVE=0): record it
	test	dword [rsi+12], (1<<27)
	jnz	.ok
	or	dword [rsi+48], 0x80000000	; fault marker: xgetbv executed without OSXSAVE
.ok:
	mov	eax, [rsi+36]
	mov	edx, [rsi+40]
	jmp	.done
.real:
	xgetbv
.done:
	pop	rsi
	popfq
	ret
