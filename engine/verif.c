/* Common harness runtime. See verif.h / DESIGN.md section 2. */
#define _GNU_SOURCE
#include "verif.h"
#include <stdarg.h>
#include <signal.h>
#include <sys/mman.h>
#include <sys/time.h>
#include <time.h>
#include <unistd.h>
#include <fcntl.h>
#include <elf.h>
#include <ucontext.h>
#include <errno.h>

const char *v_prop = "C00";
int v_shard = 0, v_nshards = 1, v_thorough = 0;
long v_seed = 0;
const char *v_replay = NULL;
const char *v_part = NULL;
static const char *v_out = NULL;
static const char *v_known_path = "/verif/known_findings.txt";
static const char *v_replay_dir = "/verif/replay";
static double v_deadline = 0; /* absolute time */
static int v_dl_hit = 0;
static int v_exhaustive = 1;
int v_nviol = 0;
static int v_nknown = 0;
static double v_t0;

double v_now(void)
{
	struct timespec ts;
	clock_gettime(CLOCK_MONOTONIC, &ts);
	return ts.tv_sec + ts.tv_nsec * 1e-9;
}

int v_deadline_hit(void)
{
	if (v_dl_hit)
		return 1;
	if (v_deadline > 0 && v_now() > v_deadline) {
		v_dl_hit = 1;
		v_not_exhaustive("global deadline reached");
		return 1;
	}
	return 0;
}

/* ---------- counters ---------- */
#define MAXC 96
static struct { char name[48]; int64_t val; int ismax; } ctr[MAXC];
static int nctr;
static int64_t *ctr_get(const char *name, int ismax)
{
	for (int i = 0; i < nctr; i++)
		if (!strcmp(ctr[i].name, name))
			return &ctr[i].val;
	if (nctr >= MAXC)
		v_broken("too many counters");
	snprintf(ctr[nctr].name, sizeof ctr[nctr].name, "%s", name);
	ctr[nctr].val = 0;
	ctr[nctr].ismax = ismax;
	return &ctr[nctr++].val;
}
void v_count(const char *name, int64_t d) { *ctr_get(name, 0) += d; }
void v_max(const char *name, int64_t v)
{
	int64_t *p = ctr_get(name, 1);
	if (v > *p)
		*p = v;
}
static int64_t n_eval;
void v_eval(void) { n_eval++; }
void v_eval_n(int64_t n) { n_eval += n; }

/* open addressing set of 64-bit keys */
struct kset { uint64_t *t; size_t cap, n; };
static struct kset nt_set, oc_set;
static int kset_add(struct kset *s, uint64_t k)
{
	if (k == 0)
		k = 1;
	if (s->n * 2 >= s->cap) {
		size_t nc = s->cap ? s->cap * 2 : 1 << 12;
		uint64_t *nt = calloc(nc, 8);
		if (!nt)
			v_broken("oom kset");
		for (size_t i = 0; i < s->cap; i++)
			if (s->t[i]) {
				size_t j = (s->t[i] * 0x9e3779b97f4a7c15ull) >> 20 & (nc - 1);
				while (nt[j])
					j = (j + 1) & (nc - 1);
				nt[j] = s->t[i];
			}
		free(s->t);
		s->t = nt;
		s->cap = nc;
	}
	size_t j = (k * 0x9e3779b97f4a7c15ull) >> 20 & (s->cap - 1);
	while (s->t[j]) {
		if (s->t[j] == k)
			return 0;
		j = (j + 1) & (s->cap - 1);
	}
	s->t[j] = k;
	s->n++;
	return 1;
}
void v_nontrivial(uint64_t key) { kset_add(&nt_set, key); }
void v_outcome(uint64_t h) { kset_add(&oc_set, h); }

#define MAXS 6
static char *samples[MAXS];
static int nsamples;
void v_sample(const char *fmt, ...)
{
	if (nsamples >= MAXS)
		return;
	char buf[1024];
	va_list ap;
	va_start(ap, fmt);
	vsnprintf(buf, sizeof buf, fmt, ap);
	va_end(ap);
	samples[nsamples++] = strdup(buf);
}
#define MAXN 24
static char *notes[MAXN];
static int nnotes;
void v_note(const char *fmt, ...)
{
	char buf[1024];
	va_list ap;
	va_start(ap, fmt);
	vsnprintf(buf, sizeof buf, fmt, ap);
	va_end(ap);
	for (int i = 0; i < nnotes; i++)
		if (!strcmp(notes[i], buf))
			return;
	if (nnotes < MAXN)
		notes[nnotes++] = strdup(buf);
}
void v_not_exhaustive(const char *why)
{
	v_exhaustive = 0;
	v_note("not exhaustive: %s", why);
}

/* ---------- hashing ---------- */
uint64_t v_hash(const void *p, size_t n, uint64_t seed)
{
	const uint8_t *b = p;
	uint64_t h0 = seed ^ 0xcbf29ce484222325ull ^ (n * 0x100000001b3ull), h1 = h0 ^ 0x9e3779b97f4a7c15ull, h2 = h0 + 0xc2b2ae3d27d4eb4full, h3 = ~h0;
	while (n >= 32) { /* four independent lanes */
		uint64_t w[4];
		memcpy(w, b, 32);
		h0 = (h0 ^ w[0]) * 0x9fb21c651e98df25ull; h0 ^= h0 >> 29;
		h1 = (h1 ^ w[1]) * 0xff51afd7ed558ccdull; h1 ^= h1 >> 31;
		h2 = (h2 ^ w[2]) * 0xc4ceb9fe1a85ec53ull; h2 ^= h2 >> 30;
		h3 = (h3 ^ w[3]) * 0xd6e8feb86659fd93ull; h3 ^= h3 >> 28;
		b += 32;
		n -= 32;
	}
	uint64_t h = h0 ^ (h1 * 3) ^ (h2 * 5) ^ (h3 * 7);
	h ^= h >> 33;
	h *= 0x9fb21c651e98df25ull;
	while (n >= 8) {
		uint64_t w;
		memcpy(&w, b, 8);
		h = (h ^ w) * 0x9fb21c651e98df25ull;
		h ^= h >> 29;
		b += 8;
		n -= 8;
	}
	uint64_t w = 0;
	memcpy(&w, b, n);
	h = (h ^ w) * 0x9fb21c651e98df25ull;
	h ^= h >> 32;
	h *= 0xd6e8feb86659fd93ull;
	h ^= h >> 32;
	return h;
}

const char *v_hex(const uint8_t *p, size_t n)
{
	static char ring[4][2100];
	static int ri;
	char *o = ring[ri++ & 3];
	size_t m = n > 1024 ? 1024 : n, i;
	for (i = 0; i < m; i++)
		sprintf(o + 2 * i, "%02x", p[i]);
	if (n > m)
		strcpy(o + 2 * m, "...");
	else
		o[2 * m] = 0;
	return o;
}

/* ---------- known findings / violations ---------- */
static char **known;
static int nknownl;
static void load_known(void)
{
	FILE *f = fopen(v_known_path, "r");
	if (!f)
		return;
	char line[2048];
	while (fgets(line, sizeof line, f)) {
		size_t l = strlen(line);
		while (l && (line[l - 1] == '\n' || line[l - 1] == ' '))
			line[--l] = 0;
		if (strncmp(line, "finding:", 8))
			continue; /* "fixed:" lines suppress nothing */
		known = realloc(known, (nknownl + 1) * sizeof *known);
		known[nknownl++] = strdup(line + 8);
	}
	fclose(f);
}
static int is_known(const char *key)
{
	char want[2048];
	snprintf(want, sizeof want, "property=%s %s", v_prop, key);
	for (int i = 0; i < nknownl; i++) {
		const char *k = known[i];
		while (*k == ' ')
			k++;
		if (!strcmp(k, want))
			return 1;
	}
	return 0;
}

static struct kset seen_viol;
static char *v_replay_key; /* --replay <file>: only the violation whose key is stored in the file is reported */
int v_violation(const char *key, const char *fmt, ...)
{
	char buf[8192];
	if (v_replay_key && strcmp(key, v_replay_key))
		return 0;
	va_list ap;
	va_start(ap, fmt);
	vsnprintf(buf, sizeof buf, fmt, ap);
	va_end(ap);
	uint64_t kh = v_hash(key, strlen(key), 7);
	int fresh = kset_add(&seen_viol, kh);
	if (is_known(key)) {
		if (fresh) {
			printf("KNOWN-FINDING: property=%s %s\n", v_prop, key);
			fflush(stdout);
			v_nknown++;
		}
		return 1;
	}
	if (!fresh)
		return 0;
	v_nviol++;
	char path[512];
	snprintf(path, sizeof path, "%s/%s_%016llx.txt", v_replay_dir, v_prop, (unsigned long long)kh);
	FILE *f = fopen(path, "w");
	if (f) {
		fprintf(f, "property=%s\nkey=%s\ntier=%s\n%s\n", v_prop, key, v_thorough ? "thorough" : "quick", buf);
		fclose(f);
	}
	printf("VIOLATION property=%s replay=%s\n", v_prop, path);
	printf("  key: %s\n  %.*s\n", key, 1500, buf);
	fflush(stdout);
	if (v_nviol >= 100) {
		printf("too many violations, stopping shard\n");
		exit(v_finish());
	}
	return 0;
}

void v_broken(const char *fmt, ...)
{
	va_list ap;
	va_start(ap, fmt);
	fprintf(stderr, "HARNESS-BROKEN property=%s: ", v_prop);
	vfprintf(stderr, fmt, ap);
	fprintf(stderr, "\n");
	va_end(ap);
	fflush(NULL);
	_exit(2);
}

/* ---------- symbolisation (own ELF symtab) ---------- */
static Elf64_Sym *symtab;
static size_t nsym;
static char *strtab;
static void load_syms(void)
{
	static int done;
	if (done)
		return;
	done = 1;
	int fd = open("/proc/self/exe", O_RDONLY);
	if (fd < 0)
		return;
	off_t sz = lseek(fd, 0, SEEK_END);
	uint8_t *m = mmap(0, sz, PROT_READ, MAP_PRIVATE, fd, 0);
	close(fd);
	if (m == MAP_FAILED)
		return;
	Elf64_Ehdr *eh = (void *)m;
	Elf64_Shdr *sh = (void *)(m + eh->e_shoff);
	for (int i = 0; i < eh->e_shnum; i++)
		if (sh[i].sh_type == SHT_SYMTAB) {
			symtab = (void *)(m + sh[i].sh_offset);
			nsym = sh[i].sh_size / sizeof(Elf64_Sym);
			strtab = (char *)(m + sh[sh[i].sh_link].sh_offset);
		}
}
const char *v_sym(uintptr_t addr)
{
	static char out[4][256];
	static int oi;
	char *o = out[oi++ & 3];
	load_syms();
	const char *best = NULL;
	uintptr_t bv = 0;
	for (size_t i = 0; i < nsym; i++) {
		int t = ELF64_ST_TYPE(symtab[i].st_info);
		if (t != STT_FUNC && t != STT_OBJECT && t != STT_NOTYPE)
			continue;
		if (!symtab[i].st_shndx || !symtab[i].st_name || symtab[i].st_shndx >= SHN_LORESERVE)
			continue;
		uintptr_t v = symtab[i].st_value;
		if (v <= addr && v >= bv && addr - v < (1 << 20)) {
			const char *nm = strtab + symtab[i].st_name;
			if (nm[0] == '.' || nm[0] == '$')
				continue;
			/* prefer global-looking names: skip local labels starting with '_' only if an alternative at same address exists */
			if (v == bv && best && best[0] != '_' && nm[0] == '_')
				continue;
			best = nm;
			bv = v;
		}
	}
	if (best)
		snprintf(o, 256, "%s+0x%lx", best, (unsigned long)(addr - bv));
	else
		snprintf(o, 256, "0x%lx", (unsigned long)addr);
	return o;
}
uintptr_t v_sym_addr(const char *name)
{
	load_syms();
	for (size_t i = 0; i < nsym; i++)
		if (symtab[i].st_name && !strcmp(strtab + symtab[i].st_name, name))
			return symtab[i].st_value;
	return 0;
}
const char *cpu_selected(const char *slotname)
{
	for (int i = 0; i < verif_nslots; i++)
		if (!strcmp(verif_slots[i].name, slotname)) {
			uintptr_t a = (uintptr_t)*verif_slots[i].slot;
			if ((void *)a == verif_slots[i].mbinit)
				return "<unresolved>";
			static char o[4][128];
			static int oi;
			char *r = o[oi++ & 3];
			const char *s = v_sym(a);
			snprintf(r, 128, "%s", s);
			char *plus = strrchr(r, '+');
			if (plus && !strcmp(plus, "+0x0"))
				*plus = 0;
			return r;
		}
	return "<no such slot>";
}

/* ---------- fault capture ---------- */
sigjmp_buf v_fault_jmp;
volatile int v_fault_armed;
volatile uintptr_t v_fault_addr, v_fault_rip;
volatile int v_fault_write;
volatile int v_fault_sig;
void (*v_case_describe)(char *buf, size_t n);
extern int wm_fault_hook(uintptr_t addr, int write, uintptr_t rip) __attribute__((weak));

static void on_fault(int sig, siginfo_t *si, void *uc_)
{
	ucontext_t *uc = uc_;
	v_fault_addr = (uintptr_t)si->si_addr;
	v_fault_rip = uc->uc_mcontext.gregs[REG_RIP];
	v_fault_write = (uc->uc_mcontext.gregs[REG_ERR] & 2) ? 1 : 0;
	v_fault_sig = sig;
	if (v_fault_armed) {
		v_fault_armed = 0;
		siglongjmp(v_fault_jmp, 1);
	}
	/* unarmed: a fault outside any guarded call */
	char desc[1024] = "";
	if (v_case_describe)
		v_case_describe(desc, sizeof desc);
	char key[256];
	snprintf(key, sizeof key, "unguarded-fault sig=%d at %s", sig, v_sym(v_fault_rip));
	v_violation(key, "signal %d addr=%p rip=%s %s case: %s", sig, (void *)v_fault_addr, v_sym(v_fault_rip),
		    v_fault_write ? "write" : "read", desc);
	_exit(v_finish());
}

static void install_handlers(void)
{
	static uint8_t altstack[1 << 16];
	stack_t ss = { .ss_sp = altstack, .ss_size = sizeof altstack, .ss_flags = 0 };
	sigaltstack(&ss, NULL);
	struct sigaction sa;
	memset(&sa, 0, sizeof sa);
	sa.sa_sigaction = on_fault;
	sa.sa_flags = SA_SIGINFO | SA_ONSTACK | SA_NODEFER;
	sigaction(SIGSEGV, &sa, NULL);
	sigaction(SIGBUS, &sa, NULL);
	sigaction(SIGILL, &sa, NULL);
	sigaction(SIGFPE, &sa, NULL);
	sigaction(SIGABRT, &sa, NULL);
}

/* ---------- guard arena ---------- */
#define PG 4096ul
size_t g_canary_span = 4096; /* bytes of canary kept on either side of a buffer */
#define BAND (1ul << 20)
struct gslot {
	uint8_t *base;   /* mapping start */
	size_t pages;    /* data pages */
	uint8_t *ptr;    /* user pointer */
	size_t size;
	int in_use, prot_changed, ro;
	struct gslot *next;
};
#define GCLASSES 24
static struct gslot *g_free[GCLASSES], *g_used;
int g_strict_free; /* when set, recycled slots are inaccessible (PROT_NONE) until handed out again: stale pointers fault */
static char g_damage[256];
#define CANARY(i) ((uint8_t)((0xC5 ^ ((i) * 29)) | 1)) /* never zero: neighbours of a zero-detect region are non-zero */

static int g_class(size_t pages, size_t *cpages)
{
	int c = 0;
	size_t p = 1;
	while (p < pages) {
		p <<= 1;
		c++;
	}
	if (c >= GCLASSES)
		v_broken("guard arena: allocation too large");
	*cpages = p;
	return c;
}
static struct gslot *g_get(size_t size)
{
	size_t pages = (size + PG - 1) / PG, cp;
	if (!pages)
		pages = 1;
	int c = g_class(pages, &cp);
	struct gslot *s = g_free[c];
	if (s) {
		g_free[c] = s->next;
		if (s->prot_changed) {
			mprotect(s->base + BAND, s->pages * PG, PROT_READ | PROT_WRITE);
			s->prot_changed = 0;
		}
	} else {
		s = calloc(1, sizeof *s);
		s->pages = cp;
		s->base = mmap(NULL, 2 * BAND + cp * PG, PROT_NONE, MAP_PRIVATE | MAP_ANONYMOUS | MAP_NORESERVE, -1, 0);
		if (s->base == MAP_FAILED)
			v_broken("guard arena mmap failed: %s", strerror(errno));
		if (mprotect(s->base + BAND, cp * PG, PROT_READ | PROT_WRITE))
			v_broken("guard arena mprotect failed");
	}
	s->next = g_used;
	g_used = s;
	s->in_use = 1;
	return s;
}
static void g_fill(struct gslot *s)
{
	uint8_t *d = s->base + BAND, *e = d + s->pages * PG;
	/* canary outside [ptr, ptr+size) but only within 4 KiB on either side (cost bound) */
	uint8_t *lo = s->ptr - d > (long)g_canary_span ? s->ptr - g_canary_span : d;
	uint8_t *hi = e - (s->ptr + s->size) > (long)g_canary_span ? s->ptr + s->size + g_canary_span : e;
	for (uint8_t *p = lo; p < s->ptr; p++)
		*p = CANARY((uintptr_t)p);
	for (uint8_t *p = s->ptr + s->size; p < hi; p++)
		*p = CANARY((uintptr_t)p);
}
void *g_alloc(size_t size, int placement)
{
	struct gslot *s = g_get(size);
	uint8_t *d = s->base + BAND;
	s->size = size;
	s->ptr = placement == G_END ? d + s->pages * PG - size : d;
	g_fill(s);
	return s->ptr;
}
void *g_alloc_off(size_t size, size_t off)
{
	struct gslot *s = g_get(size + off);
	s->size = size;
	s->ptr = s->base + BAND + off;
	g_fill(s);
	return s->ptr;
}
void *g_alloc_end_aligned(size_t size, size_t align)
{
	struct gslot *s = g_get(size + align);
	uint8_t *e = s->base + BAND + s->pages * PG;
	s->size = size;
	s->ptr = (uint8_t *)(((uintptr_t)e - size) & ~(uintptr_t)(align - 1));
	g_fill(s);
	return s->ptr;
}
/* persistent guarded allocation: never recycled by g_reset (contexts that live across transitions) */
void *g_persist(size_t size, int placement)
{
	size_t pages = (size + PG - 1) / PG;
	if (!pages)
		pages = 1;
	uint8_t *base = mmap(NULL, 2 * BAND + pages * PG, PROT_NONE, MAP_PRIVATE | MAP_ANONYMOUS | MAP_NORESERVE, -1, 0);
	if (base == MAP_FAILED || mprotect(base + BAND, pages * PG, PROT_READ | PROT_WRITE))
		v_broken("g_persist mmap failed");
	return placement == G_END ? base + BAND + pages * PG - size : base + BAND;
}
int g_check(void)
{
	int bad = 0;
	for (struct gslot *s = g_used; s; s = s->next) {
		if (s->prot_changed)
			continue;
		uint8_t *d = s->base + BAND, *e = d + s->pages * PG;
		uint8_t *lo = s->ptr - d > (long)g_canary_span ? s->ptr - g_canary_span : d;
		uint8_t *hi = e - (s->ptr + s->size) > (long)g_canary_span ? s->ptr + s->size + g_canary_span : e;
		for (uint8_t *p = lo; p < s->ptr; p++)
			if (*p != CANARY((uintptr_t)p)) {
				if (!bad)
					snprintf(g_damage, sizeof g_damage, "canary damaged %ld bytes BEFORE buffer (size %zu)", (long)(s->ptr - p), s->size);
				bad++;
			}
		for (uint8_t *p = s->ptr + s->size; p < hi; p++)
			if (*p != CANARY((uintptr_t)p)) {
				if (!bad)
					snprintf(g_damage, sizeof g_damage, "canary damaged at +%ld past buffer end (size %zu)", (long)(p - (s->ptr + s->size)), s->size);
				bad++;
			}
	}
	return bad;
}
const char *g_last_damage(void) { return g_damage; }
void g_reset(void)
{
	while (g_used) {
		struct gslot *s = g_used;
		g_used = s->next;
		if (g_strict_free) {
			if (!s->prot_changed)
				mprotect(s->base + BAND, s->pages * PG, PROT_NONE);
			s->prot_changed = 1;
			s->ro = 0;
		} else if (s->prot_changed || s->ro) {
			mprotect(s->base + BAND, s->pages * PG, PROT_READ | PROT_WRITE);
			s->prot_changed = 0;
			s->ro = 0;
		}
		size_t cp;
		int c = g_class(s->pages, &cp);
		if (s->pages > 1024) { /* do not cache big slots */
			munmap(s->base, 2 * BAND + s->pages * PG);
			free(s);
			continue;
		}
		s->in_use = 0;
		s->next = g_free[c];
		g_free[c] = s;
	}
}
static struct gslot *g_find(void *p)
{
	for (struct gslot *s = g_used; s; s = s->next)
		if ((uint8_t *)p >= s->base + BAND && (uint8_t *)p <= s->base + BAND + s->pages * PG)
			return s;
	v_broken("g_find: pointer not in arena");
}
int g_owns(void *p)
{
	for (struct gslot *s = g_used; s; s = s->next)
		if ((uint8_t *)p >= s->base + BAND && (uint8_t *)p <= s->base + BAND + s->pages * PG)
			return 1;
	return 0;
}
void g_revoke(void *p)
{
	struct gslot *s = g_find(p);
	mprotect(s->base + BAND, s->pages * PG, PROT_NONE);
	s->prot_changed = 1;
}
void g_readonly(void *p, int ro)
{
	struct gslot *s = g_find(p);
	mprotect(s->base + BAND, s->pages * PG, ro ? PROT_READ : PROT_READ | PROT_WRITE);
	s->ro = ro;
}

/* ---------- write monitor ---------- */
extern char wm_data_begin[], wm_data_end[], wm_bss_begin[], wm_bss_end[];
int wm_armed;
void wm_range(uintptr_t *lo, uintptr_t *hi)
{
	*lo = (uintptr_t)wm_data_begin;
	*hi = (uintptr_t)wm_data_end;
}
void wm_arm(void)
{
	if (mprotect(wm_data_begin, wm_data_end - wm_data_begin, PROT_READ))
		v_broken("wm_arm mprotect data: %s", strerror(errno));
	if ((uintptr_t)wm_bss_end > (uintptr_t)wm_bss_begin && mprotect(wm_bss_begin, wm_bss_end - wm_bss_begin, PROT_READ))
		v_broken("wm_arm mprotect bss");
	wm_armed = 1;
}
void wm_disarm(void)
{
	mprotect(wm_data_begin, wm_data_end - wm_data_begin, PROT_READ | PROT_WRITE);
	if ((uintptr_t)wm_bss_end > (uintptr_t)wm_bss_begin)
		mprotect(wm_bss_begin, wm_bss_end - wm_bss_begin, PROT_READ | PROT_WRITE);
	wm_armed = 0;
}
const char *v_fault_desc(void)
{
	static char d[400];
	extern int wm_owns(uintptr_t a);
	snprintf(d, sizeof d, "fault at %s: %s of %s%s", v_sym(v_fault_rip), v_fault_write ? "write" : "read", wm_owns(v_fault_addr) ? v_sym(v_fault_addr) : "address",
		 wm_owns(v_fault_addr) ? " [library-owned writable memory, read-only once implementations are selected]" : "");
	if (!wm_owns(v_fault_addr))
		snprintf(d + strlen(d), sizeof d - strlen(d), " %p", (void *)v_fault_addr);
	return d;
}
int wm_owns(uintptr_t a)
{
	return (a >= (uintptr_t)wm_data_begin && a < (uintptr_t)wm_data_end) ||
	       (a >= (uintptr_t)wm_bss_begin && a < (uintptr_t)wm_bss_end);
}

/* ---------- simulated CPU ---------- */
const char *cpu_level_name[] = { "base", "sse", "avx", "avx2", "avx512", "avx512g2", "avx2g2" };
void cpu_reset_slots(void)
{
	int was = wm_armed;
	if (was)
		wm_disarm();
	for (int i = 0; i < verif_nslots; i++)
		*verif_slots[i].slot = verif_slots[i].mbinit;
	if (was)
		wm_arm();
}
void cpu_host(struct simcpu *o)
{
	uint32_t a, b, c, d;
	memset(o, 0, sizeof *o);
	__asm__ volatile("cpuid" : "=a"(a), "=b"(b), "=c"(c), "=d"(d) : "a"(1), "c"(0));
	o->eax1 = a; o->ebx1 = b; o->ecx1 = c; o->edx1 = d;
	__asm__ volatile("cpuid" : "=a"(a), "=b"(b), "=c"(c), "=d"(d) : "a"(7), "c"(0));
	o->eax7 = a; o->ebx7 = b; o->ecx7 = c; o->edx7 = d;
	if (o->ecx1 & C1_OSXSAVE) {
		__asm__ volatile("xgetbv" : "=a"(a), "=d"(d) : "c"(0));
		o->xcr0_lo = a; o->xcr0_hi = d;
	}
	o->maxleaf = 7;
}
void cpu_set_level(int level)
{
	struct simcpu c;
	memset(&c, 0, sizeof c);
	c.maxleaf = 7;
	if (level == CPU_HOST) {
		cpu_host(&c);
	} else {
		c.eax1 = 0x000806F8;
		c.edx1 = B(25) | B(26); /* SSE, SSE2 */
		c.ecx1 = C1_SSE3 | C1_SSSE3;
		if (level >= CPU_SSE)
			c.ecx1 |= C1_SSE41 | C1_SSE42 | C1_PCLMUL | C1_POPCNT;
		if (level >= CPU_AVX) {
			c.ecx1 |= C1_OSXSAVE | C1_AVX;
			c.xcr0_lo = 7;
		}
		if (level >= CPU_AVX2)
			c.ebx7 |= C7B_AVX2 | C7B_BMI1 | C7B_BMI2;
		if (level == CPU_AVX512 || level == CPU_AVX512G2) {
			c.ebx7 |= C7B_AVX512F | C7B_AVX512DQ | C7B_AVX512CD | C7B_AVX512BW | C7B_AVX512VL;
			c.xcr0_lo = 0xe7;
		}
		if (level == CPU_AVX512G2)
			c.ecx7 |= C7C_VBMI2 | C7C_GFNI | C7C_VAES | C7C_VPCLMUL | C7C_VNNI | C7C_BITALG | C7C_VPOPCNT;
		if (level == CPU_AVX2G2)
			c.ecx7 |= C7C_GFNI | C7C_VAES | C7C_VPCLMUL;
	}
	c.passthrough = 0;
	verif_simcpu = c;
	cpu_reset_slots();
}
void cpu_resolve_all(void)
{
	int was = wm_armed;
	if (was)
		wm_disarm();
	for (int i = 0; i < verif_nslots; i++)
		verif_slots[i].dispatch_init();
	if (was)
		wm_arm();
}

/* ---------- families ---------- */
uint64_t xs_next(uint64_t *s)
{
	uint64_t x = *s;
	x ^= x << 13;
	x ^= x >> 7;
	x ^= x << 17;
	return *s = x;
}
void fill_xorshift(uint8_t *p, size_t n, uint64_t seed)
{
	uint64_t s = seed * 0x9e3779b97f4a7c15ull + 0x2545F4914F6CDD1Dull;
	if (!s)
		s = 1;
	for (size_t i = 0; i < n; i++) {
		if ((i & 7) == 0)
			xs_next(&s);
		p[i] = (uint8_t)(s >> ((i & 7) * 8));
	}
}
const char *pat_name[] = { "zero", "ff", "one", "p2", "p3", "p5", "p258", "p259", "ramp", "xs", "text", "log" };
void fill_pattern(uint8_t *p, size_t n, int cls, uint64_t seed)
{
	static const char text[] = "the quick brown fox jumps over the lazy dog; the quick brown fox, the lazy dog and the quick brown "
				   "dog jumped over the fox. abcabcabcabdabcabe 0123456789 0123456789 aaaaaaaaaaaaaaaabaaaaaaaaaaaaaaaaaaaac ";
	uint8_t per[300];
	fill_xorshift(per, sizeof per, seed + 77);
	for (size_t i = 0; i < n; i++) {
		switch (cls) {
		case PAT_ZERO: p[i] = 0; break;
		case PAT_FF: p[i] = 0xff; break;
		case PAT_ONE: p[i] = 'a'; break;
		case PAT_P2: p[i] = per[i % 2]; break;
		case PAT_P3: p[i] = per[i % 3]; break;
		case PAT_P5: p[i] = per[i % 5]; break;
		case PAT_P258: p[i] = per[i % 258]; break;
		case PAT_P259: p[i] = per[i % 259]; break;
		case PAT_RAMP: p[i] = (uint8_t)i; break;
		case PAT_TEXT: p[i] = text[i % (sizeof text - 1)]; break;
		default: break;
		}
	}
	if (cls == PAT_XS)
		fill_xorshift(p, n, seed);
	if (cls == PAT_LOG) {
		static const char *voc[] = { "error", "warning", "info", "connection", "timeout", "request", "from", "to", "user", "session", "GET", "POST", "/index.html", "/api/v1/items",
					     "200", "404", "500", "bytes", "ms", "retry", "failed", "ok", "disk", "cache", "miss", "hit", "thread", "worker", "queue", "flush", "the", "of", "a", "at", "in" };
		uint64_t s = seed * 0x9e3779b97f4a7c15ull + 0x6c6f67, line = 1000 + seed % 777;
		size_t pos = 0;
		if (!s)
			s = 1;
		while (pos < n) {
			char tmp[64];
			uint64_t r = xs_next(&s);
			int l;
			if (r % 11 == 0)
				l = snprintf(tmp, sizeof tmp, "\n%llu.%03u ", (unsigned long long)line++, (unsigned)(r >> 20) % 1000);
			else if (r % 8 == 0) {
				l = 1 + (int)((r >> 8) % 6);
				for (int j = 0; j < l; j++)
					tmp[j] = (char)('a' + (r >> (12 + 5 * j)) % 26);
			} else if (r % 13 == 0)
				l = snprintf(tmp, sizeof tmp, "%u.%u.%u.%u ", (unsigned)(r >> 8) % 256, (unsigned)(r >> 16) % 4, (unsigned)(r >> 24) % 256, (unsigned)(r >> 32) % 256);
			else
				l = snprintf(tmp, sizeof tmp, "%s%c", voc[(r >> 8) % (sizeof voc / sizeof voc[0])], (r >> 40) % 9 ? ' ' : '=');
			for (int j = 0; j < l && pos < n; j++)
				p[pos++] = (uint8_t)tmp[j];
		}
	}
}
uint64_t tiny_count(int nsig, int maxlen)
{
	uint64_t t = 0, p = 1;
	for (int l = 0; l <= maxlen; l++) {
		t += p;
		p *= nsig;
	}
	return t;
}
int tiny_string(const uint8_t *sigma, int nsig, int maxlen, uint64_t idx, uint8_t *out)
{
	uint64_t p = 1;
	for (int l = 0; l <= maxlen; l++) {
		if (idx < p) {
			for (int i = 0; i < l; i++) {
				out[i] = sigma[idx % nsig];
				idx /= nsig;
			}
			return l;
		}
		idx -= p;
		p *= nsig;
	}
	return -1;
}

/* ---------- init / finish ---------- */
void v_init(int argc, char **argv, const char *prop)
{
	v_prop = prop;
	v_t0 = v_now();
	{ /* how wide the REAL machine's register file is (for v_pcall register poisoning) */
		struct simcpu h;
		cpu_host(&h);
		int osx = (h.ecx1 & C1_OSXSAVE) != 0;
		v_pcall_level = 0;
		if (osx && (h.ecx1 & B(28)) && (h.xcr0_lo & 6) == 6)
			v_pcall_level = 1;
		if (v_pcall_level == 1 && (h.ebx7 & B(16)) && (h.ebx7 & B(30)) && (h.xcr0_lo & 0xe6) == 0xe6)
			v_pcall_level = 2; /* AVX512F + BW (kmovq) and ZMM/opmask state enabled */
	}
	double dl = 0;
	for (int i = 1; i < argc; i++) {
		if (!strcmp(argv[i], "--shard") && i + 1 < argc) {
			sscanf(argv[++i], "%d/%d", &v_shard, &v_nshards);
		} else if (!strcmp(argv[i], "--tier") && i + 1 < argc) {
			v_thorough = !strcmp(argv[++i], "thorough");
		} else if (!strcmp(argv[i], "--out") && i + 1 < argc) {
			v_out = argv[++i];
		} else if (!strcmp(argv[i], "--replay") && i + 1 < argc) {
			v_replay = argv[++i];
		} else if (!strcmp(argv[i], "--part") && i + 1 < argc) {
			v_part = argv[++i];
		} else if (!strcmp(argv[i], "--deadline") && i + 1 < argc) {
			dl = atof(argv[++i]);
		} else if (!strcmp(argv[i], "--seed") && i + 1 < argc) {
			v_seed = atol(argv[++i]);
		} else if (!strcmp(argv[i], "--known") && i + 1 < argc) {
			v_known_path = argv[++i];
		} else if (!strcmp(argv[i], "--prop") && i + 1 < argc) {
			v_prop = strdup(argv[++i]); /* the same harness may serve another property (C05 re-runs the kernel sweeps) */
		} else if (!strcmp(argv[i], "--replay-dir") && i + 1 < argc) {
			v_replay_dir = argv[++i];
		}
	}
	if (v_replay) {
		FILE *rf = fopen(v_replay, "r");
		char line[4096];
		while (rf && fgets(line, sizeof line, rf))
			if (!strncmp(line, "key=", 4)) {
				line[strcspn(line, "\n")] = 0;
				v_replay_key = strdup(line + 4);
			}
		if (rf)
			fclose(rf);
		if (!v_replay_key)
			v_broken("replay file %s has no key= line", v_replay);
	}
	if (dl > 0)
		v_deadline = v_t0 + dl;
	load_known();
	install_handlers();
	setvbuf(stdout, NULL, _IOLBF, 0);
}

static void json_str(FILE *f, const char *s)
{
	fputc('"', f);
	for (; *s; s++) {
		if (*s == '"' || *s == '\\')
			fprintf(f, "\\%c", *s);
		else if ((unsigned char)*s < 0x20)
			fprintf(f, "\\u%04x", *s);
		else
			fputc(*s, f);
	}
	fputc('"', f);
}

int v_finish(void)
{
	if (wm_armed)
		wm_disarm();
	if (v_out) {
		FILE *f = fopen(v_out, "w");
		if (!f)
			v_broken("cannot write %s", v_out);
		fprintf(f, "{\"property\":\"%s\",\"shard\":%d,\"nshards\":%d,\"evaluations\":%lld,\"distinct_nontrivial\":%zu,"
			   "\"outcomes\":%zu,\"violations\":%d,\"known_findings\":%d,\"exhaustive\":%s,\"wall_s\":%.3f,\n",
			v_prop, v_shard, v_nshards, (long long)n_eval, nt_set.n, oc_set.n, v_nviol, v_nknown,
			v_exhaustive ? "true" : "false", v_now() - v_t0);
		fprintf(f, "\"counters\":{");
		for (int i = 0; i < nctr; i++)
			fprintf(f, "%s\"%s\":%lld", i ? "," : "", ctr[i].name, (long long)ctr[i].val);
		fprintf(f, "},\"maxima\":[");
		int first = 1;
		for (int i = 0; i < nctr; i++)
			if (ctr[i].ismax) {
				fprintf(f, "%s\"%s\"", first ? "" : ",", ctr[i].name);
				first = 0;
			}
		fprintf(f, "],\n\"samples\":[");
		for (int i = 0; i < nsamples; i++) {
			if (i)
				fputc(',', f);
			json_str(f, samples[i]);
		}
		fprintf(f, "],\n\"notes\":[");
		for (int i = 0; i < nnotes; i++) {
			if (i)
				fputc(',', f);
			json_str(f, notes[i]);
		}
		fprintf(f, "]}\n");
		fclose(f);
	}
	fflush(NULL);
	return v_nviol ? 1 : 0;
}
