#ifndef VERIF_SLOTS_H
#define VERIF_SLOTS_H
struct verif_slot {
	const char *name;
	void **slot;            /* &<f>_dispatched */
	void *mbinit;           /* pristine value <f>_mbinit */
	void (*dispatch_init)(void); /* the real resolver */
	void *entry;            /* public entry <f> */
};
extern struct verif_slot verif_slots[];
extern int verif_nslots;
#endif
