#ifndef ISAREQ_H
#define ISAREQ_H
#include <stdint.h>
struct isa_req { const char *name; uint32_t req; int is_asm; int ninsn; int tzcnt; int unknown; };
extern struct isa_req isa_reqs[];
extern const char *isa_feat_name[];
#endif
