/* SCHED - hook-free cooperative scheduler over library-owned writable memory (DESIGN 2.6).
 * The library's writable segment is PROT_NONE; every access faults; the SIGSEGV handler (on the faulting
 * thread) yields to the scheduler when the access touches a granule that some execution writes, then opens
 * the segment, single-steps exactly that instruction (TF) and re-protects in the SIGTRAP handler.
 * Exactly one thread runs at any time (raw futex hand-off). The explorer enumerates scheduler choices
 * (stateless DFS, iterative preemption bounding). */
#ifndef SCHED_H
#define SCHED_H
#ifndef _GNU_SOURCE
#define _GNU_SOURCE
#endif
#include "verif.h"
#include <pthread.h>
#include <signal.h>
#include <ucontext.h>
#include <sys/mman.h>
#include <sys/syscall.h>
#include <linux/futex.h>
#include <unistd.h>
#include <errno.h>

#define SCH_MAXT 4
#define SCH_MAXW 256
#define SCH_MAXPTS 4096
struct sch_event { int tid; uintptr_t rip, addr; int write; };
struct sch_point { int nenabled; int enabled[SCH_MAXT]; int chosen; int running_enabled; int running; struct sch_event ev; };

static struct {
	volatile int turn; /* -1: scheduler, i: worker i */
	int nthreads;
	volatile int done[SCH_MAXT];
	struct sch_event pending[SCH_MAXT];
	volatile int has_pending[SCH_MAXT];
	void (*body)(int tid);
	pthread_t th[SCH_MAXT];
	uintptr_t W[SCH_MAXW];
	int nW;
	volatile int newW;
	volatile int failed;
	char failmsg[512];
	uintptr_t lo, hi;
	sigjmp_buf tjmp[SCH_MAXT];
	volatile uint64_t nfaults, nsched;
	struct sch_point pts[SCH_MAXPTS];
	int npts;
	struct sch_event acc[SCH_MAXPTS]; /* access trace of W-granule accesses in execution order */
	int nacc;
	int active;
} SCH;
static __thread int sch_tid = -1;

static void sch_futex_wait(volatile int *a, int v) { syscall(SYS_futex, a, FUTEX_WAIT, v, NULL, NULL, 0); }
static void sch_futex_wake(volatile int *a) { syscall(SYS_futex, a, FUTEX_WAKE, 64, NULL, NULL, 0); }
static void sch_wait_turn(int me)
{
	int t;
	while ((t = __atomic_load_n(&SCH.turn, __ATOMIC_ACQUIRE)) != me)
		sch_futex_wait(&SCH.turn, t);
}
static void sch_pass(int to)
{
	__atomic_store_n(&SCH.turn, to, __ATOMIC_RELEASE);
	sch_futex_wake(&SCH.turn);
}
static int sch_inW(uintptr_t g)
{
	for (int i = 0; i < SCH.nW; i++)
		if (SCH.W[i] == g)
			return 1;
	return 0;
}

static void sch_segv(int sig, siginfo_t *si, void *uc_)
{
	ucontext_t *uc = uc_;
	uintptr_t addr = (uintptr_t)si->si_addr;
	int tid = sch_tid;
	if (!SCH.active || tid < 0 || addr < SCH.lo || addr >= SCH.hi || sig != SIGSEGV) {
		if (tid >= 0 && SCH.active) {
			if (!SCH.failed) {
				SCH.failed = 1;
				snprintf(SCH.failmsg, sizeof SCH.failmsg, "thread %d: signal %d at %s, address %p (%s)", tid, sig, v_sym(uc->uc_mcontext.gregs[REG_RIP]), (void *)addr,
					 addr >= SCH.lo && addr < SCH.hi ? "library data" : "not library data: wild jump or pointer");
			}
			siglongjmp(SCH.tjmp[tid], 1);
		}
		/* not ours: let the generic handler (verif.c) deal with it */
		signal(sig, SIG_DFL);
		raise(sig);
		return;
	}
	SCH.nfaults++;
	int write = (uc->uc_mcontext.gregs[REG_ERR] & 2) ? 1 : 0;
	uintptr_t g = addr & ~(uintptr_t)7;
	int in = sch_inW(g);
	if (write && !in) {
		if (SCH.nW < SCH_MAXW)
			SCH.W[SCH.nW++] = g;
		SCH.newW = 1;
		in = 1;
	}
	if (in) {
		/* scheduling point: announce the pending access and yield */
		SCH.pending[tid] = (struct sch_event){ tid, (uintptr_t)uc->uc_mcontext.gregs[REG_RIP], addr, write };
		SCH.has_pending[tid] = 1;
		SCH.nsched++;
		sch_pass(-1);
		sch_wait_turn(tid);
		SCH.has_pending[tid] = 0;
		if (SCH.nacc < SCH_MAXPTS)
			SCH.acc[SCH.nacc++] = SCH.pending[tid];
	}
	/* perform exactly this instruction with the segment open */
	mprotect((void *)SCH.lo, SCH.hi - SCH.lo, PROT_READ | PROT_WRITE);
	uc->uc_mcontext.gregs[REG_EFL] |= 0x100;
}
static void sch_trap(int sig, siginfo_t *si, void *uc_)
{
	(void)sig; (void)si;
	ucontext_t *uc = uc_;
	mprotect((void *)SCH.lo, SCH.hi - SCH.lo, PROT_NONE);
	uc->uc_mcontext.gregs[REG_EFL] &= ~0x100ll;
}

/* persistent workers: one execution = one pass through the loop (thread creation per schedule dominated the cost) */
static void *sch_worker(void *a)
{
	int tid = (int)(intptr_t)a;
	sch_tid = tid;
	for (;;) {
		sch_wait_turn(tid);
		if (sigsetjmp(SCH.tjmp[tid], 1) == 0)
			SCH.body(tid);
		SCH.done[tid] = 1;
		sch_pass(-1);
	}
	return NULL;
}
static int sch_nworkers;

static struct sigaction sch_old_segv, sch_old_trap, sch_old_ill, sch_old_bus;
static void sch_install(void)
{
	struct sigaction sa;
	memset(&sa, 0, sizeof sa);
	sa.sa_sigaction = sch_segv;
	sa.sa_flags = SA_SIGINFO | SA_NODEFER;
	sigaction(SIGSEGV, &sa, &sch_old_segv);
	sigaction(SIGILL, &sa, &sch_old_ill);
	sigaction(SIGBUS, &sa, &sch_old_bus);
	sa.sa_sigaction = sch_trap;
	sigaction(SIGTRAP, &sa, &sch_old_trap);
}
static void sch_uninstall(void)
{
	sigaction(SIGSEGV, &sch_old_segv, NULL);
	sigaction(SIGILL, &sch_old_ill, NULL);
	sigaction(SIGBUS, &sch_old_bus, NULL);
	sigaction(SIGTRAP, &sch_old_trap, NULL);
}

/* run one execution following `prefix` (indices into the canonical enabled order), default choice 0 afterwards */
static void sch_execute(const int *prefix, int nprefix, void (*reset)(void))
{
	mprotect((void *)SCH.lo, SCH.hi - SCH.lo, PROT_READ | PROT_WRITE);
	reset();
	SCH.failed = 0;
	SCH.npts = 0;
	SCH.nacc = 0;
	for (int i = 0; i < SCH.nthreads; i++) {
		SCH.done[i] = 0;
		SCH.has_pending[i] = 0;
	}
	SCH.turn = -1;
	SCH.active = 1;
	mprotect((void *)SCH.lo, SCH.hi - SCH.lo, PROT_NONE);
	for (; sch_nworkers < SCH.nthreads; sch_nworkers++)
		if (pthread_create(&SCH.th[sch_nworkers], NULL, sch_worker, (void *)(intptr_t)sch_nworkers))
			v_broken("pthread_create");
	/* prologue (not a choice): every thread runs up to its first access to a written granule and parks there;
	 * code before that touches no shared state, so the order of these private prefixes cannot matter */
	for (int i = 0; i < SCH.nthreads; i++) {
		sch_pass(i);
		sch_wait_turn(-1);
	}
	int running = -1;
	for (;;) {
		struct sch_point *p = &SCH.pts[SCH.npts];
		p->nenabled = 0;
		p->running = running;
		p->running_enabled = running >= 0 && !SCH.done[running];
		if (p->running_enabled)
			p->enabled[p->nenabled++] = running;
		for (int i = 0; i < SCH.nthreads; i++)
			if (!SCH.done[i] && i != running)
				p->enabled[p->nenabled++] = i;
		if (!p->nenabled)
			break;
		int c = SCH.npts < nprefix ? prefix[SCH.npts] : 0;
		if (c >= p->nenabled)
			v_broken("schedule replay diverged: choice %d of %d enabled at point %d", c, p->nenabled, SCH.npts);
		p->chosen = c;
		int t = p->enabled[c];
		p->ev = SCH.has_pending[t] ? SCH.pending[t] : (struct sch_event){ t, 0, 0, 0 };
		if (SCH.npts + 1 >= SCH_MAXPTS)
			v_broken("too many scheduling points");
		SCH.npts++;
		sch_pass(t);
		sch_wait_turn(-1);
		running = t;
	}
	SCH.active = 0;
	mprotect((void *)SCH.lo, SCH.hi - SCH.lo, PROT_READ | PROT_WRITE);
}

struct sch_stats { uint64_t executions, points, max_points, outcomes; int bound_completed; int restarted; };
/* stateless DFS with preemption bound (bound < 0: unbounded). check() is called after every execution; returns non-zero to stop */
static int sch_explore_rec(int *prefix, int nprefix, int bound, void (*reset)(void), int (*check)(void), struct sch_stats *st, uint64_t max_exec)
{
	sch_execute(prefix, nprefix, reset);
	st->executions++;
	st->points += SCH.npts;
	if ((uint64_t)SCH.npts > st->max_points)
		st->max_points = SCH.npts;
	if (check())
		return 1;
	if (SCH.newW)
		return 2; /* a new written granule was discovered: restart with the larger set */
	if (max_exec && st->executions >= max_exec)
		return 3;
	/* copy this execution's points (the recursion overwrites SCH.pts) */
	int n = SCH.npts;
	struct sch_point *pts = malloc(n * sizeof *pts);
	memcpy(pts, SCH.pts, n * sizeof *pts);
	int *choices = malloc((n + 1) * sizeof(int));
	for (int i = 0; i < n; i++)
		choices[i] = pts[i].chosen;
	int rc = 0;
	for (int i = nprefix; i < n && !rc; i++) {
		int cost = 0;
		for (int j = 0; j < i; j++)
			if (pts[j].running_enabled && pts[j].chosen != 0)
				cost++;
		for (int alt = 1; alt < pts[i].nenabled && !rc; alt++) {
			int c2 = cost + (pts[i].running_enabled ? 1 : 0);
			if (bound >= 0 && c2 > bound)
				continue;
			int *np = malloc((i + 1) * sizeof(int));
			memcpy(np, choices, i * sizeof(int));
			np[i] = alt;
			rc = sch_explore_rec(np, i + 1, bound, reset, check, st, max_exec);
			free(np);
		}
	}
	free(pts);
	free(choices);
	return rc;
}
static const char *sch_trace_str(void)
{
	static char buf[3000];
	buf[0] = 0;
	for (int i = 0; i < SCH.nacc && strlen(buf) < sizeof buf - 100; i++)
		snprintf(buf + strlen(buf), sizeof buf - strlen(buf), "T%d:%s %s@%s; ", SCH.acc[i].tid, SCH.acc[i].write ? "W" : "R", v_sym(SCH.acc[i].addr), v_sym(SCH.acc[i].rip));
	return buf;
}
static const char *sch_schedule_str(void)
{
	static char buf[2000];
	buf[0] = 0;
	for (int i = 0; i < SCH.npts && strlen(buf) < sizeof buf - 16; i++)
		snprintf(buf + strlen(buf), sizeof buf - strlen(buf), "%d", SCH.pts[i].enabled[SCH.pts[i].chosen]);
	return buf;
}
#endif
