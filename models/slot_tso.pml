/* TSO model of the multibinary dispatch-slot protocol (C15 complement, DESIGN 2.6).
 * One shared word `slot` (INIT = address of <f>_mbinit, IMPL = the selected implementation).
 * Each thread executes the access alphabet recorded by SCHED for a real cold call:
 *     R slot (jmp [slot])  ->  if INIT: resolver runs, W slot := IMPL, R slot (jmp [slot])
 * Every thread has a one-entry FIFO store buffer (x86-TSO): a write goes to the buffer, is drained to
 * memory at any later time, and the thread's own reads are forwarded from its buffer.
 * Checked: no thread ever jumps to anything but INIT or IMPL, every thread ends up executing IMPL,
 * and memory finally holds IMPL. */
#define N 4
#define INIT 1
#define IMPL 2
byte slot = INIT;
byte buf[N];      /* 0 = empty, else pending value */
byte jumped[N];   /* last jump target */
byte done = 0;

inline rd(i, v) { if :: buf[i] != 0 -> v = buf[i] :: else -> v = slot fi }

proctype thread(byte i)
{
	byte r;
	atomic { rd(i, r) };                 /* jmp [slot] */
	assert(r == INIT || r == IMPL);
	if
	:: r == INIT ->
		/* <f>_mbinit: call <f>_dispatch_init; the resolver is deterministic and idempotent */
		atomic { buf[i] = IMPL };        /* mov [slot], rsi  (into the store buffer) */
		atomic { rd(i, r) };             /* falls through to <f>: jmp [slot] (store-to-load forwarding) */
		assert(r == IMPL)
	:: else -> skip
	fi;
	jumped[i] = r;
	assert(r == IMPL);
	done++
}
/* store buffer drain: at any time */
proctype drain(byte i)
{
	do
	:: atomic { buf[i] != 0 -> slot = buf[i]; buf[i] = 0 }
	:: done == N && buf[i] == 0 -> break
	od
}
init {
	byte i = 0;
	atomic {
		do :: i < N -> run thread(i); run drain(i); i++ :: else -> break od
	};
	(done == N);
	/* all buffers eventually drain; final memory value must be IMPL once they have */
	(buf[0] == 0 && buf[1] == 0 && buf[2] == 0 && buf[3] == 0);
	assert(slot == IMPL)
}
