#!/usr/bin/env python3
"""Flavour builder: builds intel/isa-l from /repo's *current working tree* into
/verif/build/<flavour>-<hash>/ as one relocatable object (isal_all.o) whose writable
sections are renamed (isal_data / isal_bss) so that harnesses can identify, page-isolate
and mprotect library-owned writable memory; generates slots.c (table of dispatch slots).

Source lists are taken from the tree's own */Makefile.am (lsrc, lsrc_x86_64,
lsrc_base_aliases) so edits that add/remove files are followed.

usage: build.py <flavour> [--repo /repo]      prints the build directory
flavours: sim rel noarch h8k lht lgt tsan
"""
import os, re, sys, hashlib, subprocess, shutil, concurrent.futures, json

VERIF = os.path.dirname(os.path.abspath(__file__))
BUILD = os.path.join(VERIF, "build")

FLAVOURS = {
    # name: (cflags, asm defines, use asm?, intercept cpuid?)
    "sim":    dict(c=["-O2"], d=[], asm=True),
    "rel":    dict(c=["-O2", "-DNDEBUG"], d=[], asm=True),
    "h8k":    dict(c=["-O2"], d=["-DIGZIP_HIST_SIZE=8*1024"], asm=True),
    "lht":    dict(c=["-O2"], d=["-DLONGER_HUFFTABLE"], asm=True),
    "lgt":    dict(c=["-O2"], d=["-DGF_LARGE_TABLES"], asm=True),
    "noarch": dict(c=["-O1", "-g", "-fsanitize=address,undefined", "-fno-sanitize=alignment", "-fno-sanitize-recover=undefined",
                      "-fno-omit-frame-pointer"], d=[], asm=False),
    "tsan":   dict(c=["-O1", "-g", "-fsanitize=thread"], d=[], asm=True),
}


def parse_makefiles(repo):
    """collect lsrc / lsrc_x86_64 / lsrc_base_aliases from the tree's Makefile.am files"""
    top = open(os.path.join(repo, "Makefile.am")).read()
    incs = re.findall(r"^include\s+(\S+/Makefile\.am)", top, re.M)
    vars_ = {"lsrc": [], "lsrc_x86_64": [], "lsrc_base_aliases": []}
    for inc in incs:
        p = os.path.join(repo, inc)
        if not os.path.exists(p):
            continue
        txt = open(p).read()
        txt = re.sub(r"\\\n", " ", txt)
        for line in txt.splitlines():
            line = line.split("#")[0]
            m = re.match(r"^\s*(\w+)\s*\+?=\s*(.*)$", line)
            if m and m.group(1) in vars_:
                vars_[m.group(1)] += m.group(2).split()
    return vars_


def tree_hash(repo, flavour):
    h = hashlib.sha256()
    h.update(flavour.encode())
    h.update(open(os.path.abspath(__file__), "rb").read())
    h.update(open(os.path.join(VERIF, "engine", "verif_pre.inc"), "rb").read())
    h.update(open(os.path.join(VERIF, "engine", "isaclass.py"), "rb").read())
    files = []
    for d in ("include", "crc", "erasure_code", "igzip", "mem", "raid"):
        for root, _, fs in os.walk(os.path.join(repo, d)):
            if "aarch64" in root or "riscv64" in root or "ppc64le" in root:
                continue
            for f in fs:
                if f.endswith((".c", ".h", ".asm", ".inc", ".am")):
                    files.append(os.path.join(root, f))
    files.append(os.path.join(repo, "Makefile.am"))
    for f in sorted(files):
        h.update(f.encode())
        try:
            h.update(open(f, "rb").read())
        except OSError:
            pass
    return h.hexdigest()[:16]


def run(cmd, **kw):
    r = subprocess.run(cmd, stdout=subprocess.PIPE, stderr=subprocess.STDOUT, text=True, **kw)
    if r.returncode != 0:
        sys.stderr.write("BUILD FAILED: %s\n%s\n" % (" ".join(cmd), r.stdout))
        raise SystemExit(2)
    return r.stdout


def build(flavour, repo="/repo"):
    fl = FLAVOURS[flavour]
    hsh = tree_hash(repo, flavour)
    out = os.path.join(BUILD, "%s-%s" % (flavour, hsh))
    if os.path.exists(os.path.join(out, "DONE")):
        return out
    os.makedirs(BUILD, exist_ok=True)
    # drop stale builds of this flavour
    for d in os.listdir(BUILD):
        if d.startswith(flavour + "-") and d != os.path.basename(out):
            shutil.rmtree(os.path.join(BUILD, d), ignore_errors=True)
    shutil.rmtree(out, ignore_errors=True)
    os.makedirs(out)
    v = parse_makefiles(repo)
    csrc = list(v["lsrc"])
    asrc = list(v["lsrc_x86_64"]) if fl["asm"] else []
    if not fl["asm"]:
        csrc += v["lsrc_base_aliases"]
    else:
        # the x86_64 list contains a few .c files as well (ec_highlevel_func.c ...)
        csrc += [s for s in asrc if s.endswith(".c")]
        asrc = [s for s in asrc if s.endswith(".asm")]
    inc = ["-I", os.path.join(repo, "include")]
    for d in ("igzip", "crc", "erasure_code", "raid", "mem"):
        inc += ["-I", os.path.join(repo, d)]
    cflags = ["-fno-pie", "-fno-stack-protector", "-Wno-error", "-w", "-Dx86_64",
              "-DHAVE_AS_KNOWS_AVX512", "-DAS_FEATURE_LEVEL=10"] + fl["c"] + fl["d"]
    ninc = ["-I", os.path.join(repo, "include") + "/"]
    for d in ("igzip", "crc", "erasure_code", "raid", "mem"):
        ninc += ["-I", os.path.join(repo, d) + "/"]
    aflags = ["-f", "elf64", "-DREL_TEXT", "-DHAVE_AS_KNOWS_AVX512", "-DAS_FEATURE_LEVEL=10", "-Dx86_64"] + fl["d"]
    pre = os.path.join(VERIF, "engine", "verif_pre.inc")
    jobs = []
    objs = []
    for s in csrc:
        o = os.path.join(out, s.replace("/", "_") + ".o")
        objs.append(o)
        jobs.append(["gcc", "-c"] + cflags + inc + [os.path.join(repo, s), "-o", o])
    for s in asrc:
        o = os.path.join(out, s.replace("/", "_") + ".o")
        objs.append(o)
        cmd = ["nasm"] + aflags + ninc
        if s.endswith("_multibinary.asm"):
            cmd += ["-p", pre]
        cmd += [os.path.join(repo, s), "-o", o, "-l", o[:-2] + ".lst"]
        jobs.append(cmd)
    with concurrent.futures.ThreadPoolExecutor(16) as ex:
        list(ex.map(run, jobs))
    allo = os.path.join(out, "isal_all.o")
    run(["ld", "-r", "-o", allo + ".tmp"] + objs)
    # symbols: find dispatch slots
    syms = run(["nm", allo + ".tmp"]).splitlines()
    slots = sorted(set(m.group(1) for m in (re.match(r"^\S+\s+\w\s+(\w+)_dispatched$", l) for l in syms) if m))
    glob = []
    for s in slots:
        glob += [s + "_dispatched", s + "_dispatch_init", s + "_mbinit"]
    with open(os.path.join(out, "globalize.txt"), "w") as f:
        f.write("\n".join(glob) + "\n")
    run(["objcopy", "--globalize-symbols=" + os.path.join(out, "globalize.txt"),
         "--rename-section", ".data=isal_data,alloc,load,data,contents",
         "--rename-section", ".bss=isal_bss,alloc",
         allo + ".tmp", allo])
    os.unlink(allo + ".tmp")
    with open(os.path.join(out, "slots.c"), "w") as f:
        f.write("/* generated by build.py */\n#include \"slots.h\"\n")
        for s in slots:
            f.write("extern void *%s_dispatched; extern void %s_dispatch_init(void); extern void %s_mbinit(void); extern void %s(void);\n" % (s, s, s, s))
        f.write("struct verif_slot verif_slots[] = {\n")
        for s in slots:
            f.write("  {\"%s\", &%s_dispatched, (void*)%s_mbinit, (void(*)(void))%s_dispatch_init, (void*)%s},\n" % (s, s, s, s, s))
        f.write("  {0,0,0,0,0}};\nint verif_nslots = %d;\n" % len(slots))
    json.dump({"flavour": flavour, "hash": hsh, "slots": slots, "csrc": csrc, "asrc": asrc},
              open(os.path.join(out, "info.json"), "w"), indent=1)
    if fl["asm"]:
        sys.path.insert(0, os.path.join(VERIF, "engine"))
        import isaclass
        if isaclass.main(out) != 0:
            sys.stderr.write("BUILD FAILED: instruction classifier failed closed\n")
            raise SystemExit(2)
    open(os.path.join(out, "DONE"), "w").write("ok\n")
    return out


if __name__ == "__main__":
    fl = sys.argv[1]
    repo = "/repo"
    if "--repo" in sys.argv:
        repo = sys.argv[sys.argv.index("--repo") + 1]
    print(build(fl, repo))
