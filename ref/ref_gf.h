/* Reference GF(2^8)/0x11D arithmetic: carry-less shift-and-xor multiply reduced bit by bit,
 * inverse by search, Gaussian elimination for rank/inverse. Shares nothing with ISA-L. */
#ifndef REF_GF_H
#define REF_GF_H
#include <stdint.h>
#include <string.h>
static inline uint8_t rgf_mul_slow(uint8_t a, uint8_t b)
{
	uint16_t acc = 0, aa = a;
	for (int i = 0; i < 8; i++)
		if (b & (1 << i))
			acc ^= aa << i;
	for (int i = 14; i >= 8; i--)
		if (acc & (1 << i))
			acc ^= 0x11D << (i - 8);
	return (uint8_t)acc;
}
static uint8_t rgf_tab[256][256];
static uint8_t rgf_invt[256];
static int rgf_ready;
static inline void rgf_init(void)
{
	if (rgf_ready)
		return;
	for (int a = 0; a < 256; a++)
		for (int b = 0; b < 256; b++)
			rgf_tab[a][b] = rgf_mul_slow(a, b);
	for (int a = 1; a < 256; a++)
		for (int b = 1; b < 256; b++)
			if (rgf_tab[a][b] == 1)
				rgf_invt[a] = b;
	rgf_ready = 1;
}
static inline uint8_t rgf_mul(uint8_t a, uint8_t b) { return rgf_tab[a][b]; }
static inline uint8_t rgf_inv(uint8_t a) { return rgf_invt[a]; }
/* rank of n x m matrix (row-major), destroys a copy */
static inline int rgf_rank(const uint8_t *m_, int n, int m)
{
	uint8_t a[n * m];
	memcpy(a, m_, n * m);
	int r = 0;
	for (int c = 0; c < m && r < n; c++) {
		int p = -1;
		for (int i = r; i < n; i++)
			if (a[i * m + c]) { p = i; break; }
		if (p < 0)
			continue;
		if (p != r)
			for (int j = 0; j < m; j++) { uint8_t t = a[r * m + j]; a[r * m + j] = a[p * m + j]; a[p * m + j] = t; }
		uint8_t iv = rgf_inv(a[r * m + c]);
		for (int j = 0; j < m; j++)
			a[r * m + j] = rgf_mul(a[r * m + j], iv);
		for (int i = 0; i < n; i++)
			if (i != r && a[i * m + c]) {
				uint8_t f = a[i * m + c];
				for (int j = 0; j < m; j++)
					a[i * m + j] ^= rgf_mul(f, a[r * m + j]);
			}
		r++;
	}
	return r;
}
/* c = a(n x k) * b(k x m) */
static inline void rgf_matmul(const uint8_t *a, const uint8_t *b, uint8_t *c, int n, int k, int m)
{
	for (int i = 0; i < n; i++)
		for (int j = 0; j < m; j++) {
			uint8_t s = 0;
			for (int l = 0; l < k; l++)
				s ^= rgf_mul(a[i * k + l], b[l * m + j]);
			c[i * m + j] = s;
		}
}
/* software model of GF2P8AFFINEQB for one byte: matrix qword A, input x, imm 0 */
static inline uint8_t rgf_affine(uint64_t A, uint8_t x)
{
	uint8_t r = 0;
	for (int i = 0; i < 8; i++) {
		uint8_t row = (uint8_t)(A >> (8 * (7 - i)));
		r |= (uint8_t)(__builtin_parity(row & x) << i);
	}
	return r;
}
#endif
