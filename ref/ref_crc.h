/* Reference CRCs: bit-at-a-time definition (Rocksoft model), anchored to published check values.
 * A per-polynomial 256-entry table is derived from the bit-serial routine at start-up (for speed
 * only; it is verified against the bit-serial routine). Shares nothing with ISA-L. */
#ifndef REF_CRC_H
#define REF_CRC_H
#include <stdint.h>
#include <stddef.h>
#include <string.h>

/* raw register update, one bit at a time. width<=64. refl: LSB-first (poly given in normal form) */
static inline uint64_t rcrc_reflect(uint64_t v, int w)
{
	uint64_t r = 0;
	for (int i = 0; i < w; i++)
		if (v >> i & 1)
			r |= 1ull << (w - 1 - i);
	return r;
}
static inline uint64_t rcrc_bits(int w, uint64_t poly, int refl, uint64_t reg, const uint8_t *p, size_t n)
{
	uint64_t mask = w == 64 ? ~0ull : ((1ull << w) - 1), top = 1ull << (w - 1);
	if (!refl) {
		for (size_t i = 0; i < n; i++)
			for (int b = 7; b >= 0; b--) {
				int in = p[i] >> b & 1;
				int fb = ((reg & top) ? 1 : 0) ^ in;
				reg = (reg << 1) & mask;
				if (fb)
					reg ^= poly;
			}
	} else {
		uint64_t rp = rcrc_reflect(poly, w);
		for (size_t i = 0; i < n; i++)
			for (int b = 0; b < 8; b++) {
				int in = p[i] >> b & 1;
				int fb = (int)(reg & 1) ^ in;
				reg >>= 1;
				if (fb)
					reg ^= rp;
			}
	}
	return reg & mask;
}
struct rcrc { int w; uint64_t poly; int refl; uint64_t tab[256]; int ready; };
static inline void rcrc_mk(struct rcrc *c, int w, uint64_t poly, int refl)
{
	c->w = w; c->poly = poly; c->refl = refl;
	for (int i = 0; i < 256; i++) {
		uint8_t b = (uint8_t)i;
		/* table[i] = register after feeding byte i into a zero register */
		c->tab[i] = rcrc_bits(w, poly, refl, 0, &b, 1);
	}
	c->ready = 1;
}
static inline uint64_t rcrc_run(const struct rcrc *c, uint64_t reg, const uint8_t *p, size_t n)
{
	int w = c->w;
	uint64_t mask = w == 64 ? ~0ull : ((1ull << w) - 1);
	if (c->refl)
		for (size_t i = 0; i < n; i++)
			reg = c->tab[(reg ^ p[i]) & 0xff] ^ (reg >> 8);
	else
		for (size_t i = 0; i < n; i++)
			reg = (c->tab[((reg >> (w - 8)) ^ p[i]) & 0xff] ^ (reg << 8)) & mask;
	return reg;
}
/* catalogue model */
static inline uint64_t rcrc_model(const struct rcrc *c, uint64_t init, uint64_t xorout, const uint8_t *p, size_t n)
{
	uint64_t mask = c->w == 64 ? ~0ull : ((1ull << c->w) - 1);
	uint64_t reg = c->refl ? rcrc_reflect(init, c->w) : init;
	reg = rcrc_run(c, reg, p, n);
	/* refin==refout in all catalogued CRCs used here */
	return (reg ^ xorout) & mask;
}

static struct rcrc R_T10, R_IEEE_N, R_IEEE_R, R_ISCSI, R_ECMA_N, R_ECMA_R, R_ISO_N, R_ISO_R, R_JONES_N, R_JONES_R, R_ROCK_N, R_ROCK_R;
/* returns 0 ok, else index of failed self test */
static inline int rcrc_init(void)
{
	static const uint8_t chk[] = "123456789";
	rcrc_mk(&R_T10, 16, 0x8BB7, 0);
	rcrc_mk(&R_IEEE_N, 32, 0x04C11DB7, 0);
	rcrc_mk(&R_IEEE_R, 32, 0x04C11DB7, 1);
	rcrc_mk(&R_ISCSI, 32, 0x1EDC6F41, 1);
	rcrc_mk(&R_ECMA_N, 64, 0x42F0E1EBA9EA3693ull, 0);
	rcrc_mk(&R_ECMA_R, 64, 0x42F0E1EBA9EA3693ull, 1);
	rcrc_mk(&R_ISO_N, 64, 0x000000000000001Bull, 0);
	rcrc_mk(&R_ISO_R, 64, 0x000000000000001Bull, 1);
	rcrc_mk(&R_JONES_N, 64, 0xAD93D23594C935A9ull, 0);
	rcrc_mk(&R_JONES_R, 64, 0xAD93D23594C935A9ull, 1);
	rcrc_mk(&R_ROCK_N, 64, 0xAD93D23594C93659ull, 0);
	rcrc_mk(&R_ROCK_R, 64, 0xAD93D23594C93659ull, 1);
	/* table-driven == bit-serial on a longer message, for every polynomial */
	uint8_t msg[97];
	for (int i = 0; i < 97; i++)
		msg[i] = (uint8_t)(i * 131 + 17);
	struct rcrc *all[] = { &R_T10, &R_IEEE_N, &R_IEEE_R, &R_ISCSI, &R_ECMA_N, &R_ECMA_R, &R_ISO_N, &R_ISO_R, &R_JONES_N, &R_JONES_R, &R_ROCK_N, &R_ROCK_R };
	for (int i = 0; i < 12; i++)
		if (rcrc_run(all[i], 0x1234567, msg, 97) != rcrc_bits(all[i]->w, all[i]->poly, all[i]->refl, 0x1234567 & (all[i]->w == 64 ? ~0ull : ((1ull << all[i]->w) - 1)), msg, 97))
			return 100 + i;
	/* published check values (reveng catalogue) */
	if (rcrc_model(&R_T10, 0, 0, chk, 9) != 0xD0DB) return 1;                         /* CRC-16/T10-DIF */
	if (rcrc_model(&R_IEEE_R, 0xFFFFFFFF, 0xFFFFFFFF, chk, 9) != 0xCBF43926) return 2; /* CRC-32/ISO-HDLC */
	if (rcrc_model(&R_IEEE_N, 0xFFFFFFFF, 0xFFFFFFFF, chk, 9) != 0xFC891918) return 3; /* CRC-32/BZIP2 */
	if (rcrc_model(&R_ISCSI, 0xFFFFFFFF, 0xFFFFFFFF, chk, 9) != 0xE3069283) return 4;  /* CRC-32C */
	if (rcrc_model(&R_ECMA_N, 0, 0, chk, 9) != 0x6C40DF5F0B497347ull) return 5;         /* CRC-64/ECMA-182 */
	if (rcrc_model(&R_ECMA_R, ~0ull, ~0ull, chk, 9) != 0x995DC9BBDF1939FAull) return 6;  /* CRC-64/XZ */
	if (rcrc_model(&R_ISO_R, ~0ull, ~0ull, chk, 9) != 0xB90956C775A41001ull) return 7;   /* CRC-64/GO-ISO */
	if (rcrc_model(&R_JONES_R, 0, 0, chk, 9) != 0xE9C6D914C4B8D9CAull) return 8;         /* CRC-64/REDIS */
	if (rcrc_model(&R_ROCK_R, ~0ull, ~0ull, chk, 9) != 0xAE8B14860A799888ull) return 9;  /* CRC-64/NVME */
	if (rcrc_model(&R_ECMA_N, ~0ull, ~0ull, chk, 9) != 0x62EC59E3F1A4F00Aull) return 10; /* CRC-64/WE */
	return 0;
}
/* ISA-L entry-point conventions (crc.h / crc64.h): which inversions each function applies */
static inline uint16_t ref_crc16_t10dif(uint16_t seed, const uint8_t *p, size_t n) { return (uint16_t)rcrc_run(&R_T10, seed, p, n); }
static inline uint32_t ref_crc32_ieee(uint32_t seed, const uint8_t *p, size_t n) { return ~(uint32_t)rcrc_run(&R_IEEE_N, (uint32_t)~seed, p, n); }
static inline uint32_t ref_crc32_gzip_refl(uint32_t seed, const uint8_t *p, size_t n) { return ~(uint32_t)rcrc_run(&R_IEEE_R, (uint32_t)~seed, p, n); }
static inline uint32_t ref_crc32_iscsi(const uint8_t *p, size_t n, uint32_t seed) { return (uint32_t)rcrc_run(&R_ISCSI, seed, p, n); }
static inline uint64_t ref_crc64(const struct rcrc *c, uint64_t seed, const uint8_t *p, size_t n) { return ~rcrc_run(c, ~seed, p, n); }

/* Adler-32, RFC 1950 */
static inline uint32_t ref_adler32(uint32_t init, const uint8_t *p, size_t n)
{
	uint32_t a = init & 0xffff, b = init >> 16;
	for (size_t i = 0; i < n; i++) {
		a = (a + p[i]) % 65521;
		b = (b + a) % 65521;
	}
	return b << 16 | a;
}
#endif
