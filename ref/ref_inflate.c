/* Independent bit-serial inflate reference. See ref_inflate.h. */
#include "ref_inflate.h"
#include <string.h>

/* ---------- checksums (own implementations) ---------- */
static uint32_t crc_tab[256];
static int crc_ready;
static void crc_init(void)
{
	for (uint32_t i = 0; i < 256; i++) {
		uint32_t c = i;
		for (int k = 0; k < 8; k++)
			c = (c & 1) ? 0xEDB88320u ^ (c >> 1) : c >> 1;
		crc_tab[i] = c;
	}
	crc_ready = 1;
}
uint32_t ri_crc32(uint32_t crc, const uint8_t *p, size_t n)
{
	if (!crc_ready)
		crc_init();
	crc = ~crc;
	for (size_t i = 0; i < n; i++)
		crc = crc_tab[(crc ^ p[i]) & 0xff] ^ (crc >> 8);
	return ~crc;
}
uint32_t ri_adler32(uint32_t adler, const uint8_t *p, size_t n)
{
	uint32_t a = adler & 0xffff, b = adler >> 16;
	for (size_t i = 0; i < n; i++) {
		a += p[i];
		if (a >= 65521)
			a -= 65521;
		b += a;
		if (b >= 65521)
			b -= 65521;
	}
	return b << 16 | a;
}
const char *ri_class_name(int c)
{
	static const char *n[] = { "none", "invalid-block", "invalid-symbol", "invalid-lookback", "invalid-wrapper", "unsupported-method", "incorrect-checksum", "need-dict" };
	return c >= 0 && c < 8 ? n[c] : "?";
}

/* ---------- bit reader ---------- */
struct br { const uint8_t *in; size_t len; size_t bit; int eof; };
static int getbit(struct br *b)
{
	if (b->bit >= b->len * 8) {
		b->eof = 1;
		return 0;
	}
	int v = b->in[b->bit >> 3] >> (b->bit & 7) & 1;
	b->bit++;
	return v;
}
static uint32_t getbits(struct br *b, int n)
{
	uint32_t v = 0;
	for (int i = 0; i < n; i++)
		v |= (uint32_t)getbit(b) << i;
	return v;
}

/* ---------- canonical Huffman code from lengths ---------- */
struct huff { uint16_t count[16]; uint16_t symbol[288]; int nsym; };
/* returns >0 incomplete (left over), 0 complete, <0 over-subscribed */
static int build(struct huff *h, const uint8_t *len, int n)
{
	memset(h->count, 0, sizeof h->count);
	for (int i = 0; i < n; i++)
		h->count[len[i]]++;
	h->nsym = n;
	int left = 1;
	for (int l = 1; l <= 15; l++) {
		left <<= 1;
		left -= h->count[l];
		if (left < 0)
			return left;
	}
	uint16_t offs[16];
	offs[1] = 0;
	for (int l = 1; l < 15; l++)
		offs[l + 1] = offs[l] + h->count[l];
	for (int i = 0; i < n; i++)
		if (len[i])
			h->symbol[offs[len[i]]++] = (uint16_t)i;
	return left;
}
/* decode one symbol bit by bit; -1 = code not assigned (ran past 15 bits), -2 = out of input */
static int decode(struct br *b, const struct huff *h)
{
	int code = 0, first = 0, index = 0;
	for (int l = 1; l <= 15; l++) {
		code |= getbit(b);
		if (b->eof)
			return -2;
		int count = h->count[l];
		if (code - count < first)
			return h->symbol[index + (code - first)];
		index += count;
		first += count;
		first <<= 1;
		code <<= 1;
	}
	return -1;
}

static const uint16_t len_base[29] = { 3, 4, 5, 6, 7, 8, 9, 10, 11, 13, 15, 17, 19, 23, 27, 31, 35, 43, 51, 59, 67, 83, 99, 115, 131, 163, 195, 227, 258 };
static const uint8_t len_extra[29] = { 0, 0, 0, 0, 0, 0, 0, 0, 1, 1, 1, 1, 2, 2, 2, 2, 3, 3, 3, 3, 4, 4, 4, 4, 5, 5, 5, 5, 0 };
static const uint16_t dist_base[30] = { 1, 2, 3, 4, 5, 7, 9, 13, 17, 25, 33, 49, 65, 97, 129, 193, 257, 385, 513, 769, 1025, 1537, 2049, 3073, 4097, 6145, 8193, 12289, 16385, 24577 };
static const uint8_t dist_extra[30] = { 0, 0, 0, 0, 1, 1, 2, 2, 3, 3, 4, 4, 5, 5, 6, 6, 7, 7, 8, 8, 9, 9, 10, 10, 11, 11, 12, 12, 13, 13 };

#define FAIL(c, w)                    \
	do {                          \
		res->verdict = RI_INVALID; \
		res->cls = (c);       \
		res->why = (w);       \
		return -1;            \
	} while (0)
#define NEED(w)                          \
	do {                             \
		res->verdict = RI_NEED_INPUT; \
		res->why = (w);          \
		return -1;               \
	} while (0)

static int put(struct ri_result *res, uint8_t c)
{
	if (res->out_len >= res->out_cap) {
		res->verdict = RI_OUT_FULL;
		res->why = "reference output buffer full";
		return -1;
	}
	res->out[res->out_len++] = c;
	return 0;
}

static int codes(struct br *b, const struct ri_opts *opt, struct ri_result *res, struct ri_block *blk, const struct huff *ll, const struct huff *d)
{
	uint32_t window = opt->window ? opt->window : 32768;
	for (;;) {
		int sym = decode(b, ll);
		if (sym == -2)
			NEED("input ends inside a literal/length code");
		if (sym == -1)
			FAIL(RC_SYMBOL, "literal/length code not assigned");
		if (sym < 256) {
			if (put(res, (uint8_t)sym))
				return -1;
			if (blk)
				blk->nlit++;
		} else if (sym == 256) {
			return 0;
		} else {
			sym -= 257;
			if (sym >= 29)
				FAIL(RC_SYMBOL, "length symbol 286/287");
			uint32_t len = len_base[sym] + getbits(b, len_extra[sym]);
			if (b->eof)
				NEED("input ends inside length extra bits");
			int ds = decode(b, d);
			if (ds == -2)
				NEED("input ends inside a distance code");
			if (ds == -1)
				FAIL(RC_SYMBOL, "distance code not assigned");
			if (ds >= 30)
				FAIL(RC_SYMBOL, "distance symbol 30/31");
			uint32_t dist = dist_base[ds] + getbits(b, dist_extra[ds]);
			if (b->eof)
				NEED("input ends inside distance extra bits");
			if (dist > res->out_len + opt->hist_len)
				FAIL(RC_LOOKBACK, "distance reaches before the start of output/history");
			if (dist > window)
				FAIL(RC_LOOKBACK, "distance larger than the window");
			if (dist > res->max_dist)
				res->max_dist = dist;
			if (blk) {
				if (dist > blk->max_dist)
					blk->max_dist = dist;
				blk->nmatch++;
			}
			if (dist > res->out_len && dist - res->out_len > res->max_reach_back)
				res->max_reach_back = dist - res->out_len;
			for (uint32_t i = 0; i < len; i++) {
				uint8_t c;
				if (dist > res->out_len)
					c = opt->hist[opt->hist_len - (dist - res->out_len)];
				else
					c = res->out[res->out_len - dist];
				if (put(res, c))
					return -1;
			}
		}
	}
}

static int stored(struct br *b, struct ri_result *res)
{
	b->bit = (b->bit + 7) & ~(size_t)7;
	if (b->bit / 8 + 4 > b->len)
		NEED("input ends inside stored-block LEN/NLEN");
	size_t p = b->bit / 8;
	uint32_t len = b->in[p] | b->in[p + 1] << 8, nlen = b->in[p + 2] | b->in[p + 3] << 8;
	if (len != (~nlen & 0xffff))
		FAIL(RC_BLOCK, "stored block LEN/NLEN mismatch");
	p += 4;
	size_t avail = b->len - p;
	size_t n = len < avail ? len : avail;
	for (size_t i = 0; i < n; i++)
		if (put(res, b->in[p + i]))
			return -1;
	b->bit = (p + n) * 8;
	if (n < len)
		NEED("input ends inside stored-block data");
	return 0;
}

static int fixed_block(struct br *b, const struct ri_opts *opt, struct ri_result *res, struct ri_block *blk)
{
	static struct huff ll, d;
	static int ready;
	if (!ready) {
		uint8_t l[288], dl[32];
		for (int i = 0; i < 144; i++) l[i] = 8;
		for (int i = 144; i < 256; i++) l[i] = 9;
		for (int i = 256; i < 280; i++) l[i] = 7;
		for (int i = 280; i < 288; i++) l[i] = 8;
		build(&ll, l, 288);
		for (int i = 0; i < 32; i++) dl[i] = 5; /* 30, 31 decode but are invalid symbols */
		build(&d, dl, 32);
		ready = 1;
	}
	return codes(b, opt, res, blk, &ll, &d);
}

static int dynamic_block(struct br *b, const struct ri_opts *opt, struct ri_result *res, struct ri_block *blk)
{
	static const uint8_t order[19] = { 16, 17, 18, 0, 8, 7, 9, 6, 10, 5, 11, 4, 12, 3, 13, 2, 14, 1, 15 };
	int nlen = (int)getbits(b, 5) + 257, ndist = (int)getbits(b, 5) + 1, ncode = (int)getbits(b, 4) + 4;
	if (b->eof)
		NEED("input ends inside HLIT/HDIST/HCLEN");
	if (blk) {
		blk->hlit = nlen;
		blk->hdist = ndist;
		blk->hclen = ncode;
	}
	if (nlen > 286)
		FAIL(RC_BLOCK, "HLIT > 286 codes");
	if (ndist > 30)
		FAIL(RC_BLOCK, "HDIST > 30 codes");
	uint8_t cl[19] = { 0 }, lengths[320];
	for (int i = 0; i < ncode; i++)
		cl[order[i]] = (uint8_t)getbits(b, 3);
	if (b->eof)
		NEED("input ends inside code-length code lengths");
	struct huff clh;
	int r = build(&clh, cl, 19);
	if (r < 0)
		FAIL(RC_BLOCK, "code-length code over-subscribed");
	int idx = 0;
	while (idx < nlen + ndist) {
		int sym = decode(b, &clh);
		if (sym == -2)
			NEED("input ends inside code lengths");
		if (sym == -1)
			FAIL(RC_BLOCK, "code-length code not assigned");
		if (sym < 16)
			lengths[idx++] = (uint8_t)sym;
		else {
			int len = 0, rep;
			if (sym == 16) {
				if (idx == 0)
					FAIL(RC_BLOCK, "repeat code 16 with no previous length");
				len = lengths[idx - 1];
				rep = 3 + (int)getbits(b, 2);
			} else if (sym == 17)
				rep = 3 + (int)getbits(b, 3);
			else
				rep = 11 + (int)getbits(b, 7);
			if (b->eof)
				NEED("input ends inside repeat count");
			if (idx + rep > nlen + ndist)
				FAIL(RC_BLOCK, "code length repeat runs past HLIT+HDIST");
			while (rep--)
				lengths[idx++] = (uint8_t)len;
		}
	}
	if (blk) {
		memset(blk->ll_len, 0, sizeof blk->ll_len);
		memset(blk->d_len, 0, sizeof blk->d_len);
		memcpy(blk->ll_len, lengths, nlen);
		memcpy(blk->d_len, lengths + nlen, ndist);
	}
	if (blk)
		blk->hdr_end_bit = b->bit;
	if (lengths[256] == 0)
		FAIL(RC_BLOCK, "no end-of-block code");
	struct huff ll, d;
	r = build(&ll, lengths, nlen);
	if (r < 0)
		FAIL(RC_BLOCK, "literal/length code over-subscribed");
	if (blk)
		blk->ll_incomplete = r > 0;
	r = build(&d, lengths + nlen, ndist);
	if (r < 0)
		FAIL(RC_BLOCK, "distance code over-subscribed");
	if (blk)
		blk->d_incomplete = r > 0;
	return codes(b, opt, res, blk, &ll, &d);
}

static int gzip_header(const uint8_t *in, size_t len, struct ri_result *res, size_t *pos)
{
	size_t p = 0;
	if (len < 2)
		NEED("gzip header");
	if (in[0] != 0x1f || in[1] != 0x8b)
		FAIL(RC_WRAPPER, "gzip magic");
	if (len < 3)
		NEED("gzip header");
	if (in[2] != 8)
		FAIL(RC_METHOD, "gzip CM != 8");
	if (len < 10)
		NEED("gzip header");
	int flg = in[3];
	res->gz.text = flg & 1;
	res->gz.mtime = in[4] | in[5] << 8 | in[6] << 16 | (uint32_t)in[7] << 24;
	res->gz.xfl = in[8];
	res->gz.os = in[9];
	p = 10;
	if (flg & 4) {
		if (len < p + 2)
			NEED("gzip XLEN");
		uint32_t xl = in[p] | in[p + 1] << 8;
		p += 2;
		if (len < p + xl)
			NEED("gzip extra");
		res->gz.has_extra = 1;
		res->gz.extra = in + p;
		res->gz.extra_len = xl;
		p += xl;
	}
	if (flg & 8) {
		size_t s = p;
		while (p < len && in[p])
			p++;
		if (p >= len)
			NEED("gzip name");
		res->gz.has_name = 1;
		res->gz.name = in + s;
		res->gz.name_len = (uint32_t)(p - s);
		p++;
	}
	if (flg & 16) {
		size_t s = p;
		while (p < len && in[p])
			p++;
		if (p >= len)
			NEED("gzip comment");
		res->gz.has_comment = 1;
		res->gz.comment = in + s;
		res->gz.comment_len = (uint32_t)(p - s);
		p++;
	}
	if (flg & 2) {
		if (len < p + 2)
			NEED("gzip header crc");
		uint16_t h = in[p] | in[p + 1] << 8;
		res->gz.hcrc_present = 1;
		res->gz.hcrc = h;
		if ((ri_crc32(0, in, p) & 0xffff) != h)
			FAIL(RC_CHECKSUM, "gzip header crc16");
		p += 2;
	}
	*pos = p;
	return 0;
}

static int zlib_header(const uint8_t *in, size_t len, const struct ri_opts *opt, struct ri_result *res, size_t *pos)
{
	if (len < 2)
		NEED("zlib header");
	int cmf = in[0], flg = in[1];
	if ((cmf & 15) != 8)
		FAIL(RC_METHOD, "zlib CM != 8");
	res->zl.cinfo = cmf >> 4;
	res->zl.flevel = flg >> 6;
	res->zl.fdict = flg >> 5 & 1;
	if ((cmf * 256 + flg) % 31)
		FAIL(RC_CHECKSUM, "zlib FCHECK");
	size_t p = 2;
	if (res->zl.fdict) {
		if (len < 6)
			NEED("zlib DICTID");
		res->zl.dictid = (uint32_t)in[2] << 24 | in[3] << 16 | in[4] << 8 | in[5];
		p = 6;
		if (!opt->zlib_accept_dict) {
			res->verdict = RI_INVALID;
			res->cls = RC_NEED_DICT;
			res->why = "FDICT set";
			*pos = p;
			return -1;
		}
	}
	*pos = p;
	return 0;
}

static int run(const uint8_t *in, size_t in_len, const struct ri_opts *opt, struct ri_result *res)
{
	size_t pos = 0;
	if (!opt->no_header) {
		if (opt->wrapper == RW_GZIP && gzip_header(in, in_len, res, &pos))
			return -1;
		if (opt->wrapper == RW_ZLIB && zlib_header(in, in_len, opt, res, &pos))
			return -1;
	}
	res->body_start = pos;
	struct br b = { in, in_len, pos * 8, 0 };
	res->last_boundary_bit = b.bit;
	for (;;) {
		if (opt->prefix_mode && b.bit >= in_len * 8) {
			/* input exhausted exactly at a block boundary (flush point / unterminated one-shot output) */
			res->verdict = RI_VALID;
			res->end_bit = b.bit;
			res->end_byte = (b.bit + 7) / 8;
			res->crc32 = ri_crc32(0, res->out, res->out_len);
			res->adler32 = ri_adler32(1, res->out, res->out_len);
			return 0;
		}
		struct ri_block *blk = res->nblocks < RI_MAXBLK ? &res->blk[res->nblocks] : NULL;
		if (blk)
			memset(blk, 0, offsetof(struct ri_block, ll_len));
		size_t bs = b.bit, os = res->out_len;
		int bfinal = getbit(&b);
		int type = (int)getbits(&b, 2);
		if (b.eof)
			NEED("input ends inside a block header");
		if (blk) {
			blk->type = type;
			blk->bfinal = bfinal;
			blk->bit_start = bs;
			blk->out_start = os;
		}
		int r;
		if (type == 0)
			r = stored(&b, res);
		else if (type == 1)
			r = fixed_block(&b, opt, res, blk);
		else if (type == 2)
			r = dynamic_block(&b, opt, res, blk);
		else
			FAIL(RC_BLOCK, "reserved block type 3");
		if (blk) {
			blk->bit_end = b.bit;
			blk->out_end = res->out_len;
			res->nblocks++;
		}
		if (r)
			return -1;
		res->last_boundary_bit = b.bit;
		res->last_boundary_out = res->out_len;
		if (bfinal) {
			res->saw_bfinal = 1;
			break;
		}
	}
	res->end_bit = b.bit;
	size_t p = (b.bit + 7) / 8;
	res->crc32 = ri_crc32(0, res->out, res->out_len);
	res->adler32 = ri_adler32(1, res->out, res->out_len);
	if (!opt->no_trailer) {
		if (opt->wrapper == RW_GZIP) {
			if (in_len < p + 8)
				NEED("gzip trailer");
			res->trailer_sum = in[p] | in[p + 1] << 8 | in[p + 2] << 16 | (uint32_t)in[p + 3] << 24;
			res->trailer_isize = in[p + 4] | in[p + 5] << 8 | in[p + 6] << 16 | (uint32_t)in[p + 7] << 24;
			p += 8;
			if (res->trailer_sum != res->crc32)
				FAIL(RC_CHECKSUM, "gzip CRC-32 mismatch");
			if (res->trailer_isize != (uint32_t)res->out_len)
				FAIL(RC_CHECKSUM, "gzip ISIZE mismatch");
		} else if (opt->wrapper == RW_ZLIB) {
			if (in_len < p + 4)
				NEED("zlib trailer");
			res->trailer_sum = (uint32_t)in[p] << 24 | in[p + 1] << 16 | in[p + 2] << 8 | in[p + 3];
			p += 4;
			if (res->trailer_sum != res->adler32)
				FAIL(RC_CHECKSUM, "zlib Adler-32 mismatch");
		}
	}
	res->end_byte = p;
	res->verdict = RI_VALID;
	return 0;
}

void ref_inflate(const uint8_t *in, size_t in_len, const struct ri_opts *opt, struct ri_result *res)
{
	uint8_t *out = res->out;
	size_t cap = res->out_cap;
	memset(res, 0, offsetof(struct ri_result, blk));
	res->out = out;
	res->out_cap = cap;
	memset(&res->gz, 0, sizeof res->gz);
	memset(&res->zl, 0, sizeof res->zl);
	res->crc32 = res->adler32 = res->trailer_sum = res->trailer_isize = 0;
	res->last_boundary_bit = res->last_boundary_out = 0;
	res->verdict = RI_NEED_INPUT;
	run(in, in_len, opt, res);
	if (res->verdict != RI_VALID) {
		res->crc32 = ri_crc32(0, res->out, res->out_len);
		res->adler32 = ri_adler32(1, res->out, res->out_len);
	}
}
