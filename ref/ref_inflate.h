/* Independent bit-serial RFC 1951 / 1950 / 1952 reference decoder. Shares no code or tables with
 * ISA-L or zlib: canonical codes are rebuilt from the code lengths and decoded one bit at a time.
 * Reports output, exact end position, per-block information including the maximum look-back
 * distance, and a classified verdict. See DESIGN.md 2.3. */
#ifndef REF_INFLATE_H
#define REF_INFLATE_H
#include <stdint.h>
#include <stddef.h>

enum { RI_VALID = 0, RI_NEED_INPUT = 1, RI_INVALID = 2, RI_OUT_FULL = 3 };
enum ri_class { RC_NONE = 0, RC_BLOCK, RC_SYMBOL, RC_LOOKBACK, RC_WRAPPER, RC_METHOD, RC_CHECKSUM, RC_NEED_DICT };
enum { RW_RAW = 0, RW_GZIP = 1, RW_ZLIB = 2 };
#define RI_MAXBLK 64

struct ri_block {
	int type, bfinal;
	size_t bit_start, bit_end;   /* bit offsets in the input */
	size_t hdr_end_bit;          /* dynamic blocks: first bit after the code-length section */
	size_t out_start, out_end;
	uint32_t max_dist;           /* largest match distance used in this block */
	uint32_t nlit, nmatch;
	int hlit, hdist, hclen;      /* dynamic blocks: counts (257.., 1.., 4..) */
	int ll_incomplete, d_incomplete;
	uint8_t ll_len[288], d_len[32];
};

struct ri_opts {
	int wrapper;        /* RW_* */
	int no_header;      /* wrapper header absent (ISA-L *_NO_HDR modes): body then trailer */
	int no_trailer;     /* do not parse / verify a trailer */
	const uint8_t *hist;
	size_t hist_len;    /* preset history (dictionary or previous output) */
	int prefix_mode;    /* input may end at a block boundary without BFINAL: then verdict VALID with saw_bfinal=0 */
	uint32_t window;    /* maximum admissible distance, 0 = 32768 */
	int zlib_accept_dict; /* with FDICT set: take DICTID and continue using hist */
};

struct ri_result {
	int verdict, cls;
	const char *why;
	uint8_t *out;
	size_t out_len, out_cap;
	size_t end_bit;        /* bit position just after the end-of-block code of the final block */
	size_t body_start;     /* byte offset of the first deflate byte (after the wrapper header) */
	size_t end_byte;       /* byte position after the whole stream incl. trailer */
	int saw_bfinal;
	uint32_t max_dist;     /* over the whole stream */
	size_t max_reach_back; /* max over matches of (distance - bytes produced before the match); > 0 reaches into history */
	int nblocks;
	struct ri_block blk[RI_MAXBLK];
	uint32_t crc32, adler32;   /* of the produced output (independent implementations) */
	uint32_t trailer_sum, trailer_isize;
	/* wrapper header fields */
	struct {
		int text, hcrc_present, os, xfl;
		uint32_t mtime;
		const uint8_t *extra; uint32_t extra_len; int has_extra;
		const uint8_t *name; int has_name; uint32_t name_len;
		const uint8_t *comment; int has_comment; uint32_t comment_len;
		uint16_t hcrc;
	} gz;
	struct { int cinfo, flevel, fdict; uint32_t dictid; } zl;
	size_t last_boundary_bit;  /* bit position of the end of the last completely decoded block */
	size_t last_boundary_out;
};

/* out buffer supplied by the caller in res->out / res->out_cap */
void ref_inflate(const uint8_t *in, size_t in_len, const struct ri_opts *opt, struct ri_result *res);
const char *ri_class_name(int cls);
uint32_t ri_crc32(uint32_t crc, const uint8_t *p, size_t n);   /* standard gzip CRC-32, bit-serial */
uint32_t ri_adler32(uint32_t adler, const uint8_t *p, size_t n);
#endif
