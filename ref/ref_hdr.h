/* Independent gzip (RFC 1952 2.3) / zlib (RFC 1950 2.2) header producer. The parser lives in ref_inflate. */
#ifndef REF_HDR_H
#define REF_HDR_H
#include <stdint.h>
#include <string.h>
#include "ref_inflate.h"
struct rh_gzip { int text; uint32_t mtime; int xfl, os; const uint8_t *extra; int extra_len; /* <0 absent */ const char *name; const char *comment; /* NULL absent */ int hcrc; };
static inline size_t rh_gzip_write(uint8_t *o, const struct rh_gzip *h)
{
	size_t p = 0;
	o[p++] = 0x1f; o[p++] = 0x8b; o[p++] = 8;
	o[p++] = (uint8_t)((h->text ? 1 : 0) | (h->hcrc ? 2 : 0) | (h->extra_len >= 0 ? 4 : 0) | (h->name ? 8 : 0) | (h->comment ? 16 : 0));
	o[p++] = (uint8_t)h->mtime; o[p++] = (uint8_t)(h->mtime >> 8); o[p++] = (uint8_t)(h->mtime >> 16); o[p++] = (uint8_t)(h->mtime >> 24);
	o[p++] = (uint8_t)h->xfl; o[p++] = (uint8_t)h->os;
	if (h->extra_len >= 0) { o[p++] = (uint8_t)h->extra_len; o[p++] = (uint8_t)(h->extra_len >> 8); memcpy(o + p, h->extra, h->extra_len); p += h->extra_len; }
	if (h->name) { size_t l = strlen(h->name) + 1; memcpy(o + p, h->name, l); p += l; }
	if (h->comment) { size_t l = strlen(h->comment) + 1; memcpy(o + p, h->comment, l); p += l; }
	if (h->hcrc) { uint32_t c = ri_crc32(0, o, p); o[p++] = (uint8_t)c; o[p++] = (uint8_t)(c >> 8); }
	return p;
}
struct rh_zlib { int cinfo, flevel, fdict; uint32_t dictid; };
static inline size_t rh_zlib_write(uint8_t *o, const struct rh_zlib *h)
{
	size_t p = 0;
	int cmf = 8 | h->cinfo << 4, flg = (h->flevel & 3) << 6 | (h->fdict ? 32 : 0);
	if ((cmf * 256 + flg) % 31) flg += 31 - (cmf * 256 + flg) % 31;
	o[p++] = (uint8_t)cmf; o[p++] = (uint8_t)flg;
	if (h->fdict) { o[p++] = (uint8_t)(h->dictid >> 24); o[p++] = (uint8_t)(h->dictid >> 16); o[p++] = (uint8_t)(h->dictid >> 8); o[p++] = (uint8_t)h->dictid; }
	return p;
}
static inline size_t rh_gzip_trailer(uint8_t *o, uint32_t crc, uint32_t isize) { for (int i = 0; i < 4; i++) { o[i] = (uint8_t)(crc >> (8 * i)); o[4 + i] = (uint8_t)(isize >> (8 * i)); } return 8; }
static inline size_t rh_zlib_trailer(uint8_t *o, uint32_t adler) { for (int i = 0; i < 4; i++) o[i] = (uint8_t)(adler >> (24 - 8 * i)); return 4; }
#endif
