/* Independent deflate stream GENERATOR (not a compressor): given block descriptions it emits the bit
 * stream. Used to reach encodings ISA-L's own compressor never produces and to inject grammar faults. */
#ifndef REF_GEN_H
#define REF_GEN_H
#include <stdint.h>
#include <stddef.h>
#include <string.h>

struct bw { uint8_t *buf; size_t cap; size_t bit; int overflow; };
static inline void bw_init(struct bw *w, uint8_t *buf, size_t cap) { w->buf = buf; w->cap = cap; w->bit = 0; w->overflow = 0; memset(buf, 0, cap); }
static inline void bw_bit(struct bw *w, int v)
{
	if (w->bit >= w->cap * 8) { w->overflow = 1; return; }
	if (v) w->buf[w->bit >> 3] |= (uint8_t)(1 << (w->bit & 7));
	w->bit++;
}
static inline void bw_bits(struct bw *w, uint32_t v, int n) { for (int i = 0; i < n; i++) bw_bit(w, v >> i & 1); }       /* LSB first */
static inline void bw_code(struct bw *w, uint32_t code, int len) { for (int i = len - 1; i >= 0; i--) bw_bit(w, code >> i & 1); } /* Huffman: MSB first */
static inline void bw_align(struct bw *w) { w->bit = (w->bit + 7) & ~(size_t)7; }
static inline size_t bw_bytes(const struct bw *w) { return (w->bit + 7) / 8; }
static inline void bw_byte(struct bw *w, uint8_t v) { bw_bits(w, v, 8); }

/* canonical code values from lengths (RFC 1951 3.2.2) */
static inline void gen_canon(const uint8_t *len, int n, uint16_t *code)
{
	int bl_count[16] = { 0 }, next[16];
	for (int i = 0; i < n; i++) bl_count[len[i]]++;
	bl_count[0] = 0;
	int c = 0;
	for (int b = 1; b <= 15; b++) { c = (c + bl_count[b - 1]) << 1; next[b] = c; }
	for (int i = 0; i < n; i++) code[i] = len[i] ? (uint16_t)next[len[i]]++ : 0;
}

struct tok { int len; int lit; int dist; }; /* len==0: literal `lit`; else match (len, dist); a match of length 258 with lit!=0 is written the OTHER valid way: symbol 284 + extra bits 31 (no encoder does, every decoder must take it) */

static const uint16_t g_len_base[29] = { 3, 4, 5, 6, 7, 8, 9, 10, 11, 13, 15, 17, 19, 23, 27, 31, 35, 43, 51, 59, 67, 83, 99, 115, 131, 163, 195, 227, 258 };
static const uint8_t g_len_extra[29] = { 0, 0, 0, 0, 0, 0, 0, 0, 1, 1, 1, 1, 2, 2, 2, 2, 3, 3, 3, 3, 4, 4, 4, 4, 5, 5, 5, 5, 0 };
static const uint16_t g_dist_base[30] = { 1, 2, 3, 4, 5, 7, 9, 13, 17, 25, 33, 49, 65, 97, 129, 193, 257, 385, 513, 769, 1025, 1537, 2049, 3073, 4097, 6145, 8193, 12289, 16385, 24577 };
static const uint8_t g_dist_extra[30] = { 0, 0, 0, 0, 1, 1, 2, 2, 3, 3, 4, 4, 5, 5, 6, 6, 7, 7, 8, 8, 9, 9, 10, 10, 11, 11, 12, 12, 13, 13 };
static inline int gen_len_sym(int len) { int s = 28; if (len == 258) return 28; for (s = 27; s >= 0; s--) if (len >= g_len_base[s]) break; return s; }
static inline int gen_tok_lsym(const struct tok *t) { return t->len == 258 && t->lit ? 27 : gen_len_sym(t->len); }
static inline int gen_dist_sym(int dist) { int s; for (s = 29; s >= 0; s--) if (dist >= g_dist_base[s]) break; return s; }

static inline void gen_block_hdr(struct bw *w, int bfinal, int type) { bw_bit(w, bfinal); bw_bits(w, type, 2); }
static inline void gen_stored(struct bw *w, int bfinal, const uint8_t *d, int len, int nlen_xor)
{
	gen_block_hdr(w, bfinal, 0);
	bw_align(w);
	bw_bits(w, len, 16);
	bw_bits(w, (~len ^ nlen_xor) & 0xffff, 16);
	for (int i = 0; i < len; i++) bw_byte(w, d[i]);
}
/* emit tokens with given codes; raw_ll/raw_d >= 0 inject a raw symbol (e.g. 286, dist 30) after the tokens */
static inline void gen_tokens(struct bw *w, const struct tok *t, int nt, const uint8_t *ll_len, const uint16_t *ll_code, const uint8_t *d_len, const uint16_t *d_code, int emit_eob)
{
	for (int i = 0; i < nt; i++) {
		if (!t[i].len) { bw_code(w, ll_code[t[i].lit], ll_len[t[i].lit]); continue; }
		int ls = gen_tok_lsym(&t[i]), ds = gen_dist_sym(t[i].dist);
		bw_code(w, ll_code[257 + ls], ll_len[257 + ls]);
		bw_bits(w, t[i].len - g_len_base[ls], g_len_extra[ls]);
		bw_code(w, d_code[ds], d_len[ds]);
		bw_bits(w, t[i].dist - g_dist_base[ds], g_dist_extra[ds]);
	}
	if (emit_eob) bw_code(w, ll_code[256], ll_len[256]);
}
static inline void gen_fixed_codes(uint8_t *ll_len, uint16_t *ll_code, uint8_t *d_len, uint16_t *d_code)
{
	for (int i = 0; i < 144; i++) ll_len[i] = 8;
	for (int i = 144; i < 256; i++) ll_len[i] = 9;
	for (int i = 256; i < 280; i++) ll_len[i] = 7;
	for (int i = 280; i < 288; i++) ll_len[i] = 8;
	gen_canon(ll_len, 288, ll_code);
	for (int i = 0; i < 32; i++) d_len[i] = 5;
	gen_canon(d_len, 32, d_code);
}
static inline void gen_fixed(struct bw *w, int bfinal, const struct tok *t, int nt)
{
	uint8_t ll[288], d[32]; uint16_t llc[288], dc[32];
	gen_fixed_codes(ll, llc, d, dc);
	gen_block_hdr(w, bfinal, 1);
	gen_tokens(w, t, nt, ll, llc, d, dc, 1);
}
static inline void shape_chain(const int *used, int n, int maxdepth, uint8_t *len);
/* dynamic block header. style: 0 = every length written literally (complete 16-symbol code-length code, 4 bits each);
 * 1 = run-length coded with 16/17/18 (runs may straddle the lit/len -> dist boundary); 2 = as 1 plus zero runs spelt with symbol 16;
 * 3 = the longest spelling: every length written literally with a code-length code that gives the MOST frequent lengths the 7-bit codes (at least 8 symbols
 *     carry a code, unused ones take the short codes) - a 286+30 symbol header then needs about 286 bytes, more than any encoder produces. hclen_min: write at least this many code-length-code lengths (4..19). */
static inline void gen_dyn_header(struct bw *w, int bfinal, const uint8_t *ll_len, int hlit, const uint8_t *d_len, int hdist, int style, int hclen_force)
{
	static const uint8_t order[19] = { 16, 17, 18, 0, 8, 7, 9, 6, 10, 5, 11, 4, 12, 3, 13, 2, 14, 1, 15 };
	uint8_t all[320]; int n = hlit + hdist;
	memcpy(all, ll_len, hlit); memcpy(all + hlit, d_len, hdist);
	uint8_t cl[19]; uint16_t clc[19];
	if (style == 0) { for (int i = 0; i < 16; i++) cl[i] = 4; cl[16] = cl[17] = cl[18] = 0; } /* style 1, 2: all 19 symbols have codes */
	else if (style == 3) {
		int freq[19] = { 0 }, ord[19], k = 0, nu = 0;
		for (int i = 0; i < n; i++) freq[all[i]]++;
		for (int v = 0; v < 16; v++) nu += freq[v] != 0;
		for (int v = 18; v >= 0 && k + nu < 8; v--) if (!freq[v]) ord[k++] = v;     /* unused fillers first: they take the short codes */
		for (int f = 1; f <= n; f++) for (int v = 0; v < 16; v++) if (freq[v] == f) ord[k++] = v; /* ascending frequency */
		memset(cl, 0, sizeof cl);
		shape_chain(ord, k, 7, cl);
	}
	else { for (int i = 0; i < 13; i++) cl[i] = 4; for (int i = 13; i < 19; i++) cl[i] = 5; }
	gen_canon(cl, 19, clc);
	int hclen = 19;
	while (hclen > 4 && cl[order[hclen - 1]] == 0) hclen--;
	if (hclen_force > hclen) hclen = hclen_force;
	gen_block_hdr(w, bfinal, 2);
	bw_bits(w, hlit - 257, 5); bw_bits(w, hdist - 1, 5); bw_bits(w, hclen - 4, 4);
	for (int i = 0; i < hclen; i++) bw_bits(w, cl[order[i]], 3);
	for (int i = 0; i < n;) {
		if (style == 2 && all[i] == 0) {
			/* zero runs spelt with symbol 16 ("repeat the previous length") wherever RFC 1951 allows it: after a 17/18 zero run and after an
			 * explicit 0 - no encoder does this, every decoder must read it as zeros */
			int run = 1; while (i + run < n && all[i + run] == 0) run++;
			if (run >= 6) {
				int t = run - 3 > 6 ? 6 : run - 3, first = run - t;      /* first >= 3 zeros by 17/18, then t in 3..6 by 16 */
				if (first > 138) { first = 138; t = run - first >= 3 ? (run - first > 6 ? 6 : run - first) : 0; }
				if (first >= 11) { bw_code(w, clc[18], cl[18]); bw_bits(w, first - 11, 7); } else { bw_code(w, clc[17], cl[17]); bw_bits(w, first - 3, 3); }
				if (t >= 3) { bw_code(w, clc[16], cl[16]); bw_bits(w, t - 3, 2); } else t = 0;
				i += first + t; continue;
			}
			if (run >= 4) {
				int t = run - 1 > 6 ? 6 : run - 1;                        /* explicit 0, then 3..6 more by 16 */
				bw_code(w, clc[0], cl[0]); bw_code(w, clc[16], cl[16]); bw_bits(w, t - 3, 2);
				i += 1 + t; continue;
			}
		}
		if (style == 1 || style == 2) {
			int run = 1; while (i + run < n && all[i + run] == all[i]) run++;
			if (all[i] == 0 && run >= 3) { int r = run > 138 ? 138 : run; if (r >= 11) { bw_code(w, clc[18], cl[18]); bw_bits(w, r - 11, 7); } else { bw_code(w, clc[17], cl[17]); bw_bits(w, r - 3, 3); } i += r; continue; }
			if (all[i] != 0 && run >= 4) { bw_code(w, clc[all[i]], cl[all[i]]); int r = run - 1 > 6 ? 6 : run - 1; bw_code(w, clc[16], cl[16]); bw_bits(w, r - 3, 2); i += 1 + r; continue; }
		}
		bw_code(w, clc[all[i]], cl[all[i]]); i++;
	}
}
static inline void gen_dynamic(struct bw *w, int bfinal, const uint8_t *ll_len, int hlit, const uint8_t *d_len, int hdist, int style, const struct tok *t, int nt)
{
	uint16_t llc[288], dc[32]; uint8_t l2[288] = { 0 }, d2[32] = { 0 };
	memcpy(l2, ll_len, hlit); memcpy(d2, d_len, hdist);
	gen_canon(l2, 288, llc); gen_canon(d2, 32, dc);
	gen_dyn_header(w, bfinal, ll_len, hlit, d_len, hdist, style, 0);
	gen_tokens(w, t, nt, l2, llc, d2, dc, 1);
}

/* ---- code shapes: assign COMPLETE prefix-code lengths to the set of used symbols ---- */
/* balanced: n used symbols get lengths L or L-1 with Kraft sum exactly 1 (n==1: length 1, incomplete by necessity) */
static inline void shape_balanced(const int *used, int n, uint8_t *len)
{
	if (n == 1) { len[used[0]] = 1; return; }
	int L = 0; while ((1 << L) < n) L++;
	int shorter = (1 << L) - n;
	for (int i = 0; i < n; i++) len[used[i]] = (uint8_t)(i < shorter ? L - 1 : L);
}
/* chain: lengths 1,2,3,...,m then the remaining symbols balanced below, reaching depth exactly maxdepth when n allows */
static inline void shape_chain(const int *used, int n, int maxdepth, uint8_t *len)
{
	if (n <= 2) { shape_balanced(used, n, len); return; }
	/* choose m (number of chain leaves) so that m + ceil(log2(n-m)) == maxdepth, n-m >= 2 */
	int m;
	for (m = n - 2; m >= 0; m--) { int r = n - m, L = 0; while ((1 << L) < r) L++; if (m + L <= maxdepth) break; }
	if (m < 0) m = 0;
	for (int i = 0; i < m; i++) len[used[i]] = (uint8_t)(i + 1);
	int r = n - m, L = 0; while ((1 << L) < r) L++;
	int shorter = (1 << L) - r;
	for (int i = 0; i < r; i++) len[used[m + i]] = (uint8_t)(m + (i < shorter ? L - 1 : L));
}
#endif
